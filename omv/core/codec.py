"""JSON encoding of explored cases (tuples, slices, Ellipsis, ndarrays, special floats)."""
import json
import math

import numpy as np


def enc(o):
    if o is None or isinstance(o, (bool, str)):
        return o
    if isinstance(o, (int, np.integer)):
        return int(o)
    if isinstance(o, (float, np.floating)):
        f = float(o)
        if math.isnan(f) or math.isinf(f):
            return {'__f__': repr(f)}
        return f
    if isinstance(o, (complex, np.complexfloating)):
        return {'__c__': [enc(o.real), enc(o.imag)]}
    if o is Ellipsis:
        return {'__e__': 1}
    if isinstance(o, slice):
        return {'__s__': [enc(o.start), enc(o.stop), enc(o.step)]}
    if isinstance(o, tuple):
        return {'__t__': [enc(x) for x in o]}
    if isinstance(o, (list,)):
        return [enc(x) for x in o]
    if isinstance(o, (set, frozenset)):
        return {'__set__': sorted((enc(x) for x in o), key=repr)}
    if isinstance(o, np.ndarray):
        return {'__a__': enc(o.tolist()), 'dtype': str(o.dtype), 'shape': list(o.shape)}
    if isinstance(o, dict):
        if all(isinstance(k, str) for k in o):
            return {'__d__': {k: enc(v) for k, v in o.items()}}
        return {'__dl__': [[enc(k), enc(v)] for k, v in o.items()]}
    if isinstance(o, type):
        return {'__type__': o.__name__}
    return {'__r__': repr(o)}


_TYPES = {'int': int, 'float': float, 'str': str, 'list': list, 'bool': bool, 'tuple': tuple,
          'dict': dict, 'NoneType': type(None), 'complex': complex}


def dec(o):
    if isinstance(o, list):
        return [dec(x) for x in o]
    if isinstance(o, dict):
        if '__f__' in o:
            return float(o['__f__'])
        if '__c__' in o:
            return complex(dec(o['__c__'][0]), dec(o['__c__'][1]))
        if '__e__' in o:
            return Ellipsis
        if '__s__' in o:
            return slice(*[dec(x) for x in o['__s__']])
        if '__t__' in o:
            return tuple(dec(x) for x in o['__t__'])
        if '__set__' in o:
            return frozenset(dec(x) for x in o['__set__'])
        if '__a__' in o:
            return np.array(dec(o['__a__']), dtype=o['dtype']).reshape(o['shape'])
        if '__d__' in o:
            return {k: dec(v) for k, v in o['__d__'].items()}
        if '__dl__' in o:
            return {_hashable(dec(k)): dec(v) for k, v in o['__dl__']}
        if '__type__' in o:
            return _TYPES[o['__type__']]
        if '__r__' in o:
            return o['__r__']
        return {k: dec(v) for k, v in o.items()}
    return o


def _hashable(k):
    if isinstance(k, list):
        return tuple(_hashable(x) for x in k)
    return k


def dumps(o, **kw):
    return json.dumps(enc(o), **kw)


def loads(s):
    return dec(json.loads(s))


def short(o, n=300):
    """Readable one-line rendering of a case for messages and evidence samples."""
    s = _render(o)
    return s if len(s) <= n else s[:n - 3] + '...'


def _render(o):
    if isinstance(o, np.ndarray):
        return 'array(%s)' % _render(o.tolist())
    if isinstance(o, dict):
        return '{' + ', '.join('%s: %s' % (k, _render(v)) for k, v in o.items()) + '}'
    if isinstance(o, tuple):
        return '(' + ', '.join(_render(x) for x in o) + (',)' if len(o) == 1 else ')')
    if isinstance(o, list):
        return '[' + ', '.join(_render(x) for x in o) + ']'
    if isinstance(o, (float, np.floating)):
        return repr(float(o))
    if isinstance(o, type):
        return o.__name__
    return repr(o)
