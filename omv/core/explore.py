"""E1: deviation-bounded configuration enumeration.  E2/E3 helpers: BFS over operation histories and
DFS over environment-answer words."""
import collections
import itertools


def ball(dims, k, base=None, valid=None):
    """All configurations within Hamming distance <= k of `base` (default: first value of each
    dimension).  dims: ordered dict name -> list of values.  Returns list of dicts, de-duplicated,
    ordered by number of deviations (0 first)."""
    names = list(dims)
    base = dict(base or {})
    for n in names:
        base.setdefault(n, dims[n][0])
    out, seen = [], set()
    for r in range(0, k + 1):
        for subset in itertools.combinations(names, r):
            alts = []
            for n in subset:
                alts.append([v for v in dims[n] if _key(v) != _key(base[n])])
            for combo in itertools.product(*alts):
                cfg = dict(base)
                for n, v in zip(subset, combo):
                    cfg[n] = v
                key = tuple(_key(cfg[n]) for n in names)
                if key in seen:
                    continue
                seen.add(key)
                if valid is not None and not valid(cfg):
                    continue
                out.append(cfg)
    return out


def product(dims, valid=None, fixed=None):
    names = list(dims)
    out = []
    for combo in itertools.product(*[dims[n] for n in names]):
        cfg = dict(fixed or {})
        cfg.update(zip(names, combo))
        if valid is None or valid(cfg):
            out.append(cfg)
    return out


def dedupe(cfgs):
    seen, out = set(), []
    for c in cfgs:
        k = _key(c)
        if k not in seen:
            seen.add(k)
            out.append(c)
    return out


def _key(v):
    if isinstance(v, dict):
        return tuple(sorted((k, _key(x)) for k, x in v.items()))
    if isinstance(v, (list, tuple)):
        return (type(v).__name__,) + tuple(_key(x) for x in v)
    if isinstance(v, slice):
        return ('slice', v.start, v.stop, v.step)
    if v is Ellipsis:
        return 'Ellipsis'
    try:
        import numpy as np
        if isinstance(v, np.ndarray):
            return ('nd', v.shape, tuple(v.ravel().tolist()))
    except ImportError:
        pass
    return v


key = _key


def bfs(root_ops, enabled, step, canon, max_depth, invariant=None):
    """Generic breadth-first explicit-state search where a state is the history reaching it.

    enabled(history) -> list of operations; step(history) -> (obs_state, ok, info) executes the whole
    history from scratch on a fresh object (and its reference model) and returns the canonical
    observable state; violations are collected by the caller through `invariant`.
    Returns dict(states, transitions, traces, max_depth, violations).
    """
    seen = set()
    frontier = collections.deque([tuple(root_ops)])
    st0, viol0 = step(tuple(root_ops))
    seen.add(canon(st0))
    res = {'states': 1, 'transitions': 0, 'traces': 0, 'max_depth': 0, 'violations': list(viol0)}
    while frontier:
        hist = frontier.popleft()
        ops = enabled(hist) if len(hist) - len(root_ops) < max_depth else []
        if not ops:
            res['traces'] += 1
            continue
        leaf = True
        for op in ops:
            nh = hist + (op,)
            st, viol = step(nh)
            res['transitions'] += 1
            res['violations'].extend(viol)
            k = canon(st)
            if k not in seen:
                seen.add(k)
                res['states'] += 1
                frontier.append(nh)
                res['max_depth'] = max(res['max_depth'], len(nh) - len(root_ops))
                leaf = False
        if leaf:
            res['traces'] += 1
    return res
