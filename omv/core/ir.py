"""E5 - mini-MDAO intermediate representation, real-OpenMDAO builder and independent NumPy evaluator.

A model spec is a plain dict (codec-encodable):

  ivcs   : [ {name, shape, units, val(list)} ]         outputs of one IndepVarComp 'ivc' at the root
  autos  : [ {name, shape, units, val(list)} ]         root-promoted inputs fed by auto-IVCs
  comps  : [ {name, path, kind, partials, inputs:[{name, shape, units}], outputs:[{name, shape, units,
              ref, ref0, res_ref, lower, upper}], A:{'o|i': matrix}, Q:{'o|i': matrix}, c:{o: vec},
              M:{o: matrix}, g:{o: vec}, self_solve: bool} ]
  conns  : [ {src: 'ivc.p' | 'G.c.y' | 'auto:p', tgt: 'G.c.x', chain: [[idx, flat], ...], how:
              'connect'|'promote'} ]     chain is applied source-outwards: src[idx0][idx1]...
  groups : { 'G': {nl, ln, jac, nl_opts, ln_opts}, '': {...} }        '' is the root
  dvs, responses : driver view

Explicit comps:  y_o = sum_i (A_oi x_i + Q_oi (x_i*x_i)) + c_o
Implicit comps:  R_o = M_o u_o + g_o*u_o**3 - sum_i (A_oi x_i + Q_oi (x_i*x_i)) - c_o   (g_o >= 0)
All variables are treated flat (C order) by the maths; shapes only matter for src_indices.
"""
import numpy as np

# ----------------------------------------------------------------------------- units (textbook)
# (factor, offset) such that tgt = (src + offset) * factor  -- written from the unit definitions,
# not from openmdao.utils.units
UNIT_MAPS = {
    (None, None): (1.0, 0.0),
    ('m', 'm'): (1.0, 0.0),
    ('m', 'cm'): (100.0, 0.0),
    ('cm', 'm'): (0.01, 0.0),
    ('km', 'm'): (1000.0, 0.0),
    ('m', 'km'): (0.001, 0.0),
    ('degC', 'degF'): (1.8, 32.0 / 1.8),
    ('degF', 'degC'): (1.0 / 1.8, -32.0),
    ('degF', 'degK'): (1.0 / 1.8, 459.67),
    ('degK', 'degF'): (1.8, -459.67 / 1.8),
    ('degC', 'degK'): (1.0, 273.15),
    ('degK', 'degC'): (1.0, -273.15),
    ('s', 'ms'): (1000.0, 0.0),
    ('ms', 's'): (0.001, 0.0),
    ('inch', 'ft'): (1.0 / 12.0, 0.0),
    ('ft', 'inch'): (12.0, 0.0),
}


def unit_map(src_u, tgt_u):
    if src_u == tgt_u or tgt_u is None or src_u is None:
        return (1.0, 0.0)
    return UNIT_MAPS[(src_u, tgt_u)]


# ----------------------------------------------------------------------------- palettes
_PRIMES = [2, 3, 5, 7, 11, 13, 17, 19, 23, 29, 31, 37, 41, 43, 47, 53, 59, 61, 67, 71, 73, 79, 83, 89,
           97, 101, 103, 107, 109, 113]


def gen_matrix(m, n, key, palette=0, scale=1.0, pattern=None):
    """Generic non-symmetric matrix with pairwise distinct dyadic-ish entries of mixed sign."""
    k = (key * 7 + palette * 13) % 17
    out = np.zeros((m, n))
    t = 0
    for i in range(m):
        for j in range(n):
            p = _PRIMES[(k + 3 * i + 5 * j + i * j + t) % len(_PRIMES)]
            sgn = -1.0 if (i + 2 * j + k) % 3 == 0 else 1.0
            out[i, j] = sgn * (p + (i * n + j) * 0.5 + 0.25 * ((k + i) % 4)) / 32.0
            t += 1
    if pattern is not None:
        out = out * np.asarray(pattern, dtype=float)
    return out * scale


def gen_vec(n, key, palette=0, scale=1.0):
    k = (key * 5 + palette * 11) % 13
    v = np.array([((_PRIMES[(k + 2 * i) % len(_PRIMES)] % 11) - 4.5 + 0.25 * i) / 4.0
                  for i in range(n)])
    return v * scale


def diag_dominant(m, key, palette=0):
    a = gen_matrix(m, m, key, palette, scale=0.125)
    for i in range(m):
        a[i, i] = 4.0 + 0.5 * i + 0.25 * ((key + palette) % 3)
    return a


# ----------------------------------------------------------------------------- helpers
def size_of(shape):
    return int(np.prod(shape)) if shape != () else 1


def apply_chain(shape, chain):
    """Flat source positions selected by a chain of (idx, flat) applied source-outwards, and the
    resulting shape.  Pure NumPy."""
    arr = np.arange(size_of(shape)).reshape(shape)
    for idx, flat in chain:
        if isinstance(idx, list):
            idx = np.asarray(idx, dtype=int)
        if isinstance(idx, tuple):
            idx = tuple(np.asarray(t, dtype=int) if isinstance(t, list) else t for t in idx)
        src = arr.ravel() if flat else arr
        arr = np.asarray(src[idx])
    return arr.ravel().copy(), arr.shape


def comp_abs(c):
    return c['path']


def var_table(spec):
    """name -> dict(kind, shape, units, comp) for all absolute variable names"""
    tab = {}
    for v in spec.get('ivcs', []):
        tab['ivc.' + v['name']] = dict(kind='ivc', shape=tuple(v['shape']), units=v.get('units'),
                                       val=np.asarray(v['val'], dtype=float).reshape(v['shape']))
    for v in spec.get('autos', []):
        tab['auto:' + v['name']] = dict(kind='auto', shape=tuple(v['shape']), units=v.get('units'),
                                        val=np.asarray(v['val'], dtype=float).reshape(v['shape']))
    for c in spec['comps']:
        for v in c['inputs']:
            tab[c['path'] + '.' + v['name']] = dict(kind='in', shape=tuple(v['shape']),
                                                    units=v.get('units'), comp=c)
        for v in c['outputs']:
            tab[c['path'] + '.' + v['name']] = dict(kind='out', shape=tuple(v['shape']),
                                                    units=v.get('units'), comp=c, meta=v)
    return tab


# ----------------------------------------------------------------------------- reference evaluator
class Ref(object):
    """Independent evaluator: global residual, exact Jacobian, totals.  Knows nothing of OpenMDAO."""

    def __init__(self, spec):
        self.spec = spec
        self.tab = var_table(spec)
        self.outs = [n for n, v in self.tab.items() if v['kind'] in ('ivc', 'auto', 'out')]
        self.off = {}
        o = 0
        for n in self.outs:
            self.off[n] = o
            o += size_of(self.tab[n]['shape'])
        self.N = o
        self.override = {}     # (comp path, out name, in name) -> replacement partial matrix
        self.free = np.zeros(self.N, dtype=bool)
        for n in self.outs:
            if self.tab[n]['kind'] in ('ivc', 'auto'):
                self.free[self.sl(n)] = True
        self.conn = {}
        for cn in spec['conns']:
            src = cn['src']
            tgt = cn['tgt']
            pos, shp = apply_chain(self.tab[src]['shape'], [tuple(x) for x in cn.get('chain', [])])
            fac, offs = unit_map(self.tab[src]['units'], self.tab[tgt]['units'])
            self.conn[tgt] = dict(src=src, pos=pos, shape=shp, factor=fac, offset=offs)

    def sl(self, name):
        return slice(self.off[name], self.off[name] + size_of(self.tab[name]['shape']))

    def initial(self):
        U = np.zeros(self.N)
        for n in self.outs:
            t = self.tab[n]
            if t['kind'] in ('ivc', 'auto'):
                U[self.sl(n)] = t['val'].ravel()
            else:
                U[self.sl(n)] = 1.0
        return U

    def input_val(self, U, tgt):
        c = self.conn[tgt]
        return (U[self.sl(c['src'])][c['pos']] + c['offset']) * c['factor']

    def inputs(self, U):
        return {t: self.input_val(U, t) for t in self.conn}

    def residual(self, U):
        R = np.zeros(self.N)
        for c in self.spec['comps']:
            p = c['path']
            xin = {v['name']: self.input_val(U, p + '.' + v['name']) for v in c['inputs']}
            for ov in c['outputs']:
                on = ov['name']
                f = np.array(c['c'][on], dtype=float).ravel().copy()
                for v in c['inputs']:
                    key = on + '|' + v['name']
                    if key in c['A']:
                        f += np.asarray(c['A'][key]) @ xin[v['name']]
                    if key in c.get('Q', {}):
                        f += np.asarray(c['Q'][key]) @ (xin[v['name']] ** 2)
                u = U[self.sl(p + '.' + on)]
                if c['kind'] in ('imp',):
                    M = np.asarray(c['M'][on])
                    g = np.asarray(c['g'][on])
                    R[self.sl(p + '.' + on)] = M @ u + g * u * u * u - f
                else:
                    R[self.sl(p + '.' + on)] = u - f
        return R

    def jacobian(self, U):
        """dR/dU (rows of free entries are zero)"""
        J = np.zeros((self.N, self.N))
        for c in self.spec['comps']:
            p = c['path']
            xin = {v['name']: self.input_val(U, p + '.' + v['name']) for v in c['inputs']}
            for ov in c['outputs']:
                on = ov['name']
                ro = self.sl(p + '.' + on)
                u = U[ro]
                if c['kind'] in ('imp',):
                    J[ro, ro] += np.asarray(c['M'][on]) + np.diag(3.0 * np.asarray(c['g'][on]) * u * u)
                else:
                    J[ro, ro] += np.eye(len(u))
                for v in c['inputs']:
                    key = on + '|' + v['name']
                    P = None
                    if key in c['A']:
                        P = np.asarray(c['A'][key], dtype=float).copy()
                    if key in c.get('Q', {}):
                        q = np.asarray(c['Q'][key]) * (2.0 * xin[v['name']])[None, :]
                        P = q if P is None else P + q
                    if P is None:
                        continue
                    ov_ = self.override.get((p, on, v['name']))
                    if ov_ is not None:
                        P = np.asarray(ov_, dtype=float)
                    cn = self.conn[p + '.' + v['name']]
                    so = self.off[cn['src']]
                    rows = np.arange(ro.start, ro.stop)
                    for j, sp in enumerate(cn['pos']):
                        J[rows, so + sp] += -P[:, j] * cn['factor']
        return J

    def partial(self, U, comp, on, iname):
        """component-level partial d(out or residual)/d(input) in the component's own units"""
        xin = self.input_val(U, comp['path'] + '.' + iname)
        key = on + '|' + iname
        n_out = size_of(self.tab[comp['path'] + '.' + on]['shape'])
        P = np.zeros((n_out, len(xin)))
        if key in comp['A']:
            P += np.asarray(comp['A'][key])
        if key in comp.get('Q', {}):
            P += np.asarray(comp['Q'][key]) * (2.0 * xin)[None, :]
        return -P if comp['kind'] == 'imp' else P

    def solve(self, U0=None, tol=1e-13, maxiter=60):
        U = self.initial() if U0 is None else U0.copy()
        st = ~self.free
        for _ in range(maxiter):
            R = self.residual(U)
            if np.max(np.abs(R[st]), initial=0.0) < tol:
                return U, True
            J = self.jacobian(U)
            U[st] -= np.linalg.solve(J[np.ix_(st, st)], R[st])
        R = self.residual(U)
        return U, bool(np.max(np.abs(R[st]), initial=0.0) < 1e-9)

    def dU_dfree(self, U):
        """total derivative of every entry of U w.r.t. every free entry: (N, nfree) + list of free
        positions"""
        J = self.jacobian(U)
        st = ~self.free
        fr = np.where(self.free)[0]
        D = np.zeros((self.N, len(fr)))
        D[fr, np.arange(len(fr))] = 1.0
        if st.any():
            D[st, :] = -np.linalg.solve(J[np.ix_(st, st)], J[np.ix_(st, fr)])
        return D, fr

    def totals(self, U, ofs, wrts):
        """ofs / wrts: list of (abs output name, flat positions or None). wrt names must be free."""
        D, fr = self.dU_dfree(U)
        frpos = {int(p): k for k, p in enumerate(fr)}
        out = {}
        for on, opos in ofs:
            o0 = self.off[on]
            n = size_of(self.tab[on]['shape'])
            opos_ = np.arange(n) if opos is None else np.asarray(opos)
            for wn, wpos in wrts:
                w0 = self.off[wn]
                nw = size_of(self.tab[wn]['shape'])
                wpos_ = np.arange(nw) if wpos is None else np.asarray(wpos)
                cols = [frpos[w0 + int(k)] for k in wpos_]
                out[(on, wn)] = D[np.ix_(o0 + opos_, cols)]
        return out


# ----------------------------------------------------------------------------- OpenMDAO builder
def _make_component_classes():
    import openmdao.api as om
    import scipy.sparse as sp

    def _pattern(c, on, iname):
        key = on + '|' + iname
        pat = None
        if key in c['A']:
            pat = np.asarray(c['A'][key]) != 0
        if key in c.get('Q', {}):
            q = np.asarray(c['Q'][key]) != 0
            pat = q if pat is None else (pat | q)
        return pat

    def _fmt_for(fmt, key):
        if isinstance(fmt, dict):
            if 'method' in fmt:
                return fmt          # approximation options for every partial of the component
            return fmt.get(key, 'dense')
        return fmt

    class _Mixin(object):
        def _spec_setup(self):
            c = self.options['spec']
            for v in c['inputs']:
                kw = {}
                if v.get('units'):
                    kw['units'] = v['units']
                if v.get('shape_by_conn'):
                    self.add_input(v['name'], shape_by_conn=True, **kw)
                elif tuple(v['shape']) == ():
                    self.add_input(v['name'], val=1.0, shape=(), **kw)     # a true 0-d variable
                else:
                    self.add_input(v['name'], val=np.ones(tuple(v['shape'])), **kw)
            for v in c['outputs']:
                kw = {}
                for k in ('units', 'ref', 'ref0', 'res_ref', 'lower', 'upper'):
                    if v.get(k) is not None:
                        kw[k] = np.asarray(v[k]) if isinstance(v[k], list) else v[k]
                self.add_output(v['name'], val=np.ones(tuple(v['shape'])), **kw)

        def _declare(self, sign=1.0):
            c = self.options['spec']
            fmt = c.get('partials', 'dense')
            self._pinfo = {}
            for ov in c['outputs']:
                for iv in c['inputs']:
                    pat = _pattern(c, ov['name'], iv['name'])
                    if pat is None:
                        continue
                    of, wrt = ov['name'], iv['name']
                    f = _fmt_for(fmt, of + '|' + wrt)
                    if isinstance(f, dict):
                        self.declare_partials(of, wrt, **f)
                    elif f in ('fd', 'cs'):
                        self.declare_partials(of, wrt, method=f)
                    elif f == 'fd_central':
                        self.declare_partials(of, wrt, method='fd', form='central')
                    elif f == 'dense' or f == 'matfree':
                        if f == 'dense':
                            self.declare_partials(of, wrt)
                    elif f in ('rowcol', 'rowcol_dup', 'coo', 'csr', 'csc', 'diag'):
                        rows, cols = np.nonzero(pat)
                        if f == 'diag' and pat.shape[0] == pat.shape[1] and \
                                np.array_equal(rows, cols) and len(rows) == pat.shape[0]:
                            self.declare_partials(of, wrt, diagonal=True)
                            self._pinfo[(of, wrt)] = ('diag', rows, cols)
                            continue
                        if f == 'rowcol_dup' and len(rows) > 0:
                            rows = np.concatenate([rows, rows[:1]])
                            cols = np.concatenate([cols, cols[:1]])
                        if f in ('rowcol', 'rowcol_dup', 'diag'):
                            self.declare_partials(of, wrt, rows=rows, cols=cols)
                            self._pinfo[(of, wrt)] = (f if f != 'diag' else 'rowcol', rows, cols)
                        else:
                            # scipy sparse value given at declaration defines the pattern
                            data = np.ones(len(rows))
                            m = sp.coo_matrix((data, (rows, cols)), shape=pat.shape)
                            m = {'coo': m, 'csr': m.tocsr(), 'csc': m.tocsc()}[f]
                            self.declare_partials(of, wrt, val=m)
                            self._pinfo[(of, wrt)] = (f, rows, cols)
                    else:
                        raise ValueError('unknown partial format %r' % (f,))
            if c.get('coloring'):
                self.declare_coloring(**c['coloring'])
            if c['kind'] == 'imp':
                for ov in c['outputs']:
                    f = _fmt_for(fmt, ov['name'] + '|' + ov['name'])
                    if isinstance(f, dict):
                        self.declare_partials(ov['name'], ov['name'], **f)
                    elif f in ('fd', 'cs'):
                        self.declare_partials(ov['name'], ov['name'], method=f)
                    elif f == 'fd_central':
                        self.declare_partials(ov['name'], ov['name'], method='fd', form='central')
                    elif f != 'matfree':
                        self.declare_partials(ov['name'], ov['name'])

        def _eval_f(self, inputs, on):
            c = self.options['spec']
            f = np.array(c['c'][on], dtype=np.asarray(inputs[c['inputs'][0]['name']]).dtype
                         if c['inputs'] else float).ravel().copy()
            for iv in c['inputs']:
                key = on + '|' + iv['name']
                x = np.asarray(inputs[iv['name']]).ravel()
                if key in c['A']:
                    f = f + np.asarray(c['A'][key]) @ x
                if key in c.get('Q', {}):
                    f = f + np.asarray(c['Q'][key]) @ (x * x)
            return f

        def _dense_partial(self, inputs, on, iname):
            c = self.options['spec']
            key = on + '|' + iname
            x = np.asarray(inputs[iname]).ravel()
            P = None
            if key in c['A']:
                P = np.asarray(c['A'][key], dtype=float).copy()
            if key in c.get('Q', {}):
                q = np.asarray(c['Q'][key]) * (2.0 * x.real)[None, :]
                P = q if P is None else P + q
            return P

        def _fill(self, partials, inputs, sign):
            c = self.options['spec']
            fmt = c.get('partials', 'dense')
            for ov in c['outputs']:
                for iv in c['inputs']:
                    of, wrt = ov['name'], iv['name']
                    f = _fmt_for(fmt, of + '|' + wrt)
                    if isinstance(f, dict) or f in ('fd', 'cs', 'fd_central', 'matfree'):
                        continue
                    P = self._dense_partial(inputs, of, wrt)
                    if P is None:
                        continue
                    P = sign * P
                    info = self._pinfo.get((of, wrt))
                    if info is None:
                        partials[of, wrt] = P
                    else:
                        kind, rows, cols = info
                        if kind == 'diag':
                            partials[of, wrt] = np.diag(P)
                        elif kind == 'rowcol':
                            partials[of, wrt] = P[rows, cols]
                        elif kind == 'rowcol_dup':
                            vals = P[rows, cols].copy()
                            # the duplicated (row, col) pair shares its value between both slots
                            vals[0] = 0.25 * vals[0]
                            vals[-1] = 3.0 * vals[0]
                            partials[of, wrt] = vals
                        else:
                            m = sp.coo_matrix((P[rows, cols], (rows, cols)), shape=P.shape)
                            partials[of, wrt] = {'coo': m, 'csr': m.tocsr(), 'csc': m.tocsc()}[kind]

    class LinComp(om.ExplicitComponent, _Mixin):
        def initialize(self):
            self.options.declare('spec', types=dict, recordable=False)
            self.options.declare('trace', default=None, recordable=False)

        def setup(self):
            self._spec_setup()

        def setup_partials(self):
            self._declare()

        def compute(self, inputs, outputs):
            tr = self.options['trace']
            if tr is not None:
                tr('compute', self, inputs)
            for ov in self.options['spec']['outputs']:
                outputs[ov['name']] = self._eval_f(inputs, ov['name']).reshape(
                    np.shape(outputs[ov['name']]))

        def compute_partials(self, inputs, partials):
            self._fill(partials, inputs, 1.0)

    class LinCompMF(LinComp):
        """matrix-free variant"""
        def compute_partials(self, inputs, partials):
            pass

        def compute_jacvec_product(self, inputs, d_inputs, d_outputs, mode):
            c = self.options['spec']
            for ov in c['outputs']:
                of = ov['name']
                if of not in d_outputs:
                    continue
                for iv in c['inputs']:
                    wrt = iv['name']
                    if wrt not in d_inputs:
                        continue
                    P = self._dense_partial(inputs, of, wrt)
                    if P is None:
                        continue
                    # 0-d variables are handed out as python floats
                    if mode == 'fwd':
                        d_outputs[of] += (P @ np.ravel(d_inputs[wrt])).reshape(
                            np.shape(d_outputs[of]))
                    else:
                        d_inputs[wrt] += (P.T @ np.ravel(d_outputs[of])).reshape(
                            np.shape(d_inputs[wrt]))

    class ImpComp(om.ImplicitComponent, _Mixin):
        def initialize(self):
            self.options.declare('spec', types=dict, recordable=False)
            self.options.declare('trace', default=None, recordable=False)

        def setup(self):
            self._spec_setup()

        def setup_partials(self):
            self._declare()

        def apply_nonlinear(self, inputs, outputs, residuals):
            c = self.options['spec']
            tr = self.options['trace']
            if tr is not None:
                tr('apply', self, inputs)
            for ov in c['outputs']:
                on = ov['name']
                u = outputs[on].ravel()
                f = self._eval_f(inputs, on)
                residuals[on] = (np.asarray(c['M'][on]) @ u + np.asarray(c['g'][on]) * u * u * u -
                                 f).reshape(residuals[on].shape)

        def solve_nonlinear(self, inputs, outputs):
            c = self.options['spec']
            if not c.get('self_solve', True):
                return
            tr = self.options['trace']
            if tr is not None:
                tr('solve', self, inputs)
            for ov in c['outputs']:
                on = ov['name']
                u = outputs[on].ravel().copy()
                f = self._eval_f(inputs, on)
                M = np.asarray(c['M'][on])
                g = np.asarray(c['g'][on])
                ok = False
                forced = 3 if np.iscomplexobj(f) or np.iscomplexobj(u) else 0
                for it in range(100):
                    r = M @ u + g * u * u * u - f
                    if it >= forced and np.max(np.abs(r.real)) <= 1e-13 * max(
                            1.0, np.max(np.abs(f))):
                        ok = True
                        break
                    # (under complex step the imaginary part needs Newton updates of its own)
                    u = u - np.linalg.solve(M + np.diag(3.0 * g * u * u), r)
                if not ok:
                    raise om.AnalysisError('%s: internal Newton did not converge' % self.pathname)
                outputs[on] = u.reshape(outputs[on].shape)

        def linearize(self, inputs, outputs, partials):
            c = self.options['spec']
            fmt = c.get('partials', 'dense')
            self._fill(partials, inputs, -1.0)
            self._dRdu = {}
            for ov in c['outputs']:
                on = ov['name']
                u = outputs[on].ravel().real
                d = np.asarray(c['M'][on]) + np.diag(3.0 * np.asarray(c['g'][on]) * u * u)
                self._dRdu[on] = d
                f = _fmt_for(fmt, on + '|' + on)
                if not isinstance(f, dict) and f not in ('fd', 'cs', 'fd_central', 'matfree'):
                    partials[on, on] = d

        def solve_linear(self, d_outputs, d_residuals, mode):
            c = self.options['spec']
            if not c.get('self_solve', True):
                return
            for ov in c['outputs']:
                on = ov['name']
                d = self._dRdu[on]
                if mode == 'fwd':
                    d_outputs[on] = np.linalg.solve(d, d_residuals[on].ravel()).reshape(
                        d_outputs[on].shape)
                else:
                    d_residuals[on] = np.linalg.solve(d.T, d_outputs[on].ravel()).reshape(
                        d_residuals[on].shape)

    class ImpCompMF(ImpComp):
        def linearize(self, inputs, outputs, partials):
            c = self.options['spec']
            self._dRdu = {}
            for ov in c['outputs']:
                on = ov['name']
                u = outputs[on].ravel().real
                self._dRdu[on] = np.asarray(c['M'][on]) + np.diag(3.0 * np.asarray(c['g'][on]) * u * u)

        def apply_linear(self, inputs, outputs, d_inputs, d_outputs, d_residuals, mode):
            c = self.options['spec']
            for ov in c['outputs']:
                of = ov['name']
                if of not in d_residuals:
                    continue
                if of in d_outputs:
                    d = self._dRdu[of]
                    if mode == 'fwd':
                        d_residuals[of] += (d @ d_outputs[of].ravel()).reshape(d_residuals[of].shape)
                    else:
                        d_outputs[of] += (d.T @ d_residuals[of].ravel()).reshape(d_outputs[of].shape)
                for iv in c['inputs']:
                    wrt = iv['name']
                    if wrt not in d_inputs:
                        continue
                    P = self._dense_partial(inputs, of, wrt)
                    if P is None:
                        continue
                    if mode == 'fwd':
                        d_residuals[of] -= (P @ np.ravel(d_inputs[wrt])).reshape(d_residuals[of].shape)
                    else:
                        d_inputs[wrt] -= (P.T @ d_residuals[of].ravel()).reshape(np.shape(d_inputs[wrt]))

    return {'lin': LinComp, 'lin_mf': LinCompMF, 'imp': ImpComp, 'imp_mf': ImpCompMF}


_CLASSES = None


def comp_classes():
    global _CLASSES
    if _CLASSES is None:
        _CLASSES = _make_component_classes()
    return _CLASSES


def _solver(kind, opts, linear):
    import openmdao.api as om
    opts = dict(opts or {})
    if linear:
        tab = {'RunOnce': om.LinearRunOnce, 'Direct': om.DirectSolver, 'LNBGS': om.LinearBlockGS,
               'LNBJ': om.LinearBlockJac, 'Krylov': om.ScipyKrylov}
        s = tab[kind]()
        if kind in ('LNBGS', 'LNBJ'):
            s.options['maxiter'] = 200
            s.options['atol'] = 1e-14
            s.options['rtol'] = 1e-14
        if kind == 'Krylov':
            s.options['atol'] = 1e-14
            s.options['rtol'] = 1e-14
            s.options['maxiter'] = 200
    else:
        tab = {'RunOnce': om.NonlinearRunOnce, 'NLBGS': om.NonlinearBlockGS,
               'NLBJ': om.NonlinearBlockJac, 'Newton': om.NewtonSolver, 'Broyden': om.BroydenSolver}
        s = tab[kind]()
        if kind in ('NLBGS', 'NLBJ'):
            s.options['maxiter'] = 300
            s.options['atol'] = 1e-13
            s.options['rtol'] = 1e-13
        if kind == 'Newton':
            s.options['solve_subsystems'] = False
            s.options['maxiter'] = 50
            s.options['atol'] = 1e-13
            s.options['rtol'] = 1e-13
        if kind == 'Broyden':
            s.options['maxiter'] = 100
            s.options['atol'] = 1e-13
            s.options['rtol'] = 1e-13
    if kind != 'RunOnce':
        s.options['iprint'] = -1
        if 'err_on_non_converge' in s.options:
            # a solver that does not converge must say so (the properties are conditional on
            # every solver reporting convergence)
            s.options['err_on_non_converge'] = True
    for k, v in opts.items():
        s.options[k] = v
    return s


def build(spec, trace=None, setup=True, mode=None, problem_kwargs=None, before_setup=None):
    """Build a real om.Problem from the spec.  Returns (prob, info)."""
    import openmdao.api as om
    classes = comp_classes()
    prob = om.Problem(reports=None, **(problem_kwargs or {}))
    model = prob.model
    groups = {'': model}
    gspecs = spec.get('groups', {})

    def get_group(path):
        if path in groups:
            return groups[path]
        parent, _, name = path.rpartition('.')
        pg = get_group(parent)
        g = pg.add_subsystem(name, om.Group())
        groups[path] = g
        return g

    # subsystem order = order of appearance (ivc first unless spec['order'] says otherwise)
    items = []
    if spec.get('ivcs'):
        items.append(('ivc', None))
    for c in spec['comps']:
        items.append(('comp', c))
    order = spec.get('order')
    if order is not None:
        items = [items[i] for i in order]
    insts = {}
    for kind, c in items:
        if kind == 'ivc':
            ivc = om.IndepVarComp()
            for v in spec['ivcs']:
                kw = {}
                for k in ('units', 'ref', 'ref0', 'res_ref'):
                    if v.get(k) is not None:
                        kw[k] = v[k]
                if tuple(v['shape']) == ():
                    kw['shape'] = ()
                ivc.add_output(v['name'], val=np.asarray(v['val'], dtype=float).reshape(v['shape']),
                               **kw)
            model.add_subsystem('ivc', ivc)
            continue
        parent, _, name = c['path'].rpartition('.')
        g = get_group(parent)
        kindname = c['kind']
        if c.get('partials') == 'matfree':
            kindname += '_mf'
        inst = classes[kindname](spec=c, trace=trace)
        g.add_subsystem(name, inst)
        insts[c['path']] = inst

    # wiring
    done_promotes = set()
    for cn in spec['conns']:
        how = cn.get('how', 'connect')
        chain = [tuple(x) for x in cn.get('chain', [])]
        src, tgt = cn['src'], cn['tgt']
        if how == 'connect':
            assert len(chain) <= 1 and not src.startswith('auto:')
            if chain:
                idx, flat = chain[0]
                model.connect(src, tgt, src_indices=idx, flat_src_indices=flat if flat else None)
            else:
                model.connect(src, tgt)
        elif how == 'promote':
            # promote the input upward; the chain entries are given outermost (root) first and
            # are attached at successive levels from the root downwards.
            parts = tgt.split('.')
            vname = parts[-1]
            comp_path = parts[:-1]
            pname = cn['pname']           # promoted name at the root ( == source name at root)
            levels = len(comp_path)       # number of promotes() calls
            # chain[k] attaches at depth k (0 = root promotes its child); missing -> None
            lv = cn.get('levels') or chain
            lv = [None if x is None else tuple(x) for x in lv]
            for depth in range(levels):
                parent_path = '.'.join(comp_path[:depth])
                child = comp_path[depth]
                pg = groups[parent_path]
                is_leaf = depth == levels - 1
                inp = (vname, pname) if is_leaf and vname != pname else pname
                kw = {}
                if depth < len(lv) and lv[depth] is not None:
                    idx, flat = lv[depth]
                    kw['src_indices'] = idx
                    if flat:
                        kw['flat_src_indices'] = True
                    if cn.get('src_shape_at') == depth:
                        kw['src_shape'] = tuple(cn['src_shape'])
                pkey = (parent_path, child, repr(inp))
                if pkey in done_promotes:
                    continue
                done_promotes.add(pkey)
                pg.promotes(child, inputs=[inp], **kw)
            if src.startswith('ivc.'):
                model.promotes('ivc', outputs=[(src[4:], pname)] if src[4:] != pname else [pname])
        else:
            raise ValueError(how)
    for v in spec.get('autos', []):
        kw = {}
        if v.get('units'):
            kw['units'] = v['units']
        if v.get('src_shape'):
            kw['src_shape'] = tuple(v['src_shape'])
        model.set_input_defaults(v['name'], val=np.asarray(v['val'], dtype=float).reshape(v['shape']),
                                 **kw)

    for path, gs in gspecs.items():
        g = groups[path]
        if gs.get('nl'):
            g.nonlinear_solver = _solver(gs['nl'], gs.get('nl_opts'), False)
            if gs['nl'] == 'Newton' and gs.get('newton_ln'):
                g.nonlinear_solver.linear_solver = _solver(gs['newton_ln'], None, True)
        if gs.get('ln'):
            g.linear_solver = _solver(gs['ln'], gs.get('ln_opts'), True)
            if gs.get('jac'):
                g.linear_solver.options['assemble_jac'] = True
            if gs.get('no_assemble'):
                g.linear_solver.options['assemble_jac'] = False
        if gs.get('jac'):
            g.options['assembled_jac_type'] = gs['jac']
        if gs.get('approx'):
            g.approx_totals(**gs['approx'])
        if gs.get('auto_order'):
            g.options['auto_order'] = True

    for dv in spec.get('dvs', []):
        kw = {k: v for k, v in dv.items() if k != 'name' and v is not None and k[0] != '_'}
        for k in ('ref', 'ref0', 'scaler', 'adder', 'lower', 'upper'):
            if isinstance(kw.get(k), list):
                kw[k] = np.asarray(kw[k], dtype=float)
        model.add_design_var(dv['name'], **kw)
    for r in spec.get('responses', []):
        kw = {k: v for k, v in r.items() if k not in ('name', 'type') and v is not None
              and k[0] != '_'}
        for k in ('ref', 'ref0', 'scaler', 'adder', 'lower', 'upper', 'equals'):
            if isinstance(kw.get(k), list):
                kw[k] = np.asarray(kw[k], dtype=float)
        if r.get('type', 'con') == 'obj':
            model.add_objective(r['name'], **kw)
        else:
            if not any(k in kw for k in ('lower', 'upper', 'equals')):
                kw['upper'] = 1e3
            model.add_constraint(r['name'], **kw)
    if before_setup is not None:
        before_setup(prob, groups, insts)
    info = {'groups': groups, 'insts': insts}
    if setup:
        kw = {}
        if mode is not None:
            kw['mode'] = mode
        prob.setup(force_alloc_complex=bool(spec.get('force_alloc_complex')), **kw)
        for v in spec.get('autos', []):
            prob.set_val(v['name'], np.asarray(v['val'], dtype=float).reshape(v['shape']))
    return prob, info


def om_name(spec, absname):
    """name usable with Problem.get_val/set_val for a reference variable name"""
    if absname.startswith('auto:'):
        return absname[5:]
    return absname


def src_abs_name(prob, spec, refname):
    """absolute source (output) name inside the real model for a reference output name"""
    if refname.startswith('auto:'):
        pname = refname[5:]
        model = prob.model
        abs_in = model._resolver.absnames(pname, 'input')[0]
        return model._conn_global_abs_in2out[abs_in]
    return refname


def gather_U(prob, ref):
    """reference state vector from the real model's outputs (physical units)"""
    U = np.zeros(ref.N)
    for n in ref.outs:
        absn = src_abs_name(prob, ref.spec, n)
        U[ref.sl(n)] = np.asarray(prob.get_val(absn)).ravel()
    return U


class Trace(object):
    """Hook called by the IR components at the start of every compute/apply_nonlinear/
    solve_nonlinear: records the component's inputs and a snapshot of the root output vector."""

    def __init__(self, with_outputs=True):
        self.records = []
        self.prob = None
        self.with_outputs = with_outputs

    def __call__(self, kind, comp, inputs):
        snap = None
        if self.with_outputs and self.prob is not None:
            snap = self.prob.model._outputs.asarray().copy()
        self.records.append((kind, comp.pathname, {k: np.array(v) for k, v in inputs.items()}, snap))
