"""Regenerate /verif/MANIFEST.json from the property modules that exist (python -m omv.core.mkmanifest).

Each module declares ID, LEVEL, TECHNIQUE, LEVEL_TEXT, LEVEL_NOTE (and optionally DESIGN_REF).
Properties without a module are listed under not_applicable with the reason from NOT_CLAIMED below.
"""
import importlib
import json
import os
import sys

HOME = os.path.dirname(os.path.dirname(os.path.dirname(os.path.abspath(__file__))))

NOT_CLAIMED = {}   # property id -> reason (filled in when a property is deliberately not claimed)

# checks that have been calibrated on the unchanged tree, shown to detect seeded mutations and are
# silent across seeds; a module that exists but is not listed here is still under construction
READY = ['C01', 'C02', 'C03', 'C04', 'C05', 'C06', 'C07', 'C08', 'C09', 'C10', 'C11', 'C12', 'C13',
         'C14', 'C15', 'C16', 'C17', 'C18', 'C19', 'C20', 'C21', 'C22', 'C23', 'C24', 'C25', 'C26', 'C27', 'C28', 'C29', 'C30', 'C31', 'C32', 'C33', 'C34']

BASELINE_CMD = ('cd /repo && env -u OPENMDAO_VERIF /venv/bin/python -m pytest -ra -q -p no:cacheprovider '
                '--timeout=900 --continue-on-collection-errors')


def main():
    sys.path.insert(0, HOME)
    props = [json.loads(l) for l in open(os.path.join(HOME, 'properties.jsonl'))]
    pdir = os.path.join(HOME, 'omv', 'props')
    mods = {}
    for fn in sorted(os.listdir(pdir)):
        if fn.startswith('c') and fn.endswith('.py') and fn[1:3].isdigit():
            m = importlib.import_module('omv.props.' + fn[:-3])
            mods[m.ID] = m
    checks, na = [], []
    for p in props:
        pid = p['id']
        m = mods.get(pid)
        if m is None or getattr(m, 'DISABLED', False) or pid not in READY:
            na.append({'property_id': pid,
                       'reason': NOT_CLAIMED.get(pid, 'no sound bounded-exhaustive check has been '
                                                 'built for this property yet; not claimed')})
            continue
        checks.append({
            'property_id': pid,
            'quick_cmd': './check %s --tier quick' % pid,
            'thorough_cmd': './check %s --tier thorough' % pid,
            'evidence_file': 'evidence/%s.json' % pid,
            'replay_cmd_template': './check %s --replay {path}' % pid,
            'engine': getattr(m, 'ENGINE', 'omv'),
            'level_claimed': {
                'category': m.LEVEL,
                'text': m.LEVEL_TEXT,
                'design_ref': getattr(m, 'DESIGN_REF', 'DESIGN.md section 4, %s' % pid),
            },
            'level_note': m.LEVEL_NOTE,
            'technique': m.TECHNIQUE,
        })
    man = {
        'version': 1,
        'setup_cmd': '/venv/bin/python -m compileall -q omv && ./check --selftest',
        'hooks': {
            'guard': 'OPENMDAO_VERIF',
            'enable': 'no source hooks: ./check exports OPENMDAO_VERIF=1 but nothing in /repo reads '
                      'it; every seam is installed from the harness on live objects',
            'baseline_off_cmd': BASELINE_CMD,
            'source_commits': [],
            'add_only': True,
        },
        'engines': [
            {'name': 'omv', 'path': 'omv/core',
             'serves_properties': sorted(x for x in mods if x in READY),
             'kind_free_text': 'hand-written explicit enumeration / explicit-state search engines in '
                               'Python driving the real OpenMDAO code from /repo against small '
                               'reference models (see DESIGN.md section 2)'}],
        'checks': checks,
        'not_applicable': na,
        'notes': 'All checks: ./check <ID> --tier quick|thorough ; replay: ./check <ID> --replay <file>. '
                 'Known findings: known_findings.json. Seeded mutations: seeded/.',
    }
    with open(os.path.join(HOME, 'MANIFEST.json'), 'w') as f:
        json.dump(man, f, indent=1)
    print('MANIFEST.json: %d checks, %d not_applicable' % (len(checks), len(na)))


if __name__ == '__main__':
    main()
