"""Generators of IR model specs (see ir.py) from a handful of discrete configuration dimensions."""
import copy

import numpy as np

from omv.core import ir

TOPO = {
    'chain': [('c1', ['p']), ('c2', ['c1']), ('c3', ['c2'])],
    'fanout': [('c1', ['p']), ('c2', ['c1']), ('c3', ['c1'])],
    'fanin': [('c1', ['p']), ('c2', ['q']), ('c3', ['c1', 'c2'])],
    'cycle2': [('c1', ['p', 'c2']), ('c2', ['c1'])],
    'cycle_tail': [('c1', ['p', 'c2']), ('c2', ['c1']), ('c3', ['c2'])],
    'irrel': [('c1', ['p']), ('c2', ['c1']), ('c4', ['p'])],
    'single': [('c1', ['p'])],
    'two': [('c1', ['p']), ('c2', ['c1'])],
}

HIER = {
    'flat': {},
    'nest1': {'c2': 'G', 'c3': 'G', 'c4': 'G'},
    'nest2': {'c2': 'G', 'c3': 'G.H', 'c4': 'G.H'},
    'allG': {'c1': 'G', 'c2': 'G', 'c3': 'G', 'c4': 'G'},
    'cycG': {'c1': 'G', 'c2': 'G'},
}

SIZES = {'p': 3, 'q': 2, 'c1': 3, 'c2': 2, 'c3': 3, 'c4': 2}


def _lca(a, b):
    pa, pb = a.split('.')[:-1], b.split('.')[:-1]
    out = []
    for x, y in zip(pa, pb):
        if x != y:
            break
        out.append(x)
    return '.'.join(out)


def make(topology='chain', hier='flat', kinds=None, partials='dense', palette=0,
         nl='RunOnce', ln='RunOnce', jac=None, units=None, first=None, sizes=None,
         responses=None, dvs=None, p_shape=None, sparse=False, order=None, scaling=None,
         self_solve=True, out_units=None, newton_ln=None, conn_idx=None, out_shapes=None):
    """Build a spec.

    kinds    : {comp: 'lin'|'quad'|'imp'|'impquad'} (default lin)
    partials : format name or {comp: format}
    units    : {'p': 'm', 'c1.x0': 'cm', 'c1.y': ..., ...} units per variable (inputs and outputs)
    first    : dict(how='connect'|'promote', chain=[(idx, flat), ...], auto=bool, pname=str)
               wiring of the first connection p -> c1.x0 (x0 size follows the index result)
    scaling  : {'c1.y': dict(ref=, ref0=, res_ref=)}  solver scaling per output ('ivc.p' allowed)
    """
    topo = TOPO[topology] if isinstance(topology, str) else [(c, list(srcs)) for c, srcs in topology]
    kinds = kinds or {}
    units = units or {}
    sz = dict(SIZES)
    sz.update(sizes or {})
    hmap = HIER[hier] if isinstance(hier, str) else hier
    names = [c for c, _ in topo]
    path = {c: (hmap[c] + '.' + c if c in hmap else c) for c in names}
    first = dict(first or {})
    p_shape = tuple(p_shape) if p_shape is not None else (sz['p'],)
    spec = {'ivcs': [], 'autos': [], 'comps': [], 'conns': [], 'groups': {}, 'dvs': [],
            'responses': []}
    used_src = set(s for _, srcs in topo for s in srcs)
    pos_of = {c: i for i, c in enumerate(names)}
    auto_first = bool(first.get('auto'))
    srcshape = {'p': p_shape, 'q': (sz['q'],)}
    for k, s in enumerate(('p', 'q')):
        if s in used_src:
            val = ir.gen_vec(ir.size_of(srcshape[s]), 3 + k, palette)
            if s == 'p' and units.get('p') and units.get('c1.x0'):
                fac, offs = ir.unit_map(units['p'], units['c1.x0'])
                val = val / fac - offs      # keeps the converted values moderate
            ent = {'name': s, 'shape': list(srcshape[s]), 'units': units.get(s),
                   'val': val.tolist()}
            if scaling and ('ivc.' + s) in scaling:
                ent.update(scaling['ivc.' + s])
            if s == 'p' and auto_first:
                ent['name'] = first.get('pname', 'p')
                spec['autos'].append(ent)
            else:
                spec['ivcs'].append(ent)
    fb_edges = []
    for ci, (c, srcs) in enumerate(topo):
        kind = kinds.get(c, 'lin')
        comp = {'name': c, 'path': path[c], 'kind': 'imp' if kind.startswith('imp') else 'lin',
                'inputs': [], 'outputs': [], 'A': {}, 'Q': {}, 'c': {}, 'M': {}, 'g': {},
                'partials': partials.get(c, 'dense') if isinstance(partials, dict) else partials,
                'self_solve': self_solve}
        oshape = tuple((out_shapes or {}).get(c, (sz[c],)))
        m = ir.size_of(oshape)
        yunits = units.get(c + '.y')
        out = {'name': 'y', 'shape': list(oshape), 'units': yunits}
        if scaling and (c + '.y') in scaling:
            out.update(scaling[c + '.y'])
        comp['outputs'].append(out)
        comp['c']['y'] = ir.gen_vec(m, 11 + ci, palette, scale=0.5).tolist()
        if comp['kind'] == 'imp':
            comp['M']['y'] = ir.diag_dominant(m, 5 + ci, palette)
            comp['g']['y'] = (np.abs(ir.gen_vec(m, 7 + ci, palette, scale=0.0625)) + 0.03125
                              if kind == 'impquad' else np.zeros(m))
        for k, s in enumerate(srcs):
            iname = 'x%d' % k
            chain = []
            levels = []
            how = 'connect'
            if s in ('p', 'q'):
                sshape = srcshape[s]
                srcname = 'ivc.' + s
                if s == 'p' and k == 0 and c == 'c1' and first:
                    levels = [None if x is None else tuple(x) for x in first.get('chain', [])]
                    chain = [x for x in levels if x is not None]
                    how = first.get('how', 'connect')
                    if auto_first:
                        srcname = 'auto:' + first.get('pname', 'p')
                elif s == 'p' and first and first.get('how') == 'promote':
                    # other consumers of a promoted/auto source are promoted to the same name; if
                    # they live in the same top-level group as c1 they share its root-level index
                    how = 'promote'
                    flv = [None if x is None else tuple(x) for x in first.get('chain', [])]
                    p1 = path['c1'].split('.')
                    pc = path[c].split('.')
                    if len(p1) == 3 - 1 and len(flv) == 2 and flv[0] is not None and \
                            pc[0] == p1[0] and len(pc) >= 2:
                        levels = [flv[0]] + [None] * (len(pc) - 2)
                        chain = [flv[0]]
                    if auto_first:
                        srcname = 'auto:' + first.get('pname', 'p')
            else:
                sshape = tuple((out_shapes or {}).get(s, (sz[s],)))
                srcname = path[s] + '.y'
                ci_spec = (conn_idx or {}).get('%s.%s' % (c, iname))
                if ci_spec:
                    levels = [tuple(x) for x in ci_spec['chain']]
                    chain = list(levels)
            pos, rshape = ir.apply_chain(sshape, chain)
            n = len(pos)
            if chain:
                ishape = list(rshape) if first.get('keep_shape', True) else [n]
            else:
                ishape = list(sshape)
            if not ishape and chain:
                ishape = [1]
            feedback = s in pos_of and pos_of[s] >= ci
            scale = 0.03125 if feedback else 0.25
            pat = None
            if sparse:
                pat = (np.add.outer(np.arange(m), np.arange(n)) % 2 == 0) | np.eye(m, n, dtype=bool)
            if comp['partials'] == 'diag' and m == n:
                pat = np.eye(m, dtype=bool)
            comp['inputs'].append({'name': iname, 'shape': ishape,
                                   'units': units.get('%s.%s' % (c, iname))})
            comp['A']['y|' + iname] = ir.gen_matrix(m, n, 2 + ci * 3 + k, palette, scale, pat)
            if kind in ('quad',):
                comp['Q']['y|' + iname] = ir.gen_matrix(m, n, 9 + ci * 2 + k, palette,
                                                        0.125 * scale, pat)
            cn = {'src': srcname, 'tgt': path[c] + '.' + iname, 'chain': [list(x) for x in chain],
                  'levels': [None if x is None else list(x) for x in levels], 'how': how}
            if how == 'promote':
                cn['pname'] = first.get('pname', 'p')
                if first.get('src_shape_at') is not None:
                    cn['src_shape_at'] = first['src_shape_at']
                    cn['src_shape'] = list(p_shape)
            spec['conns'].append(cn)
            if feedback:
                fb_edges.append((path[s] + '.y', path[c] + '.' + iname))
        spec['comps'].append(comp)
    if auto_first and spec['autos']:
        spec['autos'][0]['src_shape'] = list(p_shape)
    # solvers: at the LCA group of the cycle (or the root for acyclic models)
    gpath = ''
    if fb_edges:
        gpath = _lca(*fb_edges[0])
    g = {}
    if nl and nl != 'RunOnce':
        g['nl'] = nl
        if newton_ln:
            g['newton_ln'] = newton_ln
    if ln and ln != 'RunOnce':
        g['ln'] = ln
    if jac:
        g['jac'] = jac
    if g:
        spec['groups'][gpath] = g
    spec['solver_group'] = gpath
    spec['cyclic'] = bool(fb_edges)
    # driver view
    if dvs is None:
        dvs = [{'name': 'p'}] + ([{'name': 'q'}] if 'q' in used_src else [])
    for dv in dvs:
        d = dict(dv)
        nm = d['name']
        if nm in ('p', 'q'):
            if nm == 'p' and auto_first:
                d['name'] = first.get('pname', 'p')
                d['_ref'] = 'auto:' + d['name']
            elif nm == 'p' and first.get('how') == 'promote':
                d['name'] = first.get('pname', 'p')
                d['_ref'] = 'ivc.p'
            else:
                d['name'] = 'ivc.' + nm
                d['_ref'] = 'ivc.' + nm
        spec['dvs'].append(d)
    if responses is None:
        last = names[-1] if topology != 'irrel' else 'c2'
        responses = [{'name': last + '.y', 'type': 'obj' if sz[last] == 1 else 'con'}]
        if len(names) > 1 and topology != 'irrel':
            responses.append({'name': names[0] + '.y', 'type': 'con'})
    for r in responses:
        d = dict(r)
        c, _, v = d['name'].partition('.')
        if c in path:
            d['name'] = path[c] + '.' + v
        d['_ref'] = d['name']
        spec['responses'].append(d)
    if order is not None:
        spec['order'] = list(order)
    return spec


def strip_private(spec):
    """spec copy without the '_ref' bookkeeping keys (what ir.build passes to add_design_var etc.)"""
    s = copy.deepcopy(spec)
    for lst in (s['dvs'], s['responses']):
        for d in lst:
            d.pop('_ref', None)
    return s


# ------------------------------------------------------------------------------------------------
# configuration dimensions shared by the model-level properties (C01, C02, C04, C08, C24 ...)

KIND_PROFILES = {
    'lin': {},
    'mix1': {'c1': 'quad', 'c2': 'imp', 'c3': 'quad', 'c4': 'quad'},
    'mix2': {'c1': 'impquad', 'c2': 'quad', 'c3': 'imp', 'c4': 'lin'},
    'allquad': {'c1': 'quad', 'c2': 'quad', 'c3': 'quad', 'c4': 'quad'},
    'allimp': {'c1': 'impquad', 'c2': 'impquad', 'c3': 'impquad', 'c4': 'imp'},
}

# wiring of p -> c1.x0: (p_shape, how, chain (root first), auto)
WIRINGS = {
    'plain': dict(p_shape=(3,), first=None),
    'scalar0d': dict(p_shape=(), first=None),
    'conn_list': dict(p_shape=(4,), first=dict(how='connect', chain=[([3, 0, 1], False)])),
    'conn_neg': dict(p_shape=(4,), first=dict(how='connect', chain=[([-1, 0, -3], False)])),
    'conn_dup': dict(p_shape=(4,), first=dict(how='connect', chain=[([0, 0, 2], False)])),
    'conn_dup_far': dict(p_shape=(4,), first=dict(how='connect', chain=[([2, 0, 2], False)])),
    'conn_slice': dict(p_shape=(4,), first=dict(how='connect', chain=[(slice(1, 4), False)])),
    'conn_negstep': dict(p_shape=(4,),
                         first=dict(how='connect', chain=[(slice(None, None, -1), False)])),
    'conn_negstep2': dict(p_shape=(4,),
                          first=dict(how='connect', chain=[(slice(None, 0, -1), False)])),
    'conn_2d_tuple': dict(p_shape=(2, 3),
                          first=dict(how='connect', chain=[(([0, 1, 1], [2, 0, 1]), False)])),
    'conn_2d_row': dict(p_shape=(2, 3), first=dict(how='connect', chain=[(1, False)])),
    'conn_2d_rows': dict(p_shape=(3, 2), first=dict(how='connect', chain=[([2, 0], False)])),
    'conn_2d_flat': dict(p_shape=(2, 3), first=dict(how='connect', chain=[([5, 0, 2], True)])),
    'conn_2d_col': dict(p_shape=(2, 3),
                        first=dict(how='connect', chain=[((slice(None), 1), False)])),
    'conn_2d_ell': dict(p_shape=(2, 3), first=dict(how='connect', chain=[((Ellipsis, 0), False)])),
    'conn_2d_negslice': dict(p_shape=(3, 2), first=dict(
        how='connect', chain=[((slice(None, None, -1), slice(0, 1)), False)])),
    'prom1': dict(p_shape=(4,), first=dict(how='promote', chain1=[([2, 0, 3], False)],
                                           chain2=[None, ([2, 0, 3], False)])),
    'prom2': dict(p_shape=(5,), first=dict(how='promote', chain1=[([3, 1, 4], False)],
                                           chain2=[(slice(1, 5), False), ([2, 0, 3], False)])),
    'prom2_2d': dict(p_shape=(2, 3), first=dict(how='promote', chain1=[((1, slice(None)), False)],
                                                chain2=[((1, slice(None)), False),
                                                        (slice(None, None, -1), False)])),
    'auto': dict(p_shape=(3,), first=dict(how='promote', auto=True, chain1=[], chain2=[])),
    'auto_idx': dict(p_shape=(4,), first=dict(how='promote', auto=True, src_shape_at=0,
                                              chain1=[([3, 1, 0], False)],
                                              chain2=[([3, 1, 0], False)])),
}

UNIT_PAIRS = {
    'none': (None, None),
    'm_cm': ('m', 'cm'),
    'km_m': ('km', 'm'),
    'degC_degF': ('degC', 'degF'),
    'degF_degK': ('degF', 'degK'),
}


def spec_from_config(cfg):
    """Translate a configuration dict (see the dims in props/c01) into a spec; returns (spec, why)
    where spec is None if the configuration is structurally inadmissible (why says so)."""
    topo = cfg.get('topo', 'chain')
    hier = cfg.get('hier', 'flat')
    cyc = topo.startswith('cycle')
    names = [c for c, _ in TOPO[topo]]
    if hier == 'cycG' and not cyc:
        return None, 'cycG needs a cycle'
    if cyc and hier in ('nest1', 'nest2'):
        return None, 'cycle split across groups not generated'
    w = WIRINGS[cfg.get('wiring', 'plain')]
    first = copy.deepcopy(w['first'])
    hmap = HIER[hier]
    c1depth = len((hmap['c1'] + '.c1').split('.')) if 'c1' in hmap else 1
    if first and first.get('how') == 'promote':
        if c1depth == 1:
            first['chain'] = first.pop('chain1')
            first.pop('chain2', None)
        elif c1depth == 2:
            first['chain'] = first.pop('chain2')
            first.pop('chain1', None)
            if first.get('src_shape_at') is not None and first['chain'] and \
                    first['chain'][0] is None:
                first['src_shape_at'] = 1
        else:
            return None, 'promotion depth > 2 not generated'
    if topo == 'irrel' and first and first.get('auto') and c1depth == 2 and first.get('chain'):
        return None, 'shared auto-IVC input with src_indices below a group not generated'
    nl = cfg.get('nl', 'default')
    ln = cfg.get('ln', 'default')
    if nl == 'default':
        nl = 'NLBGS' if cyc else 'RunOnce'
    if ln == 'default':
        ln = 'Direct' if cyc else 'RunOnce'
    if cyc and (nl == 'RunOnce' or ln == 'RunOnce'):
        return None, 'cycle needs iterative solvers'
    jac = cfg.get('jac')
    partials = cfg.get('partials', 'dense')
    if jac and ln not in ('Direct', 'Krylov'):
        return None, 'assembled jac only generated with DirectSolver/ScipyKrylov'
    if jac == 'csr' and ln == 'Direct':
        return None, 'DirectSolver does not support csr (documented)'
    if jac and partials == 'matfree':
        return None, 'assembled jac incompatible with matrix-free components'
    if nl == 'Broyden' and ln != 'Direct':
        return None, 'Broyden on the full group requires DirectSolver (documented)'
    if partials == 'rowcol_dup':
        return None, 'duplicate rows/cols are rejected by declare_partials (documented)'
    kinds = KIND_PROFILES[cfg.get('kinds', 'lin')]
    up = UNIT_PAIRS[cfg.get('units', 'none')]
    units = {}
    if up[0]:
        units['p'] = up[0]
        units['c1.x0'] = up[1]
    sc = cfg.get('scaling', 'none')
    dv = {'name': 'p'}
    last = names[-1] if topo != 'irrel' else 'c2'
    resp = [{'name': last + '.y', 'type': 'con'}]
    if len(names) > 1 and topo != 'irrel':
        resp.append({'name': names[0] + '.y', 'type': 'con'})
    psize = ir.size_of(w['p_shape'])
    dvi = cfg.get('dv', 'full')
    if dvi in ('idx_list', 'idx_neg', 'idx_slice') and len(w['p_shape']) != 1:
        return None, '1-D dv index forms generated for 1-D sources only'
    if dvi == 'idx_rows2d':
        if len(w['p_shape']) != 2:
            return None, 'idx_rows2d needs a 2-D source'
        dv['indices'] = [1, 0]
    elif dvi == 'idx_list':
        dv['indices'] = [2, 0]
    elif dvi == 'idx_neg':
        dv['indices'] = [-1, 1]
    elif dvi == 'idx_slice':
        dv['indices'] = slice(0, 2)
    elif dvi == 'idx_2d':
        if len(w['p_shape']) != 2:
            return None, 'idx_2d needs a 2-D source'
        dv['indices'] = ([1, 0], [0, 2]) if w['p_shape'][1] > 2 else ([1, 0], [0, 1])
    elif dvi == 'idx_flat2d':
        if len(w['p_shape']) != 2:
            return None, 'idx_flat2d needs a 2-D source'
        dv['indices'] = [4, 1]
        dv['flat_indices'] = True
    ri = cfg.get('resp', 'full')
    if ri == 'idx_list':
        resp[0]['indices'] = [1, 0]
    elif ri == 'idx_neg':
        resp[0]['indices'] = [-1]
    elif ri == 'idx_slice':
        resp[0]['indices'] = slice(1, 2)
    if sc == 'ref':
        dv['ref'] = 2.0
        resp[0]['ref'] = 4.0
    elif sc == 'ref_ref0':
        dv['ref'] = 3.0
        dv['ref0'] = -1.5
        resp[0]['ref'] = 0.5
        resp[0]['ref0'] = 0.25
    elif sc == 'ref_lt_ref0':
        dv['ref'] = -1.0
        dv['ref0'] = 1.0
        resp[0]['ref'] = 0.25
        resp[0]['ref0'] = 0.5
    elif sc == 'neg_scaler':
        dv['scaler'] = -4.0
        dv['adder'] = 0.5
        resp[0]['scaler'] = -0.5
    elif sc == 'arr_scaler':
        dv['scaler'] = '__arr__'
        resp[0]['scaler'] = '__arr__'
        resp[0]['adder'] = '__arr__'
    elif sc == 'units':
        if up[0] not in (None, 'm'):
            return None, 'dv units generated for m only'
        units['p'] = 'm'
        if not up[0]:
            units['c1.x0'] = 'm'
        dv['units'] = 'cm'
        units[last + '.y'] = 'km'
        resp[0]['units'] = 'm'
        resp[0]['scaler'] = 2.0
    spec = make(topology=topo, hier=hier, kinds=kinds, partials=partials,
                palette=cfg.get('palette', 0), nl=nl, ln=ln, jac=jac, units=units, first=first,
                p_shape=w['p_shape'], sparse=cfg.get('sparse', False), dvs=[dv], responses=resp,
                scaling=cfg.get('solver_scaling'), self_solve=cfg.get('self_solve', True))
    rck = cfg.get('rhsck')
    if rck:
        # linear-solver right-hand-side caching: the owning solver must support it, and some of the
        # right-hand sides it sees must be parallel / anti-parallel with different magnitudes
        if ln not in ('Direct', 'Krylov'):
            return None, 'rhs_checking only exists on DirectSolver/ScipyKrylov'
        opts = True if rck == 'on' else {'check_zero': True, 'max_cache_entries': 2}
        spec['groups'].setdefault(spec['solver_group'], {}).setdefault('ln_opts', {})[
            'rhs_checking'] = opts
        spec['groups'][spec['solver_group']]['ln'] = ln
        for comp in spec['comps']:
            if comp['name'] == 'c1':
                for key in ('A', 'Q'):
                    if 'y|x0' in comp[key]:
                        A = np.array(comp[key]['y|x0'])
                        mask = np.zeros(A.shape, dtype=bool)
                        A = np.where(A == 0, 0.25, A)
                        for j in range(A.shape[1]):
                            mask[j % min(2, A.shape[0]), j] = True
                            A[:, j] = np.abs(A[:, j]) * (-1.0 if (j // 2) % 2 else 1.0)
                        comp[key]['y|x0'] = A * mask
            if comp['name'] == 'c3':
                for key in ('A', 'Q'):
                    if 'y|x0' in comp[key]:
                        A = np.array(comp[key]['y|x0'])
                        mask = np.zeros(A.shape, dtype=bool)
                        A = np.where(A == 0, 0.25, A)
                        for i in range(A.shape[0]):
                            mask[i, i % min(2, A.shape[1])] = True
                            A[i, :] = np.abs(A[i, :]) * (-1.0 if (i // 2) % 2 else 1.0)
                        comp[key]['y|x0'] = A * mask
    if partials in ('cs',):
        spec['force_alloc_complex'] = True
    if partials == 'matfree' and ln == 'Direct':
        # DirectSolver assembles by default, which matrix-free components do not support
        spec['groups'][spec['solver_group']]['no_assemble'] = True
    # array-valued scalers sized after the selected entries
    tab = ir.var_table(spec)
    for d in spec['dvs'] + spec['responses']:
        shape = tab[d['_ref']]['shape']
        n = ir.size_of(shape)
        if d.get('indices') is not None:
            pos, _ = ir.apply_chain(shape, [(d['indices'], bool(d.get('flat_indices')) or
                                             len(shape) == 1)])
            n = len(pos)
        for k in ('scaler', 'adder'):
            if d.get(k) == '__arr__':
                base = [2.0, -0.5, 4.0, 0.25, -8.0, 1.5] if k == 'scaler' else \
                    [0.5, -1.0, 0.25, 2.0, -0.125, 1.0]
                d[k] = base[:n]
    return spec, ''
