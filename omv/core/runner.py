"""Check runner: enumerates a property module's case space over a worker pool, aggregates
coverage counters, handles known findings, writes evidence and replay files.

Property module protocol (omv/props/cNN_*.py):

    ID, LEVEL ('exploration'|'model_checking'|'fault_enumeration'), RULE (str), ASSUMPTIONS (list)
    TECHNIQUE (str), MIN_NONTRIVIAL {'quick': n, 'thorough': n}
    cases(tier, seed)   -> iterable of picklable, codec-encodable case objects (complete enumeration
                           of the stated bounded space; order = simplest first)
    check_case(case)    -> dict(evals=int, nontrivial=int, outcome=str|dict, violations=[...],
                                counters={...})
                           violation = dict(sig=str, msg=str, case=<replayable case>, ...)
    optional: CAP_S {'quick': s, 'thorough': s}, CHUNK (cases per task), init_worker(),
              finalize(agg, tier, seed) -> extra coverage dict
"""
import argparse
import collections
import fnmatch
import hashlib
import importlib
import json
import multiprocessing as mp
import os
import random
import sys
import time
import traceback

from omv.core import codec

HOME = os.environ.get('OMV_HOME', os.path.dirname(os.path.dirname(os.path.dirname(
    os.path.abspath(__file__)))))


def find_module(pid):
    pdir = os.path.join(HOME, 'omv', 'props')
    for fn in sorted(os.listdir(pdir)):
        if fn.lower().startswith(pid.lower() + '_') and fn.endswith('.py'):
            return 'omv.props.' + fn[:-3]
    raise SystemExit('no property module for %s' % pid)


_MOD = None


def _init(modname):
    global _MOD
    os.chdir(os.environ.get('OMV_SCRATCH', os.getcwd()))
    import warnings
    warnings.filterwarnings('ignore')
    _MOD = importlib.import_module(modname)
    if hasattr(_MOD, 'init_worker'):
        _MOD.init_worker()


def _norm_result(res):
    res.setdefault('evals', 1)
    res.setdefault('nontrivial', 0)
    res.setdefault('violations', [])
    res.setdefault('counters', {})
    res.setdefault('outcome', 'ok')
    return res


def safe_check(mod, case):
    try:
        return _norm_result(mod.check_case(case))
    except Exception as exc:   # harness must classify implementation exceptions itself
        tb = traceback.format_exc()
        loc = traceback.extract_tb(exc.__traceback__)[-1]
        sig = 'uncaught:%s@%s:%s' % (type(exc).__name__, os.path.basename(loc.filename), loc.name)
        return _norm_result({'evals': 1, 'outcome': 'uncaught',
                             'violations': [{'sig': sig, 'msg': tb[-1500:], 'case': case}]})


def _run_chunk(chunk):
    idx, cases = chunk
    agg = {'evals': 0, 'nontrivial': 0, 'violations': [], 'counters': collections.Counter(),
           'outcomes': collections.Counter(), 'samples': [], 'ncases': 0, 'idx': idx}
    for case in cases:
        res = safe_check(_MOD, case)
        agg['ncases'] += 1
        agg['evals'] += int(res['evals'])
        agg['nontrivial'] += int(res['nontrivial'])
        oc = res['outcome']
        if isinstance(oc, dict):
            agg['outcomes'].update(oc)
        else:
            agg['outcomes'][oc] += 1
        agg['counters'].update(res['counters'])
        if len(agg['samples']) < 3:
            smp = res.get('sample', case)
            agg['samples'].append(codec.short(smp, 400))
        for v in res['violations']:
            if len(agg['violations']) < 200:
                v.setdefault('case', case)
                # replay determinism: the same case must fail the same way twice more
                sigs = []
                for _ in range(2):
                    r2 = safe_check(_MOD, v['case'])
                    sigs.append(sorted(x['sig'] for x in r2['violations']))
                v['replay_sigs_stable'] = (sigs[0] == sigs[1]) and (v['sig'] in sigs[0])
                agg['violations'].append(v)
            else:
                agg['counters']['violations_dropped'] += 1
    return agg


def load_known():
    path = os.path.join(HOME, 'known_findings.json')
    if not os.path.exists(path):
        return []
    with open(path) as f:
        return json.load(f).get('findings', [])


def write_replay(pid, v):
    rdir = os.path.join(HOME, 'replays')
    os.makedirs(rdir, exist_ok=True)
    body = {'property': pid, 'sig': v['sig'], 'msg': v.get('msg', ''),
            'case': codec.enc(v['case'])}
    for k in ('observed', 'expected'):
        if k in v:
            body[k] = codec.enc(v[k])
    h = hashlib.sha1(json.dumps(body['case'], sort_keys=True).encode() +
                     v['sig'].encode()).hexdigest()[:12]
    path = os.path.join(rdir, '%s-%s.json' % (pid, h))
    with open(path, 'w') as f:
        json.dump(body, f, indent=1)
    return path


def main(argv=None):
    ap = argparse.ArgumentParser()
    ap.add_argument('pid')
    ap.add_argument('--tier', default=os.environ.get('VERIF_TIER') or 'quick',
                    choices=['quick', 'thorough'])
    ap.add_argument('--replay')
    ap.add_argument('--jobs', type=int, default=int(os.environ.get('OMV_JOBS', '0')) or
                    min(16, os.cpu_count() or 4))
    ap.add_argument('--no-evidence', action='store_true')
    ap.add_argument('--limit', type=int, default=0, help='debug: only the first N cases')
    args = ap.parse_args(argv)
    pid = args.pid.upper()
    modname = find_module(pid)
    t0 = time.time()

    if args.replay:
        _init(modname)
        with open(args.replay) as f:
            body = json.load(f)
        case = codec.dec(body['case'])
        res = safe_check(_MOD, case)
        if res['violations']:
            for v in res['violations']:
                print('replayed: %s: %s' % (v['sig'], v.get('msg', '')[:600]))
            print('VIOLATION property=%s replay=%s' % (pid, args.replay))
            return 1
        print('replay of %s: no violation' % args.replay)
        return 0

    try:
        seed = int(os.environ.get('VERIF_SEED', '0') or 0)
    except ValueError:
        seed = 0
    mod = importlib.import_module(modname)
    tier = args.tier
    cases = list(mod.cases(tier, seed))
    if args.limit:
        cases = cases[:args.limit]
    ncases = len(cases)
    order = list(range(ncases))
    if seed:
        random.Random(seed).shuffle(order)   # the seed permutes the order only: same space
    cap = getattr(mod, 'CAP_S', {}).get(tier)
    chunk = getattr(mod, 'CHUNK', None)
    jobs = max(1, args.jobs)
    if not chunk:
        chunk = max(1, min(64, ncases // (jobs * 8) or 1))
    chunks = [(i, [cases[j] for j in order[i:i + chunk]]) for i in range(0, ncases, chunk)]

    tot = {'evals': 0, 'nontrivial': 0, 'violations': [], 'counters': collections.Counter(),
           'outcomes': collections.Counter(), 'samples': [], 'ncases': 0}
    capped = False
    ctx = mp.get_context('spawn')
    if jobs == 1 or ncases <= 1:
        _init(modname)
        it = map(_run_chunk, chunks)
        pool = None
    else:
        pool = ctx.Pool(min(jobs, len(chunks)), initializer=_init, initargs=(modname,))
        it = pool.imap_unordered(_run_chunk, chunks)
    try:
        for agg in it:
            tot['evals'] += agg['evals']
            tot['nontrivial'] += agg['nontrivial']
            tot['ncases'] += agg['ncases']
            tot['counters'].update(agg['counters'])
            tot['outcomes'].update(agg['outcomes'])
            if agg['idx'] == 0 or len(tot['samples']) < 4:
                tot['samples'].extend(agg['samples'][:2])
            tot['violations'].extend(agg['violations'])
            if cap and time.time() - t0 > cap:
                capped = True
                break
    finally:
        if pool is not None:
            pool.terminate()
            pool.join()

    extra = {}
    if hasattr(mod, 'finalize'):
        extra = mod.finalize(tot, tier, seed) or {}

    # ---- triage against the committed known-findings list
    known = [k for k in load_known() if k.get('property') == pid]
    new, seen_known = [], collections.OrderedDict()
    unstable = []
    for v in tot['violations']:
        if v.get('replay_sigs_stable') is False:
            unstable.append(v)
            continue
        for k in known:
            if fnmatch.fnmatchcase(v['sig'], k['match']):
                seen_known.setdefault(k['match'], [k, 0])
                seen_known[k['match']][1] += 1
                break
        else:
            new.append(v)
    for k, n in seen_known.values():
        print('KNOWN-FINDING: property=%s %s [%d cases match %s]' % (pid, k['what'], n, k['match']))

    wall = time.time() - t0
    exhaustive = (not capped) and tot['ncases'] == ncases and not args.limit
    level = mod.LEVEL
    cov = {
        'evaluations': tot['evals'],
        'distinct_nontrivial': tot['nontrivial'],
        'rule': mod.RULE,
        'samples': tot['samples'][:5],
        'exhaustive': bool(exhaustive),
        'enumerated_cases': ncases,
        'cases_run': tot['ncases'],
        'outcomes': dict(sorted(tot['outcomes'].items(), key=lambda kv: -kv[1])[:40]),
        'distinct_outcomes': len(tot['outcomes']),
        'known_findings_reproduced': {k: n for k, (kk, n) in seen_known.items()},
    }
    if capped:
        cov['cap_hit'] = 'time cap %ss: %d of %d cases run' % (cap, tot['ncases'], ncases)
    cnt = dict(tot['counters'])
    if level == 'model_checking':
        cov['states'] = int(cnt.pop('states', 0))
        cov['transitions'] = int(cnt.pop('transitions', 0))
        cov['traces_validated_against_impl'] = int(cnt.pop('traces', 0))
    cov.update({k: int(v) for k, v in cnt.items()})
    cov.update(extra)
    ev = {
        'property_id': pid, 'tier': tier, 'seed': seed, 'level': level, 'coverage': cov,
        'assumptions': list(getattr(mod, 'ASSUMPTIONS', [])),
        'wall_s': round(wall, 2), 'violations': len(new),
    }
    if not args.no_evidence and not args.limit:
        edir = os.path.join(HOME, 'evidence')
        os.makedirs(edir, exist_ok=True)
        tmp = os.path.join(edir, '.%s.json.tmp' % pid)
        with open(tmp, 'w') as f:
            json.dump(ev, f, indent=1)
        os.replace(tmp, os.path.join(edir, '%s.json' % pid))

    print('%s tier=%s seed=%d cases=%d/%d evals=%d nontrivial=%d outcomes=%d wall=%.1fs%s' % (
        pid, tier, seed, tot['ncases'], ncases, tot['evals'], tot['nontrivial'],
        len(tot['outcomes']), wall, ' CAPPED' if capped else ''))
    extras = {k: v for k, v in cov.items() if k in ('states', 'transitions',
                                                    'traces_validated_against_impl')}
    if extras:
        print('  ' + ' '.join('%s=%s' % kv for kv in extras.items()))
    top = sorted(tot['outcomes'].items(), key=lambda kv: -kv[1])[:12]
    print('  outcomes: ' + ', '.join('%s=%d' % kv for kv in top))

    if unstable:
        for v in unstable[:5]:
            print('UNSTABLE (uncontrolled nondeterminism, not reported as violation): %s :: %s' % (
                v['sig'], v.get('msg', '')[:300]))
        print('ERROR property=%s: %d failures did not replay deterministically' % (
            pid, len(unstable)))
        return 2
    if new:
        bysig = collections.OrderedDict()
        for v in new:
            bysig.setdefault(v['sig'], []).append(v)
        print('%d violating cases, %d distinct signatures' % (len(new), len(bysig)))
        for sig, vs in list(bysig.items())[:80]:
            path = write_replay(pid, vs[0])
            print('  [%d] %s :: %s' % (len(vs), sig, (vs[0].get('msg', '') or '')[:400].replace(
                '\n', ' | ')))
            print('VIOLATION property=%s replay=%s' % (pid, path))
        return 1
    floor = getattr(mod, 'MIN_NONTRIVIAL', {}).get(tier, 2)
    if tot['nontrivial'] < floor and not args.limit and not capped:
        print('ERROR property=%s: vacuous run (nontrivial=%d < floor %d)' % (
            pid, tot['nontrivial'], floor))
        return 2
    return 0


if __name__ == '__main__':
    sys.exit(main())
