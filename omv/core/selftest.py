"""Import every property module and validate MANIFEST.json (used as MANIFEST.setup_cmd)."""
import importlib
import json
import os
import sys

HOME = os.path.dirname(os.path.dirname(os.path.dirname(os.path.abspath(__file__))))


def main():
    pdir = os.path.join(HOME, 'omv', 'props')
    n = 0
    for fn in sorted(os.listdir(pdir)):
        if fn.startswith('c') and fn.endswith('.py') and fn[1:3].isdigit():
            m = importlib.import_module('omv.props.' + fn[:-3])
            for attr in ('ID', 'LEVEL', 'RULE', 'TECHNIQUE', 'cases', 'check_case'):
                assert hasattr(m, attr), (fn, attr)
            n += 1
    man = json.load(open(os.path.join(HOME, 'MANIFEST.json')))
    assert man['version'] == 1
    import openmdao
    print('selftest ok: %d property modules, openmdao from %s' % (n, os.path.dirname(openmdao.__file__)))
    return 0


if __name__ == '__main__':
    sys.exit(main())
