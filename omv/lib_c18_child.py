"""Helper process of the C18 crash-point check (omv/props/c18_crash.py).

Started once per runner worker as `python -m omv.lib_c18_child` (a JSON-lines server on
stdin/stdout).  It imports OpenMDAO once, warms every recording history up, and then serves requests
by *forking*: a forked process records the history and dies at the requested crash point; whatever
is left on disk (database + journal) is then opened with om.CaseReader by this helper process, which
never has the database of a run open itself (it only forks the recorders; with C18_READ_FORK=1 the
read-back is done by a second forked process instead) and dumped as JSON.  The helper is single
threaded, so fork() is safe; it reaps every child it forks; each run gets its own directory
(below /dev/shm when there is one - see _make_base - else below the scratch cwd) which is removed
after the run (C18_KEEP=1 keeps it).

Crash points
  stmt : the name `sqlite3` inside openmdao.recorders.sqlite_recorder is replaced (in the forked
         recording process only) by a proxy whose connect() passes counting Connection/Cursor
         subclasses; every connect/execute/executemany/commit/__enter__/__exit__/close is a boundary;
         the process calls os._exit(137) immediately *before* boundary k (k == N: after the last).
  snap : same seam, but instead of dying at boundary k the (single) recording process copies the
         database files and journals to snap_<k>/ - the bytes a death at that boundary leaves.
  sys  : the forked recording process is traced with
           strace -f -o /dev/null -P <db> -P <db>-journal -e trace=<set>
                  -e inject=<syscall>:signal=SIGKILL:when=<m> -p <pid>
         which kills it on entry to the m-th call of <syscall> touching the database or its journal
         (the call is not executed; strace counts `when` per system call name, hence one name per
         run; the tracee waits on a pipe until /proc/<pid>/status shows the tracer).

Requests (one JSON object per line) -> responses (one JSON object per line)
  {"op":"count","hist":H,"mode":"stmt"}          -> {"n":N,"events":[[kind,what,db,in_txn_after],..]}
  {"op":"count","hist":H,"mode":"sys"}           -> {"n":N,"calls":[name,...]}
  {"op":"run","hist":H,"mode":"none"|"stmt"|"sys","k":k | "sc":name,"m":m}
                                                  -> {"exit":"exit:0"|"exit:137"|"sig:9"|...,
                                                      "dbs":{dbname: dump}}
  {"op":"snap","hist":H,"ks":[k,...]}            -> {"exit":..,"snaps":{k:{"dbs":{dbname: dump}}},
                                                      "end":{"dbs":..}}
"""
import gc
import json
import os
import shutil
import signal
import subprocess
import sys
import time
import traceback

SYSCALLS = ['pwrite64', 'write', 'fdatasync', 'fsync', 'unlink', 'ftruncate']


# ------------------------------------------------------------------ recording histories
#
# Every history is a function of no arguments run with cwd = its own fresh directory; it returns
# nothing.  HIST[name] = (function, [relative paths of the database files it writes]).
# Values are small dyadic numbers; models are deterministic.

def _cycle_model(om, maxiter=3):
    m = om.Group()
    m.add_subsystem('d1', om.ExecComp('y1 = 0.25*y2 + x + 1.5'), promotes=['*'])
    m.add_subsystem('d2', om.ExecComp('y2 = 0.5*y1 - 2.0*z + 0.75'), promotes=['*'])
    m.add_subsystem('obj', om.ExecComp('f = y1*y1 + 3.0*y2'), promotes=['*'])
    m.nonlinear_solver = om.NonlinearBlockGS(maxiter=maxiter, iprint=-1, atol=1e-30, rtol=1e-30,
                                             err_on_non_converge=False)
    m.linear_solver = om.DirectSolver()
    return m


def hist_h1():
    """one recorder on Problem + driver + root system + root NL solver; DOE of 4 + record('final')"""
    import openmdao.api as om
    rec = om.SqliteRecorder(os.path.abspath('h1.sql'), record_viewer_data=False)
    p = om.Problem(model=_cycle_model(om), reports=None)
    m = p.model
    m.add_design_var('x', lower=-1, upper=2)
    m.add_design_var('z', lower=0.5, upper=3)
    m.add_objective('f')
    m.add_constraint('y2', upper=10.)
    p.driver = om.DOEDriver(om.FullFactorialGenerator(levels=2))
    p.add_recorder(rec)
    p.driver.add_recorder(rec)
    m.add_recorder(rec)
    m.nonlinear_solver.add_recorder(rec)
    m.recording_options['record_inputs'] = True
    m.recording_options['record_residuals'] = True
    m.nonlinear_solver.recording_options['record_abs_error'] = True
    m.nonlinear_solver.recording_options['record_solver_residuals'] = True
    p.driver.recording_options['record_inputs'] = True
    p.setup()
    p.run_driver()
    p.record('final')
    p.cleanup()


def hist_h2():
    """two recorders, two files: A (bare file name -> problem outputs dir) on the driver and the
    problem, B (absolute path) on a subgroup and a component"""
    import openmdao.api as om

    class Rec(om.SqliteRecorder):
        # recording_manager.record_model_options() iterates over a *set* of recorder objects, whose
        # order follows their addresses and differs from process to process.  A fixed small hash
        # makes the interleaving of the two recorders' metadata statements the same in every run
        # (owned nondeterminism; equality stays identity, nothing else changes).
        def __init__(self, order, *args, **kwargs):
            self._c18_order = order
            super().__init__(*args, **kwargs)

        def __hash__(self):
            return self._c18_order

    recA = Rec(1, 'drv.sql', record_viewer_data=False)
    recB = Rec(2, os.path.abspath('sys.sql'), record_viewer_data=False)
    p = om.Problem(name='h2', reports=None)
    m = p.model
    g = m.add_subsystem('g', om.Group(), promotes=['*'])
    g.add_subsystem('c1', om.ExecComp('a = 2.0*x + 0.5', x=0.25), promotes=['*'])
    g.add_subsystem('c2', om.ExecComp('b = a*a - 1.5*x', x=0.25), promotes=['*'])
    m.add_subsystem('c3', om.ExecComp('f = b + 0.125*a'), promotes=['*'])
    m.add_design_var('x', lower=-2, upper=2)
    m.add_objective('f')
    p.driver = om.DOEDriver(om.FullFactorialGenerator(levels=3))
    p.driver.add_recorder(recA)
    p.add_recorder(recA)
    g.add_recorder(recB)
    g.c2.add_recorder(recB)
    g.recording_options['record_inputs'] = True
    p.setup()
    p.run_driver()
    p.record('after_doe')
    p.cleanup()


def hist_h3():
    """run_model, record, setup() again (re-startup path of the same recorder), run_model, record"""
    import openmdao.api as om
    rec = om.SqliteRecorder(os.path.abspath('h3.sql'), record_viewer_data=False)
    p = om.Problem(model=_cycle_model(om, maxiter=2), reports=None)
    m = p.model
    m.add_recorder(rec)
    m.nonlinear_solver.add_recorder(rec)
    p.add_recorder(rec)
    p.setup()
    p.set_val('x', 0.5)
    p.set_val('z', 1.25)
    p.run_model(case_prefix='r1')
    p.record('first')
    p.setup()
    p.set_val('x', -0.75)
    p.set_val('z', 2.5)
    p.run_model(case_prefix='r2')
    p.record('second')
    p.run_model(case_prefix='r3')
    p.record('third')
    p.cleanup()


def hist_h4():
    """metadata heavy: record_viewer_data on, nested groups, array variables, options recorded"""
    import numpy as np
    import openmdao.api as om
    rec = om.SqliteRecorder(os.path.abspath('h4.sql'), record_viewer_data=True)
    p = om.Problem(reports=None)
    m = p.model
    n = 12
    A = (np.arange(n * n).reshape(n, n) % 7 - 3.0) * 0.125
    ivc = m.add_subsystem('ivc', om.IndepVarComp(), promotes=['*'])
    ivc.add_output('u', val=np.arange(n) * 0.25 - 1.0, units='m')
    ivc.add_output('s', val=1.5)
    g1 = m.add_subsystem('g1', om.Group(), promotes=['*'])
    g2 = g1.add_subsystem('g2', om.Group(), promotes=['*'])
    g2.add_subsystem('lin', om.ExecComp('v = A.dot(u) + s', A=A, u={'shape': (n,), 'units': 'm'},
                                        v={'shape': (n,)}, s=1.0), promotes=['*'])
    g2.add_subsystem('sq', om.ExecComp('w = v*v - 0.5*u', u={'shape': (n,), 'units': 'cm'},
                                       v={'shape': (n,)}, w={'shape': (n,)}), promotes=['*'])
    g1.add_subsystem('red', om.ExecComp('f = sum(w) + 0.25*s', w={'shape': (n,)}), promotes=['*'])
    m.add_design_var('s', lower=-4, upper=4)
    m.add_design_var('u', lower=-8, upper=8)
    m.add_objective('f')
    m.add_constraint('w', upper=100.)
    p.driver.add_recorder(rec)
    m.add_recorder(rec)
    g2.add_recorder(rec)
    p.add_recorder(rec)
    p.driver.recording_options['includes'] = ['*']
    p.driver.recording_options['record_inputs'] = True
    m.recording_options['record_inputs'] = True
    p.setup()
    p.run_driver(case_prefix='d1')
    p.record('one')
    p.set_val('s', -2.25)
    p.run_driver(case_prefix='d2')
    p.record('two')
    p.cleanup()


def hist_h5():
    """large cases: one 150000-element output (about 3 MB of text per case), so that SQLite has
    to spill pages of the open transaction to the database file before the commit; a process that
    dies inside such a transaction leaves a hot rollback journal the reader has to play back"""
    import numpy as np
    import openmdao.api as om
    rec = om.SqliteRecorder(os.path.abspath('h5.sql'), record_viewer_data=False)
    p = om.Problem(reports=None)
    n = 150000
    p.model.add_subsystem('ivc', om.IndepVarComp('s', 1.5), promotes=['*'])
    p.model.add_subsystem('big', om.ExecComp('v = s * k', k=np.arange(n) * 1.000000001 + 0.123456789,
                                             v={'shape': (n,)}, has_diag_partials=True),
                          promotes=['*'])
    p.model.add_design_var('s', lower=-4, upper=4)
    p.model.add_objective('v', index=0)
    p.driver.add_recorder(rec)
    p.driver.recording_options['includes'] = ['*']
    p.setup()
    p.run_driver(case_prefix='d1')
    p.set_val('s', -2.25)
    p.run_driver(case_prefix='d2')
    p.set_val('s', 0.75)
    p.run_driver(case_prefix='d3')
    p.cleanup()


HIST = {
    'H5': (hist_h5, ['h5.sql']),
    'H1': (hist_h1, ['h1.sql']),
    'H2': (hist_h2, ['h2_out/drv.sql', 'sys.sql']),
    'H3': (hist_h3, ['h3.sql']),
    'H4': (hist_h4, ['h4.sql']),
}


# ------------------------------------------------------------------ statement-level seam

def install_proxy(crash_at, log, snap=None):
    """Replace `sqlite3` in openmdao.recorders.sqlite_recorder by a counting/crashing proxy.
    Returns the boundary function (called once more by the driver at the end of the history).
    snap = callable(k) called at every boundary (snapshot mode)."""
    import sqlite3 as real
    import openmdao.recorders.sqlite_recorder as sr
    state = {'n': 0}

    def boundary(kind, what='', db=''):
        k = state['n']
        if crash_at is not None and k == crash_at:
            os._exit(137)
        if snap is not None:
            snap(k)
        if log is not None:
            log.append([kind, ' '.join(str(what).split())[:48], db, -1])
        state['n'] = k + 1

    def after(con):
        # transaction state once the event just logged has completed (count run only)
        if log is not None:
            try:
                log[-1][3] = int(con.in_transaction)
            except Exception:
                log[-1][3] = 0          # closed connection

    class Cur(real.Cursor):
        def execute(self, sql, *a):
            boundary('execute', sql, self.connection._c18_db)
            try:
                return super().execute(sql, *a)
            finally:
                after(self.connection)

        def executemany(self, sql, *a):
            boundary('executemany', sql, self.connection._c18_db)
            try:
                return super().executemany(sql, *a)
            finally:
                after(self.connection)

        def executescript(self, sql):
            boundary('executescript', sql, self.connection._c18_db)
            try:
                return super().executescript(sql)
            finally:
                after(self.connection)

    class Conn(real.Connection):
        _c18_db = ''

        def cursor(self, factory=Cur):
            return super().cursor(factory)

        # Connection.execute* are "create a cursor and call its method" (the C implementation does
        # the same through self.cursor()), so the boundary is counted once, in the cursor.
        def execute(self, sql, *a):
            cur = self.cursor()
            cur.execute(sql, *a)
            return cur

        def executemany(self, sql, *a):
            cur = self.cursor()
            cur.executemany(sql, *a)
            return cur

        def executescript(self, sql):
            cur = self.cursor()
            cur.executescript(sql)
            return cur

        def commit(self):
            boundary('commit', '', self._c18_db)
            try:
                return super().commit()
            finally:
                after(self)

        def rollback(self):
            boundary('rollback', '', self._c18_db)
            try:
                return super().rollback()
            finally:
                after(self)

        def __enter__(self):
            boundary('enter', '', self._c18_db)
            super().__enter__()
            after(self)
            return self

        def __exit__(self, *exc):
            boundary('exit', 'commit' if exc[0] is None else 'rollback', self._c18_db)
            try:
                return super().__exit__(*exc)
            finally:
                after(self)

        def close(self):
            boundary('close', '', self._c18_db)
            try:
                return super().close()
            finally:
                after(self)

    class Proxy(object):
        def __getattr__(self, name):
            return getattr(real, name)

        def connect(self, database, *a, **kw):
            name = os.path.basename(str(database))
            boundary('connect', name, name)
            kw['factory'] = Conn
            con = real.connect(database, *a, **kw)
            con._c18_db = name
            return con

    sr.sqlite3 = Proxy()
    return boundary


# ------------------------------------------------------------------ reading what is left

def _tolist(v):
    import numpy as np
    return np.asarray(v).tolist()


def dump_case(c):
    out = {'name': c.name, 'source': c.source, 'counter': c.counter, 'success': c.success,
           'msg': c.msg, 'abs_err': c.abs_err, 'rel_err': c.rel_err, 'parent': c.parent}
    for attr in ('inputs', 'outputs', 'residuals', 'derivatives'):
        v = getattr(c, attr)
        if v is None:
            out[attr] = None
        else:
            out[attr] = {str(k): _tolist(v[k]) for k in v.keys()}
    return out


def _err(exc):
    tb = traceback.extract_tb(exc.__traceback__)
    where = '%s:%s' % (os.path.basename(tb[-1].filename), tb[-1].name) if tb else '?'
    return {'type': type(exc).__name__, 'where': where,
            'msg': ' '.join(str(exc).split())[:300]}


def dump_db(path):
    """Everything the check needs to know about one database file, read with the public reader
    first (so that it sees the file exactly as the crash left it, journal included) and with raw
    sqlite3 afterwards."""
    import sqlite3
    import openmdao.api as om
    d = {'exists': os.path.isfile(path)}
    if not d['exists']:
        return d
    d['size'] = os.path.getsize(path)
    d['journal'] = os.path.getsize(path + '-journal') if os.path.exists(path + '-journal') else -1
    try:
        cr = om.CaseReader(path)
    except Exception as exc:
        d['open_error'] = _err(exc)
        cr = None
    if cr is not None:
        try:
            names = list(cr.list_cases(out_stream=None))
            d['cases'] = names
            srcs = list(cr.list_sources(out_stream=None))
            d['sources'] = srcs
            d['by_source'] = {s: list(cr.list_cases(s, recurse=False, out_stream=None))
                              for s in srcs}
        except Exception as exc:
            d['list_error'] = _err(exc)
            names = []
        data = []
        for nm in names:
            try:
                c = cr.get_case(nm)
                if c is None:
                    data.append({'name': nm, 'error': {'type': 'None', 'where': 'get_case',
                                                       'msg': 'get_case returned None'}})
                else:
                    data.append(dump_case(c))
            except Exception as exc:
                data.append({'name': nm, 'error': _err(exc)})
        d['data'] = data
    # raw view (after the reader; a hot journal has been rolled back by now if the reader opened it)
    try:
        con = sqlite3.connect(path)
        cur = con.cursor()
        tabs = [r[0] for r in cur.execute("SELECT name FROM sqlite_master WHERE type='table'")]
        raw = {'tables': sorted(tabs)}
        if 'global_iterations' in tabs:
            raw['giter'] = [list(r) for r in cur.execute(
                'SELECT id, record_type, rowid, source FROM global_iterations ORDER BY id')]
        rows = {}
        for typ, tab in (('driver', 'driver_iterations'), ('system', 'system_iterations'),
                         ('solver', 'solver_iterations'), ('problem', 'problem_cases')):
            if tab in tabs:
                rows[typ] = [r[0] for r in cur.execute('SELECT id FROM %s ORDER BY id' % tab)]
        raw['rows'] = rows
        if 'metadata' in tabs:
            r = cur.execute('SELECT count(*), sum(abs2prom IS NULL), sum(conns IS NULL) '
                            'FROM metadata').fetchone()
            raw['metadata'] = list(r)
        for tab in ('system_metadata', 'solver_metadata', 'driver_metadata'):
            if tab in tabs:
                raw[tab] = [r[0] for r in cur.execute('SELECT id FROM %s ORDER BY id' % tab)]
        raw['integrity'] = [r[0] for r in cur.execute('PRAGMA integrity_check')][:3]
        con.close()
        d['raw'] = raw
    except Exception as exc:
        d['raw_error'] = _err(exc)
    return d


# ------------------------------------------------------------------ process plumbing

_DEVNULL = None
_SEQ = [0]


def _quiet():
    """forked children must not write to the protocol pipe"""
    os.dup2(_DEVNULL, 1)
    os.dup2(_DEVNULL, 2)
    sys.stdout = open(os.devnull, 'w')
    sys.stderr = sys.stdout
    import warnings
    warnings.filterwarnings('ignore')


def _status(st):
    if os.WIFSIGNALED(st):
        return 'sig:%d' % os.WTERMSIG(st)
    return 'exit:%d' % os.WEXITSTATUS(st)


def _snapshotter(hist, rundir, ks):
    """Snapshot mode: instead of dying at boundary k the recording process copies the database
    files and their journals, byte for byte, to <rundir>/snap_<k>/.  At a boundary (between two
    calls of the sqlite3 API, single thread) SQLite has no write in flight and buffers nothing in
    user space that a process death would still deliver, so the copy is exactly what os._exit at
    that boundary leaves on disk (minus the file locks, which die with the process)."""
    ks = set(ks)

    def snap(k):
        if k not in ks:
            return
        for db in HIST[hist][1]:
            for suffix in ('', '-journal'):
                src = os.path.join(rundir, db + suffix)
                if os.path.exists(src):
                    dst = os.path.join(rundir, 'snap_%d' % k, db + suffix)
                    os.makedirs(os.path.dirname(dst), exist_ok=True)
                    shutil.copyfile(src, dst)
        os.makedirs(os.path.join(rundir, 'snap_%d' % k), exist_ok=True)
    return snap


def _record_child(hist, rundir, crash_at=None, logpath=None, gate=None, snap_ks=None):
    """Body of the forked recording process.  Never returns."""
    try:
        _quiet()
        os.chdir(rundir)
        if gate is not None:
            os.read(gate, 1)          # wait until the tracer is attached
        log = [] if logpath else None
        boundary = None
        if crash_at is not None or logpath or snap_ks is not None:
            boundary = install_proxy(crash_at, log, _snapshotter(hist, rundir, snap_ks)
                                     if snap_ks is not None else None)
        HIST[hist][0]()
        if boundary is not None:
            boundary('end')           # crash point N: after the last statement, before exit
        if logpath:
            with open(logpath, 'w') as f:
                json.dump(log[:-1], f)
        os._exit(0)
    except BaseException:
        try:
            with open(os.path.join(rundir, 'child_error.txt'), 'w') as f:
                f.write(traceback.format_exc())
        finally:
            os._exit(3)


def _read_child(hist, rundir):
    """Body of the forked reading process.  Never returns."""
    try:
        _quiet()
        os.chdir(rundir)
        out = {db: dump_db(os.path.join(rundir, db)) for db in HIST[hist][1]}
        with open(os.path.join(rundir, 'dump.json'), 'w') as f:
            json.dump(out, f)
        os._exit(0)
    except BaseException:
        try:
            with open(os.path.join(rundir, 'reader_error.txt'), 'w') as f:
                f.write(traceback.format_exc())
        finally:
            os._exit(4)


def _strace_cmd(hist, rundir, pid, logfile, inject=None):
    cmd = ['strace', '-f', '-o', logfile]
    for db in HIST[hist][1]:
        p = os.path.join(rundir, db)
        cmd += ['-P', p, '-P', p + '-journal']
    cmd += ['-e', 'trace=' + ','.join(SYSCALLS)]
    if inject is not None:
        cmd += ['-e', 'inject=%s:signal=SIGKILL:when=%d' % inject]
    cmd += ['-p', str(pid)]
    return cmd


def _wait_traced(pid, sp, timeout=600.0):
    t0 = time.time()
    while True:
        try:
            with open('/proc/%d/status' % pid) as f:
                for line in f:
                    if line.startswith('TracerPid:'):
                        if line.split()[1] != '0':
                            return True
                        break
        except OSError:
            return False
        if sp.poll() is not None or time.time() - t0 > timeout:
            return False
        time.sleep(0.001)


def run_history(hist, mode, spec, base):
    """Run one history (crashing as requested) and read back what is on disk."""
    _SEQ[0] += 1
    rundir = os.path.join(base, 'r%d_%d' % (os.getpid(), _SEQ[0]))
    os.makedirs(rundir)
    res = {}
    try:
        if mode in ('none', 'stmt', 'stmtcount'):
            crash_at = spec.get('k') if mode == 'stmt' else None
            logpath = os.path.join(rundir, 'events.json') if mode == 'stmtcount' else None
            pid = os.fork()
            if pid == 0:
                _record_child(hist, rundir, crash_at, logpath)
            _, st = os.waitpid(pid, 0)
            res['exit'] = _status(st)
            if logpath and os.path.exists(logpath):
                with open(logpath) as f:
                    res['events'] = json.load(f)
        else:                           # 'sys' / 'syscount'
            r, w = os.pipe()
            pid = os.fork()
            if pid == 0:
                os.close(w)
                _record_child(hist, rundir, None, None, gate=r)
            os.close(r)
            logfile = os.path.join(rundir, 'strace.log') if mode == 'syscount' else '/dev/null'
            inject = (spec['sc'], int(spec['m'])) if mode == 'sys' else None
            sp = subprocess.Popen(_strace_cmd(hist, rundir, pid, logfile, inject),
                                  stdout=subprocess.DEVNULL, stderr=subprocess.PIPE)
            ok = _wait_traced(pid, sp)
            if not ok:
                os.kill(pid, signal.SIGKILL)
            else:
                os.write(w, b'g')
            os.close(w)
            _, st = os.waitpid(pid, 0)
            try:
                serr = sp.communicate(timeout=600)[1].decode(errors='replace')
            except subprocess.TimeoutExpired:
                sp.kill()
                serr = 'strace did not exit'
            res['exit'] = _status(st)
            if not ok:
                res['tracer_error'] = 'strace did not attach: ' + serr[-300:]
            if mode == 'syscount':
                calls = []
                with open(logfile) as f:
                    for line in f:
                        parts = line.split(None, 1)
                        if len(parts) == 2 and '(' in parts[1]:
                            nm = parts[1].split('(', 1)[0].strip()
                            if nm in SYSCALLS:
                                calls.append(nm)
                res['calls'] = calls
        errf = os.path.join(rundir, 'child_error.txt')
        if os.path.exists(errf):
            with open(errf) as f:
                res['child_error'] = f.read()[-1500:]
        # read back in a process that never had the database open: this helper itself (it only
        # ever forks the recording processes), or with C18_READ_FORK=1 a freshly forked one
        dumpf = os.path.join(rundir, 'dump.json')
        if not os.environ.get('C18_READ_FORK'):
            cwd = os.getcwd()
            os.chdir(rundir)
            try:
                res['dbs'] = {db: dump_db(os.path.join(rundir, db)) for db in HIST[hist][1]}
            finally:
                os.chdir(cwd)
            return res
        pid = os.fork()
        if pid == 0:
            _read_child(hist, rundir)
        _, st = os.waitpid(pid, 0)
        if os.path.exists(dumpf):
            with open(dumpf) as f:
                res['dbs'] = json.load(f)
        else:
            res['reader_died'] = _status(st)
            errf = os.path.join(rundir, 'reader_error.txt')
            if os.path.exists(errf):
                with open(errf) as f:
                    res['reader_died'] += ' ' + f.read()[-1200:]
    finally:
        if not os.environ.get('C18_KEEP'):
            shutil.rmtree(rundir, ignore_errors=True)
        else:
            res['rundir'] = rundir
    return res


def _make_base():
    """Directory for the per-run directories.  fdatasync() on a disk shared with 16 other workers
    costs 10-50 ms a call (a history makes 120-170 of them), on tmpfs it is free and the sequence of
    system calls SQLite makes is the same; durability against power loss is not part of the
    property.  So: tmpfs when there is one, else the scratch cwd.  C18_BASE overrides."""
    root = os.environ.get('C18_BASE')
    if not root:
        root = '/dev/shm' if (os.path.isdir('/dev/shm') and os.access('/dev/shm', os.W_OK)) \
            else os.getcwd()
    # remove directories left behind by helpers that were killed
    try:
        for fn in os.listdir(root):
            if fn.startswith('omv_c18_'):
                try:
                    pid = int(fn.split('_')[2])
                except (IndexError, ValueError):
                    continue
                if not os.path.exists('/proc/%d' % pid):
                    shutil.rmtree(os.path.join(root, fn), ignore_errors=True)
    except OSError:
        pass
    base = os.path.join(root, 'omv_c18_%d' % os.getpid())
    os.makedirs(base, exist_ok=True)
    return base


def run_snapshots(hist, ks, base):
    """One recording process, one snapshot per requested boundary, each read back."""
    _SEQ[0] += 1
    rundir = os.path.join(base, 'r%d_%d' % (os.getpid(), _SEQ[0]))
    os.makedirs(rundir)
    res = {'snaps': {}}
    try:
        pid = os.fork()
        if pid == 0:
            _record_child(hist, rundir, snap_ks=list(ks))
        _, st = os.waitpid(pid, 0)
        res['exit'] = _status(st)
        errf = os.path.join(rundir, 'child_error.txt')
        if os.path.exists(errf):
            with open(errf) as f:
                res['child_error'] = f.read()[-1500:]
        cwd = os.getcwd()
        for k in ks:
            sd = os.path.join(rundir, 'snap_%d' % k)
            if not os.path.isdir(sd):
                res['snaps'][str(k)] = {'missing': True}
                continue
            os.chdir(sd)
            try:
                res['snaps'][str(k)] = {'dbs': {db: dump_db(os.path.join(sd, db))
                                                 for db in HIST[hist][1]}}
            finally:
                os.chdir(cwd)
        os.chdir(rundir)
        try:
            res['end'] = {'dbs': {db: dump_db(os.path.join(rundir, db)) for db in HIST[hist][1]}}
        finally:
            os.chdir(cwd)
    finally:
        if not os.environ.get('C18_KEEP'):
            shutil.rmtree(rundir, ignore_errors=True)
    return res


def handle(req, base):
    op = req['op']
    hist = req.get('hist')
    if op == 'ping':
        return {'ok': True}
    if op == 'count':
        if req['mode'] == 'stmt':
            r = run_history(hist, 'stmtcount', {}, base)
            r['n'] = len(r.get('events', []))
        else:
            r = run_history(hist, 'syscount', {}, base)
            r['n'] = len(r.get('calls', []))
        return r
    if op == 'run':
        return run_history(hist, req['mode'], req, base)
    if op == 'snap':
        return run_snapshots(hist, [int(k) for k in req['ks']], base)
    raise ValueError('unknown op %r' % (op,))


def main():
    global _DEVNULL
    import warnings
    warnings.filterwarnings('ignore')
    proto_out = os.fdopen(os.dup(1), 'w')
    _DEVNULL = os.open(os.devnull, os.O_RDWR)
    os.dup2(_DEVNULL, 1)            # anything OpenMDAO prints goes nowhere
    sys.stdout = open(os.devnull, 'w')
    base = _make_base()
    warm_error = None
    try:
        import openmdao.api as om   # noqa: F401
        # warm up (lazy imports) in this process; all connections are closed by cleanup()
        wd = os.path.join(base, 'warm')
        os.makedirs(wd)
        cwd = os.getcwd()
        os.chdir(wd)
        try:
            for h in sorted(HIST):
                try:
                    HIST[h][0]()
                    for db in HIST[h][1]:
                        dump_db(os.path.join(wd, db))
                except Exception:
                    warm_error = traceback.format_exc()[-1500:]
        finally:
            os.chdir(cwd)
            shutil.rmtree(wd, ignore_errors=True)
    except BaseException:
        warm_error = traceback.format_exc()[-1500:]
    gc.collect()
    gc.freeze()                     # children: gc.collect() in recorder.shutdown() skips old heap
    try:
        for line in sys.stdin:
            line = line.strip()
            if not line:
                continue
            try:
                resp = handle(json.loads(line), base)
                if warm_error:
                    resp['warm_error'] = warm_error
            except BaseException:
                resp = {'helper_error': traceback.format_exc()[-1500:]}
            proto_out.write(json.dumps(resp) + '\n')
            proto_out.flush()
    finally:
        shutil.rmtree(base, ignore_errors=True)


if __name__ == '__main__':
    main()
