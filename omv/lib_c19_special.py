"""Hand-built families for C19 (load_case restores the recorded state).

  override : 4 sibling components whose names are string prefixes of each other
             (wing, wing_tip, wing2, tail); every subset of them overrides System.load_case
             (the documented extension point) x recording source {problem, driver, root}
  twins    : 3 instances of the same group class (same subsystem-relative names) x every non-empty
             subset carrying a recorder (one shared file) x optional root recorder; every recorded
             case is loaded into a fresh Problem
Oracle: after load_case every variable recorded in the case reads back with the recorded value, and
every variable the case does not hold keeps the value it had before the load.
"""
import contextlib
import glob
import io
import itertools
import os

import numpy as np

NAMES = ['wing', 'wing_tip', 'wing2', 'tail']


def families(tier):
    out = []
    for r in range(0, len(NAMES) + 1):
        for sub in itertools.combinations(NAMES, r):
            for src in ('problem', 'driver', 'root'):
                out.append({'family': 'override', 'over': list(sub), 'src': src})
    pts = ['pt1', 'pt2', 'pt3']
    for r in range(1, 4):
        for sub in itertools.combinations(pts, r):
            for root in (False, True):
                for order in ('fwd', 'rev'):
                    out.append({'family': 'twins', 'rec': list(sub), 'root': root, 'order': order})
            # the shared file also used by the driver / the problem / the root's solver, all of
            # which start recording after the instances did
            for top in ('driver', 'problem', 'solver'):
                for order in ('fwd', 'rev'):
                    out.append({'family': 'twins', 'rec': list(sub), 'root': False, 'order': order,
                                'top': top})
    return out


def _override_problem(case):
    import openmdao.api as om

    class Scale(om.ExplicitComponent):
        def initialize(self):
            self.options.declare('k', default=2.0)

        def setup(self):
            self.add_input('x', np.ones(2))
            self.add_output('y', np.ones(2))
            self.declare_partials('y', 'x', method='fd')

        def compute(self, inputs, outputs):
            outputs['y'] = self.options['k'] * inputs['x'] + 0.25

    class CustomLoad(Scale):
        def load_case(self, case):
            self.set_val('x', case.inputs[self.pathname + '.x'])
            self.set_val('y', case.outputs[self.pathname + '.y'])

    p = om.Problem(reports=None)
    m = p.model
    m.add_subsystem('ivc', om.IndepVarComp('p', np.array([0.5, -1.5])))
    for i, n in enumerate(NAMES):
        m.add_subsystem(n, (CustomLoad if n in case['over'] else Scale)(k=2.0 + i))
    m.connect('ivc.p', 'wing.x')
    m.connect('wing.y', 'wing_tip.x')
    m.connect('ivc.p', 'wing2.x')
    m.connect('wing2.y', 'tail.x')
    m.add_design_var('ivc.p')
    m.add_objective('tail.y', index=0)
    return p


def _point(k, a_units):
    import openmdao.api as om
    G = om.Group()
    G.add_subsystem('d', om.ExecComp('z = %s*a + b' % k, a={'shape': 2, 'units': a_units},
                                     b={'shape': 2}, z={'shape': 2}), promotes_inputs=['a', 'b'])
    G.add_subsystem('e', om.ExecComp('q = 3*z + 1', z={'shape': 2}, q={'shape': 2}),
                    promotes_outputs=['q'])
    G.connect('d.z', 'e.z')
    return G


def _twins_problem(case):
    import openmdao.api as om
    p = om.Problem(reports=None)
    names = ['pt1', 'pt2', 'pt3']
    if case['order'] == 'rev':
        names = names[::-1]
    # the shared (auto-IVC) input 'a' is declared in different units by the instances
    for n in names:
        p.model.add_subsystem(n, _point(float(n[-1]) + 1.0, 'cm' if n == 'pt2' else 'm'),
                              promotes_inputs=['a'])
    p.model.set_input_defaults('a', units='m', val=np.ones(2))
    return p


def _all_values(p):
    m = p.model
    vals = {}
    for n in m._var_allprocs_abs2meta['output']:
        vals[n] = np.array(p.get_val(n))
    for n in m._var_allprocs_abs2meta['input']:
        vals[n] = np.array(m.get_val(n, from_src=False))
    return vals


def check(case):
    import openmdao.api as om
    fam = case['family']
    keys = [k for k in case if k not in ('family', 'special', 'palette')]
    cls = fam + '/' + '/'.join('%s=%s' % (k, '+'.join(case[k]) if isinstance(case[k], list)
                                             else case[k]) for k in sorted(keys))
    vio = []

    def V(what, msg):
        vio.append({'sig': 'C19:%s:%s' % (what, cls), 'case': case, 'msg': '%s [%s]: %s' % (what, cls,
                                                                                          msg)})
    build = _override_problem if fam == 'override' else _twins_problem
    fname = 'c19s_%d_%d.sql' % (os.getpid(), abs(hash(repr(sorted(case.items(), key=str)))) % 10 ** 8)
    buf = io.StringIO()
    loads = nontriv = 0
    try:
        with contextlib.redirect_stdout(buf), contextlib.redirect_stderr(buf):
            p = build(case)
            rec = om.SqliteRecorder(fname, record_viewer_data=False)
            if fam == 'override':
                tgt = {'problem': p, 'driver': p.driver, 'root': p.model}[case['src']]
                tgt.add_recorder(rec)
                tgt.recording_options['record_inputs'] = True
                tgt.recording_options['record_outputs'] = True
                tgt.recording_options['includes'] = ['*']
            else:
                tgts = [getattr(p.model, n) for n in case['rec']] + ([p.model] if case['root']
                                                                     else [])
                top = case.get('top')
                if top == 'solver':
                    p.model.nonlinear_solver = om.NonlinearBlockGS(maxiter=2, iprint=-1)
                if top:
                    tgts.append({'driver': p.driver, 'problem': p,
                                 'solver': p.model.nonlinear_solver}[top])
                for t in tgts:
                    t.add_recorder(rec)
                    t.recording_options['record_inputs'] = True
                    t.recording_options['record_outputs'] = True
                    if t is p or t is p.driver:
                        t.recording_options['includes'] = ['*']
            p.setup()
            if fam == 'override':
                p.set_val('ivc.p', [1.25, -0.75])
            else:
                p.set_val('a', [1., 2.])
                for i, n in enumerate(('pt1', 'pt2', 'pt3')):
                    p.set_val(n + '.b', [5. - 3 * i, 7. + i])
            p.run_driver()
            if (fam == 'override' and case['src'] == 'problem') or case.get('top') == 'problem':
                p.record('final')
            at_record = _all_values(p)
            p.cleanup()
            files = glob.glob(os.path.join('*_out', fname)) + glob.glob(fname)
            cr = om.CaseReader(files[-1])
            for cname in cr.list_cases(out_stream=None):
                rcase = cr.get_case(cname)
                q = build(case)
                q.setup()
                q.final_setup()
                before = _all_values(q)
                q.load_case(rcase)
                loads += 1
                recorded = {}
                if rcase.inputs is not None:
                    for n in rcase.inputs.absolute_names():
                        recorded[n] = np.array(rcase.inputs[n])
                if rcase.outputs is not None:
                    for n in rcase.outputs.absolute_names():
                        recorded[n] = np.array(rcase.outputs[n])
                after = _all_values(q)
                ok = True
                if fam == 'twins' and rcase.source in ('driver', 'problem', 'root',
                                                       'root.nonlinear_solver'):
                    # a case of the whole model recorded with everything included
                    miss = [n for n in at_record if n not in recorded
                            and n in q.model._var_allprocs_abs2meta['output']]
                    if miss:
                        V('missing_variable', 'case %s (%s) lacks %s; has %s' % (
                            cname, rcase.source, miss, sorted(recorded)))
                        ok = False
                for n, v in recorded.items():
                    if n not in after:
                        continue
                    if n in at_record and not np.allclose(v, at_record[n], rtol=0, atol=1e-12):
                        V('recorded_value', 'case %s: %s recorded %s model had %s' % (
                            cname, n, v.tolist(), at_record[n].tolist()))
                        ok = False
                    if not np.allclose(after[n], v, rtol=0, atol=1e-12):
                        V('not_restored', 'case %s: %s after load_case %s recorded %s' % (
                            cname, n, after[n].tolist(), v.tolist()))
                        ok = False
                srcs = q.model._conn_global_abs_in2out
                rec_srcs = set(srcs.get(n) for n in recorded)
                for n, v in after.items():
                    if n in recorded or n in rec_srcs or srcs.get(n) in recorded:
                        continue
                    if not np.array_equal(v, before[n]):
                        V('unrecorded_changed', 'case %s: %s is not in the case but changed from %s '
                          'to %s' % (cname, n, before[n].tolist(), v.tolist()))
                        ok = False
                nontriv += int(ok and len(recorded) >= 2)
    except Exception as exc:
        import traceback
        V('special_raises:%s' % type(exc).__name__, '%s | %s' % (str(exc)[:200],
                                                                traceback.format_exc()[-300:]))
    return {'evals': loads, 'nontrivial': nontriv if not vio else 0,
            'outcome': 'violation' if vio else 'ok_special_' + fam, 'violations': vio,
            'counters': {'states': loads, 'transitions': loads, 'traces': int(not vio)},
            'sample': cls}
