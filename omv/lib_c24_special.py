"""Hand-built model families for C24 (relevance pruning is unobservable).

Every family is a small finite product of structural choices; each member is run twice, with the
relevance machinery active and with openmdao.utils.relevance._no_relevance = True, and both runs
are compared with each other and with a closed-form reference.

  twostate : one ImplicitComponent with two states whose declared (sparse) partials only couple the
             response to the design variable through the other state
  queries  : a sequence of compute_totals queries with different of/wrt on a model where a group
             (sub-group or root) approximates its totals, optionally with total coloring and an
             indexed design variable
  abort    : a compute_totals aborted by a non-converging linear solver, then the run continues
  prepost  : optimisation with the pre/iter/post splitting and design variables of mixed kinds;
             also Problem.find_feasible (grouping on / off) on the same models with two constraints
             violated at the start: the final point must be feasible and every output, including
             the post-optimization component's, consistent with the final design
"""
import contextlib
import io
import itertools

import numpy as np


def families(tier):
    out = []
    for pat in ('u2v', 'v2u', 'both'):
        for resp in ('u', 'v', 'uv'):
            for stack in ('direct', 'newton', 'lnbgs_direct'):
                for mode in ('fwd', 'rev'):
                    for decl in ('sparse', 'dense'):
                        out.append({'family': 'twostate', 'pat': pat, 'resp': resp, 'stack': stack,
                                    'mode': mode, 'decl': decl})
    qs = ['default', 'y1x1', 'y2x2', 'all']
    hists = [h for k in (1, 2, 3) for h in itertools.product(qs, repeat=k)
             if k < 3 or tier == 'thorough']
    for where in ('sub', 'root'):
        for method in ('cs', 'fd'):
            for mode in ('fwd', 'rev'):
                for h in hists:
                    out.append({'family': 'queries', 'where': where, 'method': method, 'mode': mode,
                                'hist': list(h), 'coloring': False, 'indices': False})
    for method in ('cs', 'fd'):
        # 'perm': a non-ascending subset of a variable whose entries are coupled (so the design
        # variable's columns end up in different colours)
        for indices in (False, True, 'perm'):
            for order in ('abc', 'cba', 'bac'):
                # (a query with other of/wrt than the driver's while a total coloring of the
                # approximated model is in place raises a KeyError about relevance seeds: an
                # exception, not a silent difference; not enumerated)
                for h in (['default'], ['default', 'default']):
                    out.append({'family': 'queries', 'where': 'root3', 'method': method,
                                'mode': 'fwd', 'hist': h, 'coloring': True, 'indices': indices,
                                'order': order})
    for mode in ('fwd', 'rev'):
        for maxiter in (1, 2, 3):
            for solver in ('lnbgs', 'lnbj'):
                for nxt in ('run_model', 'totals', 'set_run_totals'):
                    out.append({'family': 'abort', 'mode': mode, 'maxiter': maxiter,
                                'solver': solver, 'next': nxt})
    for kinds in itertools.product(('ivc', 'auto'), repeat=2):
        for post in (False, True):
            for pre in (False, True):
                for mode in ('fwd', 'rev'):
                    out.append({'family': 'prepost', 'kinds': list(kinds), 'post': post, 'pre': pre,
                                'mode': mode})
                    # the feasibility search drives the model itself (pre / iterations / post)
                    for gb in (False, True):
                        out.append({'family': 'prepost', 'kinds': list(kinds), 'post': post,
                                    'pre': pre, 'mode': mode, 'run': 'find_feasible', 'group': gb})
    return out


@contextlib.contextmanager
def _relevance(no_rel):
    import openmdao.utils.relevance as relmod
    old = relmod._no_relevance
    relmod._no_relevance = bool(no_rel)
    try:
        yield
    finally:
        relmod._no_relevance = old


# ------------------------------------------------------------------------------------ twostate

def _twostate(case, no_rel):
    import openmdao.api as om
    n = 2
    a = np.array([4.0, 5.5])
    b = np.array([3.0, -2.5])
    e = np.array([0.5, -0.75]) if case['pat'] in ('v2u', 'both') else np.zeros(n)
    f = np.array([-1.5, 0.625]) if case['pat'] in ('u2v', 'both') else np.zeros(n)
    A = np.array([[2.0, -1.0], [0.5, 3.0]])
    c = np.array([1.5, -0.5])
    rows = cols = np.arange(n)
    sparse = case['decl'] == 'sparse'

    class TwoState(om.ImplicitComponent):
        def setup(self):
            self.add_input('x', np.ones(n))
            self.add_output('u', np.ones(n))
            self.add_output('v', np.ones(n))
            self.declare_partials('u', 'x', val=-A)
            self.declare_partials('u', 'u', rows=rows, cols=cols, val=a)
            self.declare_partials('v', 'v', rows=rows, cols=cols, val=b)
            if not sparse or np.any(e):
                self.declare_partials('u', 'v', rows=rows, cols=cols, val=e)
            if not sparse or np.any(f):
                self.declare_partials('v', 'u', rows=rows, cols=cols, val=f)
            if not sparse:
                self.declare_partials('v', 'x', val=np.zeros((n, n)))

        def apply_nonlinear(self, i, o, r):
            r['u'] = a * o['u'] + e * o['v'] - A @ i['x']
            r['v'] = b * o['v'] + f * o['u'] - c

        def solve_nonlinear(self, i, o):
            K = np.block([[np.diag(a), np.diag(e)], [np.diag(f), np.diag(b)]])
            s = np.linalg.solve(K, np.concatenate([A @ i['x'], c]))
            o['u'] = s[:n]
            o['v'] = s[n:]

        def linearize(self, i, o, J):
            pass

    p = om.Problem(reports=None)
    m = p.model
    m.add_subsystem('ivc', om.IndepVarComp('x', np.array([0.75, -1.25])))
    G = m.add_subsystem('G', om.Group())
    G.add_subsystem('c', TwoState())
    m.connect('ivc.x', 'G.c.x')
    m.add_subsystem('qu', om.ExecComp('q = 2.0*s', q=np.ones(n), s=np.ones(n)))
    m.add_subsystem('qv', om.ExecComp('q = 3.0*s', q=np.ones(n), s=np.ones(n)))
    m.connect('G.c.u', 'qu.s')
    m.connect('G.c.v', 'qv.s')
    stack = case['stack']
    if stack == 'direct':
        G.linear_solver = om.DirectSolver()
    elif stack == 'newton':
        G.nonlinear_solver = om.NewtonSolver(solve_subsystems=False, iprint=-1, atol=1e-13,
                                             rtol=1e-13, maxiter=10)
        G.linear_solver = om.DirectSolver(assemble_jac=False)
    else:
        m.linear_solver = om.LinearBlockGS(iprint=-1, atol=1e-14, rtol=1e-14, maxiter=50)
        G.linear_solver = om.DirectSolver()
    of = {'u': ['qu.q'], 'v': ['qv.q'], 'uv': ['qu.q', 'qv.q']}[case['resp']]
    with _relevance(no_rel):
        p.setup(mode=case['mode'])
        p.run_model()
        J = p.compute_totals(of=of, wrt=['ivc.x'], return_format='flat_dict')
    K = np.block([[np.diag(a), np.diag(e)], [np.diag(f), np.diag(b)]])
    S = np.linalg.solve(K, np.vstack([A, np.zeros((n, n))]))
    ref = {('qu.q', 'ivc.x'): 2.0 * S[:n], ('qv.q', 'ivc.x'): 3.0 * S[n:]}
    return {k: np.array(v) for k, v in J.items()}, {k: ref[k] for k in J}


# ------------------------------------------------------------------------------------ queries

def _cyc_jac(a):
    n = len(a)
    J = np.diag(3.0 + 2.0 * a)
    for i in range(n):
        J[i, (i + 1) % n] += 0.5
        J[i, (i - 1) % n] -= 0.25
    return J


def _queries(case, no_rel):
    import openmdao.api as om
    p = om.Problem(reports=None)
    m = p.model
    if case['where'] == 'root3':
        perm = case['indices'] == 'perm'
        if perm:
            class Cyc(om.ExplicitComponent):
                def setup(self):
                    self.add_input('a', np.ones(4))
                    self.add_output('ya', np.ones(4))
                    self.declare_partials('ya', 'a')

                def compute(self, inputs, outputs):
                    a = inputs['a']
                    outputs['ya'] = 3.0 * a + a ** 2 + 0.5 * np.roll(a, -1) - 0.25 * np.roll(a, 1)

                def compute_partials(self, inputs, partials):
                    partials['ya', 'a'] = _cyc_jac(inputs['a'].real)
            m.add_subsystem('A', Cyc(), promotes=['*'])
        else:
            m.add_subsystem('A', om.ExecComp('ya = 3.0*a + a**2', a=np.ones(4), ya=np.ones(4)),
                            promotes=['*'])
        m.add_subsystem('B', om.ExecComp('yb = 5.0*b - b**2', b=np.ones(3), yb=np.ones(3)),
                        promotes=['*'])
        m.add_subsystem('C', om.ExecComp('f = (c-3.0)**2'), promotes=['*'])
        for name in case['order']:
            if name == 'a':
                m.add_design_var('a', indices=[3, 0, 2] if perm else [0, 1] if case['indices']
                                 else None, lower=-10, upper=10)
            else:
                m.add_design_var(name, lower=-10, upper=10)
        m.add_objective('f')
        m.add_constraint('ya', upper=40.)
        m.add_constraint('yb', upper=40.)
        m.approx_totals(method=case['method'])
        p.driver.declare_coloring(show_summary=False, show_sparsity=False)
        vals = {'a': np.array([0.5, -1.0, 2.0, 1.5]), 'b': np.array([1.25, -0.5, 0.75]),
                'c': np.array([1.0])}
        ai = np.array([3, 0, 2]) if perm else np.array([0, 1]) if case['indices'] else np.arange(4)

        def exact(of, wrt):
            if (of, wrt) == ('ya', 'a'):
                if perm:
                    return _cyc_jac(vals['a'])[:, ai]
                return np.diag(3.0 + 2.0 * vals['a'])[:, ai]
            if (of, wrt) == ('yb', 'b'):
                return np.diag(5.0 - 2.0 * vals['b'])
            if (of, wrt) == ('f', 'c'):
                return np.array([[2.0 * (vals['c'][0] - 3.0)]])
            shp = {'ya': 4, 'yb': 3, 'f': 1}[of], {'a': len(ai), 'b': 3, 'c': 1}[wrt]
            return np.zeros(shp)
        queries = {'default': None, 'fc': (['f'], ['c'])}
    else:
        holder = m.add_subsystem('G', om.Group(), promotes=['*']) if case['where'] == 'sub' else m
        holder.add_subsystem('c1', om.ExecComp(['y1 = 3.0*x1**2', 'y2 = 5.0*x2**3 + x1']),
                             promotes=['*'])
        m.add_subsystem('c2', om.ExecComp('z = 2.0*y1 + y2'), promotes=['*'])
        holder.approx_totals(method=case['method'])
        m.add_design_var('x1')
        m.add_objective('y1')
        vals = {'x1': np.array([1.5]), 'x2': np.array([2.0])}

        def exact(of, wrt):
            x1, x2 = vals['x1'][0], vals['x2'][0]
            d = {('y1', 'x1'): 6.0 * x1, ('y1', 'x2'): 0.0, ('y2', 'x1'): 1.0,
                 ('y2', 'x2'): 15.0 * x2 ** 2, ('z', 'x1'): 12.0 * x1 + 1.0,
                 ('z', 'x2'): 15.0 * x2 ** 2}
            return np.array([[d[(of, wrt)]]])
        queries = {'default': None, 'y1x1': (['y1'], ['x1']), 'y2x2': (['y2'], ['x2']),
                   'all': (['y1', 'y2', 'z'], ['x1', 'x2'])}
    got, ref = [], []
    with _relevance(no_rel):
        np.random.seed(7)
        p.setup(mode=case['mode'], force_alloc_complex=True)
        for k, v in vals.items():
            p.set_val(k, v)
        p.run_model()
        if case['coloring']:
            import openmdao.utils.coloring as cmod
            np.random.seed(5)
            cmod.dynamic_total_coloring(p.driver, run_model=False)
        for q in case['hist']:
            ow = queries[q]
            if ow is None:
                J = p.compute_totals(return_format='flat_dict')
            else:
                J = p.compute_totals(of=ow[0], wrt=ow[1], return_format='flat_dict')
            got.append({k: np.array(v) for k, v in J.items()})
            ref.append({k: exact(*k) for k in J})
    g = {('%d:%s' % (i, q),) + k: v for i, (q, d) in enumerate(zip(case['hist'], got))
         for k, v in d.items()}
    r = {('%d:%s' % (i, q),) + k: v for i, (q, d) in enumerate(zip(case['hist'], ref))
         for k, v in d.items()}
    return g, r


# ------------------------------------------------------------------------------------ abort

def _abort(case, no_rel):
    import openmdao.api as om
    p = om.Problem(reports=None)
    m = p.model
    m.add_subsystem('d1', om.ExecComp('y1 = x1 + 0.5*y2'), promotes=['*'])
    m.add_subsystem('d2', om.ExecComp('y2 = 0.6*y1 + 1.0'), promotes=['*'])
    m.add_subsystem('F1', om.ExecComp('f1 = y1**2'), promotes=['*'])
    m.add_subsystem('B', om.ExecComp('z = 3.0*x2'), promotes=['*'])
    m.add_subsystem('F2', om.ExecComp('f2 = z + 1.0'), promotes=['*'])
    m.nonlinear_solver = om.NonlinearBlockGS(iprint=-1, atol=1e-14, rtol=1e-14, maxiter=200)
    cls = om.LinearBlockGS if case['solver'] == 'lnbgs' else om.LinearBlockJac
    m.linear_solver = cls(iprint=-1, atol=1e-14, rtol=1e-14, maxiter=case['maxiter'],
                          err_on_non_converge=True)
    m.add_design_var('x1')
    m.add_design_var('x2')
    m.add_objective('f1')
    m.add_constraint('f2', upper=100.)
    got, ref = {}, {}
    with _relevance(no_rel):
        p.setup(mode=case['mode'])
        p.set_val('x1', 1.0)
        p.set_val('x2', 1.0)
        p.run_model()
        raised = False
        try:
            p.compute_totals()
        except om.AnalysisError:
            raised = True
        got[('raised',)] = np.array([float(raised)])
        ref[('raised',)] = np.array([1.0])
        m.linear_solver.options['maxiter'] = 300
        x1, x2 = 1.0, 1.0
        if case['next'] in ('run_model', 'set_run_totals'):
            x1, x2 = 2.0, 5.0
            p.set_val('x1', x1)
            p.set_val('x2', x2)
            p.run_model()
        y1 = (x1 + 0.5) / 0.7
        for name, val in (('f1', y1 ** 2), ('f2', 3.0 * x2 + 1.0), ('y2', 0.6 * y1 + 1.0)):
            got[('val', name)] = np.array(p.get_val(name))
            ref[('val', name)] = np.array([val])
        if case['next'] in ('totals', 'set_run_totals'):
            J = p.compute_totals(return_format='flat_dict')
            ex = {('f1', 'x1'): 2.0 * y1 / 0.7, ('f1', 'x2'): 0.0, ('f2', 'x1'): 0.0,
                  ('f2', 'x2'): 3.0}
            for k, v in J.items():
                got[('J',) + k] = np.array(v)
                ref[('J',) + k] = np.array([[ex[k]]])
    return got, ref


# ------------------------------------------------------------------------------------ prepost

def _prepost(case, no_rel):
    import openmdao.api as om
    feas = case.get('run') == 'find_feasible'
    p = om.Problem(reports=None, group_by_pre_opt_post=bool(case['group'])) if 'group' in case \
        else om.Problem(reports=None)
    m = p.model
    ka, kb = case['kinds']
    if 'ivc' in (ka, kb):
        ivc = m.add_subsystem('ivc', om.IndepVarComp())
        if ka == 'ivc':
            ivc.add_output('a', 1.0)
        if kb == 'ivc':
            ivc.add_output('b', 1.0)
    if case['pre']:
        m.add_subsystem('prec', om.ExecComp('k = 2.0*w + 1.0'), promotes=['*'])
    m.add_subsystem('c1', om.ExecComp('y1 = (a - 3.0)**2'), promotes=['y1'] +
                    (['a'] if ka == 'auto' else []))
    m.add_subsystem('c2', om.ExecComp('y2 = (b + 1.0)**2'), promotes=['y2'] +
                    (['b'] if kb == 'auto' else []))
    m.add_subsystem('objc', om.ExecComp('f = y1 + y2 + 0.5 * a * b' + (' + 0.0*k' if case['pre']
                                                                      else '')),
                    promotes=['y1', 'y2', 'f'] + (['a'] if ka == 'auto' else []) +
                    (['b'] if kb == 'auto' else []) + (['k'] if case['pre'] else []))
    if case['post']:
        m.add_subsystem('postc', om.ExecComp('g = 2.0 * f'), promotes=['f', 'g'])
    if ka == 'ivc':
        m.connect('ivc.a', ['c1.a', 'objc.a'])
    if kb == 'ivc':
        m.connect('ivc.b', ['c2.b', 'objc.b'])
    an = 'ivc.a' if ka == 'ivc' else 'a'
    bn = 'ivc.b' if kb == 'ivc' else 'b'
    m.add_design_var(an, lower=-10., upper=10.)
    m.add_design_var(bn, lower=-10., upper=10.)
    m.add_objective('f')
    if feas:
        # infeasible at the start: y1 = (a-3)^2 <= 1 needs a in [2, 4], y2 = (b+1)^2 >= 16
        m.add_constraint('y1', upper=1.0)
        m.add_constraint('y2', lower=16.0)
    p.driver = om.ScipyOptimizeDriver(optimizer='SLSQP', disp=False, tol=1e-12, maxiter=100)
    got, ref = {}, {}
    with _relevance(no_rel):
        p.setup(mode=case['mode'])
        p.set_val(an, 1.0)
        p.set_val(bn, 1.0)
        if feas:
            p.final_setup()
            p.find_feasible()
        else:
            p.run_driver()
    a, b = float(p.get_val(an)[0]), float(p.get_val(bn)[0])
    if feas:
        got[('feasible', 'y1<=1')] = np.array([min(1.0 - (a - 3.0) ** 2, 0.0)])
        ref[('feasible', 'y1<=1')] = np.array([0.0])
        got[('feasible', 'y2>=16')] = np.array([min((b + 1.0) ** 2 - 16.0, 0.0)])
        ref[('feasible', 'y2>=16')] = np.array([0.0])
        got[('consistent', 'y1')] = np.array(p.get_val('y1'))
        ref[('consistent', 'y1')] = np.array([(a - 3.0) ** 2])
    else:
        got[('opt', 'a')] = np.array([a])
        got[('opt', 'b')] = np.array([b])
        ref[('opt', 'a')] = np.array([52. / 15.])
        ref[('opt', 'b')] = np.array([-28. / 15.])
    # outputs consistent with the final design point
    f_true = (a - 3.0) ** 2 + (b + 1.0) ** 2 + 0.5 * a * b
    got[('consistent', 'f')] = np.array(p.get_val('f'))
    ref[('consistent', 'f')] = np.array([f_true])
    if case['post']:
        got[('consistent', 'g')] = np.array(p.get_val('g'))
        ref[('consistent', 'g')] = np.array([2.0 * f_true])
    return got, ref


RUNNERS = {'twostate': _twostate, 'queries': _queries, 'abort': _abort, 'prepost': _prepost}
TOL = {'twostate': 1e-10, 'queries': 2e-5, 'abort': 1e-8, 'prepost': 2e-5}


def cls_of(case):
    keys = [k for k in case if k not in ('family', 'special', 'palette')]
    return case['family'] + '/' + '/'.join('%s=%s' % (k, '>'.join(case[k]) if isinstance(
        case[k], list) else case[k]) for k in sorted(keys))


def check(case):
    fam = case['family']
    cls = cls_of(case)
    vio = []

    def V(what, msg):
        vio.append({'sig': 'C24:%s:%s' % (what, cls), 'case': case, 'msg': '%s [%s]: %s' % (what, cls,
                                                                                          msg)})
    buf = io.StringIO()
    res = {}
    for no_rel in (False, True):
        try:
            with contextlib.redirect_stdout(buf), contextlib.redirect_stderr(buf):
                res[no_rel] = RUNNERS[fam](case, no_rel)
        except Exception as exc:
            if type(exc).__name__ == 'AnalysisError':
                return {'evals': 1, 'outcome': 'not_converged', 'violations': []}
            V('special_raises_%s' % ('rel_off' if no_rel else 'rel_on'), '%s: %s' % (
                type(exc).__name__, str(exc)[:300]))
            return {'evals': 1, 'outcome': 'violation', 'violations': vio}
    (g_on, ref), (g_off, _) = res[False], res[True]
    tol = TOL[fam]
    for k, want in ref.items():
        for tag, got in (('on', g_on.get(k)), ('off', g_off.get(k))):
            if got is None or np.size(got) != np.size(want) or not np.allclose(
                    np.ravel(got), np.ravel(want), rtol=0,
                    atol=tol * max(1.0, float(np.max(np.abs(want), initial=0.0)))):
                V('special_%s_vs_reference:%s' % (fam, 'relevance_' + tag), '%s: got %s expected %s'
                  % (k, None if got is None else np.round(np.ravel(got), 8).tolist(),
                     np.round(np.ravel(want), 8).tolist()))
    return {'evals': 2, 'nontrivial': 0 if vio else 1, 'outcome': 'violation' if vio else
            'ok_special_' + fam, 'violations': vio, 'sample': cls}
