"""Expression trees with the harness' own NumPy interpreter and forward-mode AD (shared by C14, C34).

A tree is a nested tuple (picklable, codec-encodable):

    ('v', name)              input variable
    ('k', name)              named constant (value in the environment, never differentiated)
    ('n', number)            numeric literal
    ('u', fname, t)          elementwise unary function (table UNARY; 'neg' is unary minus)
    ('b', op, t1, t2)        elementwise binary operator with NumPy broadcasting: + - * / **
    ('f2', fname, t1, t2)    two-argument function: elementwise (arctan2, power, maximum, minimum,
                             fmax, fmin) or bilinear (dot, inner, outer, matmul, kron, tensordot)
    ('r', fname, t)          reduction / reshaping: sum, prod, max, min (all entries), diff, ravel, T
    ('i', spec, t)           indexing  t[spec]   (spec: int | slice | list of int | tuple of those)
    ('cat', t1, t2)          concatenate((ravel(t1), ravel(t2)))

Every primitive carries its value function f, its derivative f' and a *safe-domain* predicate that
keeps arguments at least 0.25 away from kinks, branch cuts and singularities and bounds magnitudes.
`evaluate` raises `Unsafe` when a node receives an argument outside its safe domain and
`Inadmissible` when NumPy itself rejects the shapes: both are decisions of the reference model.

No OpenMDAO code is imported here.  erf/erfc use math.erf (not scipy.special, which ExecComp uses).
"""
import math

import numpy as np


class Unsafe(Exception):
    """argument outside the safe domain of a primitive (tree not well-defined at this point)"""


class Inadmissible(Exception):
    """NumPy rejects the expression for these shapes"""


MARGIN = 0.25
BIG = 1.0e4          # bound on the magnitude of every intermediate value

_erf = np.vectorize(math.erf, otypes=[float])
_erfc = np.vectorize(math.erfc, otypes=[float])
_2_SQRTPI = 2.0 / math.sqrt(math.pi)


def _all(v):
    return True


def _away_from_zero(v):
    return bool(np.all(np.abs(v) >= MARGIN))


def _inside_unit(v):
    return bool(np.all(np.abs(v) <= 1.0 - MARGIN))


def _tan_safe(v):
    # distance to the nearest pole (k + 1/2) pi
    d = (np.asarray(v, dtype=float) / math.pi - 0.5) % 1.0
    d = np.minimum(d, 1.0 - d) * math.pi
    return bool(np.all(d >= MARGIN)) and bool(np.all(np.abs(v) <= 8.0))


def _exp_safe(v):
    return bool(np.all(np.abs(v) <= 8.0))


# name -> (f, f', safe-domain predicate)
UNARY = {
    'neg': (lambda v: -v, lambda v: -np.ones_like(v), _all),
    'abs': (np.abs, np.sign, _away_from_zero),
    'arccos': (np.arccos, lambda v: -1.0 / np.sqrt(1.0 - v * v), _inside_unit),
    'arcsin': (np.arcsin, lambda v: 1.0 / np.sqrt(1.0 - v * v), _inside_unit),
    'arctan': (np.arctan, lambda v: 1.0 / (1.0 + v * v), _all),
    'arccosh': (np.arccosh, lambda v: 1.0 / np.sqrt(v * v - 1.0),
                lambda v: bool(np.all(v >= 1.0 + MARGIN))),
    'arcsinh': (np.arcsinh, lambda v: 1.0 / np.sqrt(v * v + 1.0), _all),
    'cos': (np.cos, lambda v: -np.sin(v), _all),
    'sin': (np.sin, np.cos, _all),
    'tan': (np.tan, lambda v: 1.0 / np.cos(v) ** 2, _tan_safe),
    'cosh': (np.cosh, np.sinh, _exp_safe),
    'sinh': (np.sinh, np.cosh, _exp_safe),
    'tanh': (np.tanh, lambda v: 1.0 / np.cosh(v) ** 2, _exp_safe),
    'exp': (np.exp, np.exp, _exp_safe),
    'expm1': (np.expm1, np.exp, _exp_safe),
    'log': (np.log, lambda v: 1.0 / v, lambda v: bool(np.all(v >= MARGIN))),
    'log10': (np.log10, lambda v: 1.0 / (v * math.log(10.0)), lambda v: bool(np.all(v >= MARGIN))),
    'log1p': (np.log1p, lambda v: 1.0 / (1.0 + v), lambda v: bool(np.all(v >= -1.0 + MARGIN))),
    'erf': (_erf, lambda v: _2_SQRTPI * np.exp(-v * v), lambda v: bool(np.all(np.abs(v) <= 3.0))),
    'erfc': (_erfc, lambda v: -_2_SQRTPI * np.exp(-v * v),
             lambda v: bool(np.all(np.abs(v) <= 3.0))),
    'square': (lambda v: v * v, lambda v: 2.0 * v, _all),
}
# aliases of ExecComp's function table
ALIASES = {'acos': 'arccos', 'asin': 'arcsin', 'atan': 'arctan', 'acosh': 'arccosh',
           'asinh': 'arcsinh'}
for _al, _nm in ALIASES.items():
    UNARY[_al] = UNARY[_nm]

BINOPS = ('+', '-', '*', '/', '**')
F2_ELEM = ('arctan2', 'power', 'maximum', 'minimum', 'fmax', 'fmin')
F2_BILINEAR = ('dot', 'inner', 'outer', 'matmul', 'kron', 'tensordot')
REDUCERS = ('sum', 'prod', 'max', 'min', 'diff', 'ravel', 'T')


def is_leaf(t):
    return t[0] in ('v', 'k', 'n')


def n_ops(t):
    return 0 if is_leaf(t) else 1 + sum(n_ops(c) for c in children(t))


_KINDS = ('v', 'k', 'n', 'u', 'b', 'f2', 'r', 'i', 'cat')


def children(t):
    k = t[0]
    if k in ('v', 'k', 'n'):
        return ()
    if k in ('u', 'r', 'i'):
        return (t[2],)
    if k in ('b', 'f2'):
        return (t[2], t[3])
    if k == 'cat':
        return (t[1], t[2])
    raise ValueError(k)


def depth(t):
    ch = children(t)
    return 0 if not ch else 1 + max(depth(c) for c in ch)


def variables(t, kind='v'):
    """ordered list of distinct variable (or constant) names in the tree"""
    out = []

    def rec(s):
        if s[0] == kind:
            if s[1] not in out:
                out.append(s[1])
        for c in children(s):
            rec(c)
    rec(t)
    return out


def op_names(t):
    out = []

    def rec(s):
        if s[0] in ('u', 'f2', 'r'):
            out.append(s[1])
        elif s[0] == 'b':
            out.append(s[1])
        elif s[0] == 'i':
            out.append('index')
        elif s[0] == 'cat':
            out.append('cat')
        for c in children(s):
            rec(c)
    rec(t)
    return out


# ------------------------------------------------------------------ rendering

def _spec_src(spec):
    if isinstance(spec, tuple):
        return ', '.join(_spec_src(s) for s in spec) + (',' if len(spec) == 1 else '')
    if isinstance(spec, slice):
        f = lambda q: '' if q is None else str(q)
        s = '%s:%s' % (f(spec.start), f(spec.stop))
        if spec.step is not None:
            s += ':%s' % spec.step
        return s
    if isinstance(spec, list):
        return '[' + ', '.join(str(int(i)) for i in spec) + ']'
    return str(int(spec))


def _num_src(v):
    if isinstance(v, (int, np.integer)) and not isinstance(v, bool):
        return str(int(v))
    s = repr(float(v))
    if 'e' in s or 'inf' in s or 'nan' in s:
        raise ValueError('literal %r cannot be rendered without an exponent' % (v,))
    return s


def render(t, prefix='', names=None):
    """Source text of the tree.  `prefix` is put before function names ('' for ExecComp, 'np.' or
    'jnp.'); `names` optionally maps a function name to its spelling."""
    names = names or {}
    k = t[0]

    def fn(name):
        return names.get(name, prefix + name)
    if k in ('v', 'k'):
        return t[1]
    if k == 'n':
        s = _num_src(t[1])
        return '(%s)' % s if s.startswith('-') else s
    if k == 'u':
        if t[1] == 'neg':
            return '(-%s)' % render(t[2], prefix, names)
        return '%s(%s)' % (fn(t[1]), render(t[2], prefix, names))
    if k == 'b':
        return '(%s %s %s)' % (render(t[2], prefix, names), t[1], render(t[3], prefix, names))
    if k == 'f2':
        return '%s(%s, %s)' % (fn(t[1]), render(t[2], prefix, names), render(t[3], prefix, names))
    if k == 'r':
        if t[1] == 'T':
            inner = render(t[2], prefix, names)
            return ('%s.T' if is_leaf(t[2]) else '(%s).T') % inner
        return '%s(%s)' % (fn(t[1]), render(t[2], prefix, names))
    if k == 'i':
        inner = render(t[2], prefix, names)
        if not (is_leaf(t[2]) or inner.endswith(')')):
            inner = '(%s)' % inner
        return '%s[%s]' % (inner, _spec_src(t[1]))
    if k == 'cat':
        return '%s((%s(%s), %s(%s)))' % (fn('concatenate'), fn('ravel'),
                                         render(t[1], prefix, names), fn('ravel'),
                                         render(t[2], prefix, names))
    raise ValueError(k)


# ------------------------------------------------------------------ evaluation + forward AD
#
# A tangent is None (identically zero) or an array of shape (ndir,) + value.shape: one slice per
# seed direction.

def _lift(t, s_from, s_to):
    """tangent of an operand of shape s_from viewed in the broadcast result shape s_to"""
    if t is None:
        return None
    nd = t.shape[0]
    t = t.reshape((nd,) + (1,) * (len(s_to) - len(s_from)) + tuple(s_from))
    return np.broadcast_to(t, (nd,) + tuple(s_to))


def _add(p, q, sign=1.0):
    if p is None and q is None:
        return None
    if q is None:
        return p
    if p is None:
        return sign * q
    return p + sign * q


def _scale(t, factor):
    """t * factor with factor an array of the value shape"""
    if t is None:
        return None
    return t * np.asarray(factor)[None]


def _check_mag(v):
    v = np.asarray(v, dtype=float)
    if not np.all(np.isfinite(v)) or np.any(np.abs(v) > BIG):
        raise Unsafe('magnitude')
    return v


def _int_valued(v):
    v = np.asarray(v, dtype=float)
    return bool(np.all(v == np.round(v)))


def _pow(a, b, ta, tb, so):
    sa, sb = np.shape(a), np.shape(b)
    if np.any(np.abs(b) > 4.0) or np.any(np.abs(a) > 8.0):
        raise Unsafe('pow magnitude')
    if tb is None and _int_valued(b):
        if np.any(b < 1) and not _away_from_zero(a):
            raise Unsafe('pow base near 0 with exponent < 1')
    else:
        if not np.all(a >= MARGIN):
            raise Unsafe('pow needs a positive base')
    with np.errstate(all='ignore'):
        val = np.power(np.asarray(a, dtype=float), b)
        t = None
        if ta is not None:
            da = b * np.power(np.asarray(a, dtype=float), np.asarray(b, dtype=float) - 1.0)
            t = _add(t, _scale(_lift(ta, sa, so), np.broadcast_to(da, so)))
        if tb is not None:
            db = val * np.log(a)
            t = _add(t, _scale(_lift(tb, sb, so), np.broadcast_to(db, so)))
    return val, t


def _elem2(name, a, b, ta, tb):
    sa, sb = np.shape(a), np.shape(b)
    try:
        so = np.broadcast_shapes(sa, sb)
    except ValueError:
        raise Inadmissible('broadcast %s %s' % (sa, sb))
    la, lb = _lift(ta, sa, so), _lift(tb, sb, so)
    A, B = np.broadcast_to(a, so), np.broadcast_to(b, so)
    if name == '+':
        return a + b, _add(la, lb)
    if name == '-':
        return a - b, _add(la, lb, -1.0)
    if name == '*':
        return a * b, _add(_scale(la, B), _scale(lb, A))
    if name == '/':
        if not _away_from_zero(b):
            raise Unsafe('division by a value near 0')
        return a / b, _add(_scale(la, 1.0 / B), _scale(lb, -A / (B * B)))
    if name in ('**', 'power'):
        return _pow(a, b, ta, tb, so)
    if name == 'arctan2':
        # y = a, x = b; keep away from the origin and from the branch cut (x < 0, y = 0)
        r2 = A * A + B * B
        if np.any(r2 < MARGIN * MARGIN) or np.any((B < 0) & (np.abs(A) < MARGIN)):
            raise Unsafe('arctan2 near origin / branch cut')
        return np.arctan2(A, B) + 0.0, _add(_scale(la, B / r2), _scale(lb, -A / r2))
    if name in ('maximum', 'fmax', 'minimum', 'fmin'):
        if np.any(np.abs(A - B) < MARGIN):
            raise Unsafe('max/min near a tie')
        pick_a = (A > B) if name in ('maximum', 'fmax') else (A < B)
        val = np.where(pick_a, A, B)
        return val, _add(_scale(la, pick_a.astype(float)), _scale(lb, (~pick_a).astype(float)))
    raise ValueError(name)


_NP_BILINEAR = {'dot': np.dot, 'inner': np.inner, 'outer': np.outer, 'matmul': np.matmul,
                'kron': np.kron, 'tensordot': np.tensordot}


def _bilinear(name, a, b, ta, tb):
    f = _NP_BILINEAR[name]
    try:
        val = f(a, b)
    except (ValueError, TypeError, IndexError) as exc:
        raise Inadmissible('%s: %s' % (name, exc))
    val = np.asarray(val, dtype=float)
    t = None
    nd = ta.shape[0] if ta is not None else (tb.shape[0] if tb is not None else 0)
    if nd:
        t = np.zeros((nd,) + val.shape)
        for d in range(nd):
            if ta is not None:
                t[d] += f(ta[d], b)
            if tb is not None:
                t[d] += f(a, tb[d])
    return val, t


def _extreme_safe(v):
    s = np.sort(np.ravel(v))
    return s.size < 2 or bool(np.all(np.diff(s) >= MARGIN))


def _reduce(name, v, t):
    v = np.asarray(v, dtype=float)
    nd = None if t is None else t.shape[0]
    if name == 'sum':
        return np.sum(v), (None if t is None else t.reshape(nd, -1).sum(axis=1))
    if name == 'prod':
        flat = v.ravel()
        val = np.prod(flat)
        if t is None:
            return val, None
        tf = t.reshape(nd, -1)
        out = np.zeros(nd)
        for i in range(flat.size):
            others = np.prod(np.delete(flat, i))
            out += tf[:, i] * others
        return val, out
    if name in ('max', 'min'):
        if not _extreme_safe(v):
            raise Unsafe('max/min near a tie')
        i = int(np.argmax(v) if name == 'max' else np.argmin(v))
        return v.ravel()[i], (None if t is None else t.reshape(nd, -1)[:, i].copy())
    if name == 'diff':
        if v.ndim == 0:
            raise Inadmissible('diff of a scalar')
        val = v[..., 1:] - v[..., :-1]
        if val.size == 0:
            raise Inadmissible('empty diff')
        return val, (None if t is None else t[..., 1:] - t[..., :-1])
    if name == 'ravel':
        return v.ravel(), (None if t is None else t.reshape(nd, -1))
    if name == 'T':
        if v.ndim < 2:
            raise Inadmissible('.T of a scalar / 1-D array is the identity (left out)')
        ax = tuple(range(v.ndim))[::-1]
        return v.transpose(ax), (None if t is None else t.transpose((0,) + tuple(1 + i for i in ax)))
    raise ValueError(name)


def _index(spec, v, t):
    v = np.asarray(v)
    sp = spec
    if isinstance(sp, list):
        sp = np.asarray(sp, dtype=int)
    elif isinstance(sp, tuple):
        sp = tuple(np.asarray(s, dtype=int) if isinstance(s, list) else s for s in sp)
    try:
        val = v[sp]
    except (IndexError, TypeError, ValueError) as exc:
        raise Inadmissible('index: %s' % exc)
    if np.size(val) == 0:
        raise Inadmissible('empty selection')
    if t is None:
        return val, None
    full = (slice(None),) + (sp if isinstance(sp, tuple) else (sp,))
    if any(isinstance(s, np.ndarray) for s in full):
        # avoid NumPy's advanced-index axis reordering: select direction by direction
        return val, np.stack([t[d][sp] for d in range(t.shape[0])])
    return val, t[full]


def jvp(t, env, seeds=None):
    """(value, tangent) of the tree at `env` (name -> ndarray/float) for the seed tangents
    `seeds` (name -> array (ndir,)+shape); checks every node's safe domain."""
    seeds = seeds or {}
    k = t[0]
    if k == 'v':
        v = np.asarray(env[t[1]], dtype=float)
        return v, seeds.get(t[1])
    if k == 'k':
        return np.asarray(env[t[1]], dtype=float), None
    if k == 'n':
        return (t[1] if isinstance(t[1], (int, np.integer)) else float(t[1])), None
    if k == 'u':
        v, tv = jvp(t[2], env, seeds)
        f, df, safe = UNARY[t[1]]
        v = np.asarray(v, dtype=float)
        if not safe(v):
            raise Unsafe('%s outside its safe domain' % t[1])
        with np.errstate(all='ignore'):
            val = f(v)
            tan = _scale(tv, df(v))
        return _check_mag(val), tan
    if k == 'b':
        a, ta = jvp(t[2], env, seeds)
        b, tb = jvp(t[3], env, seeds)
        val, tan = _elem2(t[1], a, b, ta, tb)
        return _check_mag(val), tan
    if k == 'f2':
        a, ta = jvp(t[2], env, seeds)
        b, tb = jvp(t[3], env, seeds)
        if t[1] in F2_ELEM:
            val, tan = _elem2(t[1], a, b, ta, tb)
        else:
            val, tan = _bilinear(t[1], a, b, ta, tb)
        return _check_mag(val), tan
    if k == 'r':
        v, tv = jvp(t[2], env, seeds)
        val, tan = _reduce(t[1], v, tv)
        return _check_mag(val), tan
    if k == 'i':
        v, tv = jvp(t[2], env, seeds)
        return _index(t[1], v, tv)
    if k == 'cat':
        a, ta = jvp(t[1], env, seeds)
        b, tb = jvp(t[2], env, seeds)
        a, b = np.asarray(a, dtype=float), np.asarray(b, dtype=float)
        val = np.concatenate((a.ravel(), b.ravel()))
        if ta is None and tb is None:
            return val, None
        nd = ta.shape[0] if ta is not None else tb.shape[0]
        pa = np.zeros((nd, a.size)) if ta is None else ta.reshape(nd, -1)
        pb = np.zeros((nd, b.size)) if tb is None else tb.reshape(nd, -1)
        return val, np.concatenate((pa, pb), axis=1)
    raise ValueError('unknown node kind %r' % (k,))


def evaluate(t, env):
    return np.asarray(jvp(t, env)[0], dtype=float)


def jacobian(t, env, wrt):
    """value and {name: d value.ravel() / d env[name].ravel()} (C order) by forward AD with one
    seed direction per input entry"""
    shapes = [np.shape(env[n]) for n in wrt]
    sizes = [int(np.prod(s, dtype=int)) for s in shapes]
    nd = int(sum(sizes))
    seeds = {}
    off = 0
    for n, s, sz in zip(wrt, shapes, sizes):
        e = np.zeros((nd, sz))
        e[off:off + sz, :] = np.eye(sz)
        seeds[n] = e.reshape((nd,) + tuple(s))
        off += sz
    val, tan = jvp(t, env, seeds)
    val = np.asarray(val, dtype=float)
    if tan is None:
        full = np.zeros((val.size, nd))
    else:
        full = np.asarray(tan, dtype=float).reshape(nd, -1).T
    out = {}
    off = 0
    for n, sz in zip(wrt, sizes):
        out[n] = full[:, off:off + sz].copy()
        off += sz
    return val, out


def is_elementwise(t, env):
    """True if the tree consists of leaves, elementwise unary and elementwise binary nodes only and
    all operands of size > 1 have one common shape (then every array/array partial is diagonal)."""
    shapes = set()

    def rec(s):
        k = s[0]
        if k in ('v', 'k'):
            sh = np.shape(env[s[1]])
            if int(np.prod(sh, dtype=int)) > 1:
                shapes.add(tuple(sh))
            return True
        if k == 'n':
            return True
        if k == 'u':
            return rec(s[2])
        if k == 'b' or (k == 'f2' and s[1] in F2_ELEM):
            return rec(s[2]) and rec(s[3])
        return False
    return rec(t) and len(shapes) <= 1


# ------------------------------------------------------------------ value palettes
#
# Six families of generic dyadic values (pairwise distinct, no value the negative, inverse or sum of
# another one of the same variable, matrices non-symmetric); every family keeps a distance >= 0.25
# from 0 and from +-1 where its range touches them.  Two variables never share a value.

def _fam(vals):
    return [float(v) for v in vals]


_FAMILIES = {
    # name: 9 values for the first variable ('x'-like), 9 for the second
    'mixS': (_fam([-0.4375, 0.625, -0.6875, 0.34375, 0.5625, -0.71875, 0.40625, -0.3125, 0.53125]),
             _fam([0.59375, -0.328125, 0.453125, -0.65625, 0.375, 0.484375, -0.703125, 0.546875,
                   -0.390625])),
    'mixB': (_fam([-2.5, 1.5, -1.375, 2.75, 1.875, -2.125, 1.625, -1.75, 2.375]),
             _fam([1.4375, -2.6875, 2.1875, -1.5625, 2.4375, 1.8125, -2.3125, 1.3125, -1.9375])),
    'posS': (_fam([0.3125, 0.5, 0.6875, 0.34375, 0.5625, 0.71875, 0.40625, 0.4375, 0.625]),
             _fam([0.59375, 0.328125, 0.453125, 0.65625, 0.375, 0.484375, 0.703125, 0.546875,
                   0.390625])),
    'posB': (_fam([1.375, 2.25, 1.75, 2.625, 1.5, 2.875, 1.625, 2.125, 2.5]),
             _fam([2.4375, 1.3125, 1.9375, 2.6875, 1.5625, 2.1875, 1.8125, 2.3125, 1.4375])),
    'negS': (_fam([-0.3125, -0.5, -0.6875, -0.34375, -0.5625, -0.71875, -0.40625, -0.4375, -0.625]),
             _fam([-0.59375, -0.328125, -0.453125, -0.65625, -0.375, -0.484375, -0.703125,
                   -0.546875, -0.390625])),
    'negB': (_fam([-1.375, -2.25, -1.75, -2.625, -1.5, -2.875, -1.625, -2.125, -2.5]),
             _fam([-2.4375, -1.3125, -1.9375, -2.6875, -1.5625, -2.1875, -1.8125, -2.3125,
                   -1.4375])),
}
FAMILY_ORDER = ('mixS', 'mixB', 'posS', 'posB', 'negS', 'negB')


def family_values(family, slot, shape, rot=0):
    """values of variable number `slot` (0, 1, 2 ...) of the given shape from a family; `rot`
    rotates the value list (the seed selects the rotation)."""
    vals = _FAMILIES[family][slot % 2]
    if slot >= 2:   # third and later variables: shifted copies that stay inside the family's range
        vals = [v + (0.015625 if v > 0 else -0.015625) * (slot // 2) for v in vals]
    n = int(np.prod(shape, dtype=int))
    if n > len(vals):
        raise ValueError('palette too small for shape %s' % (shape,))
    rot = rot % len(vals)
    vals = vals[rot:] + vals[:rot]
    arr = np.array(vals[:n], dtype=float).reshape(shape)
    return arr


def palette_points(names, shapes, rot=0, max_points=None):
    """all assignments (family per variable) in a fixed order, simplest (same family for every
    variable) first; yields (label, env)"""
    import itertools
    combos = [(f,) * len(names) for f in FAMILY_ORDER]
    if len(names) > 1:
        for c in itertools.product(FAMILY_ORDER, repeat=len(names)):
            if c not in combos:
                combos.append(c)
    if rot:
        r = rot % len(FAMILY_ORDER)
        combos = combos[r:len(FAMILY_ORDER)] + combos[:r] + combos[len(FAMILY_ORDER):]
    n = 0
    for c in combos:
        env = {nm: family_values(f, i, shapes[nm], rot) for i, (nm, f) in enumerate(zip(names, c))}
        yield '/'.join(c), env
        n += 1
        if max_points and n >= max_points:
            return


def safe_points(t, names, shapes, consts=None, rot=0, want=2):
    """first `want` palette points at which the tree is well-defined (all nodes inside their safe
    domains); raises Inadmissible if NumPy rejects the shapes.  Returns [(label, env, value, jac)]"""
    out = []
    consts = consts or {}
    for label, env in palette_points(names, shapes, rot):
        full = dict(consts)
        full.update(env)
        try:
            val, jac = jacobian(t, full, list(names))
        except Unsafe:
            continue
        out.append((label, env, val, jac))
        if len(out) >= want:
            break
    return out


# ------------------------------------------------------------------ self test of the oracle

def selftest(trees, shapes_list, h=1.0e-6, tol=2.0e-6):
    """central finite differences of `evaluate` against `jacobian` (f versus f'): guards the
    reference model itself.  Returns a list of problems (empty = fine)."""
    bad = []
    for t in trees:
        names = variables(t)
        for shapes in shapes_list:
            shp = {n: shapes[i % len(shapes)] for i, n in enumerate(names)}
            consts = {n: family_values('posB', 4, shapes[0], 3) for n in variables(t, 'k')}
            try:
                pts = safe_points(t, names, shp, consts=consts, want=1)
            except Inadmissible:
                continue
            for label, env, val, jac in pts:
                for n in names:
                    x0 = np.array(env[n], dtype=float)
                    fd = np.zeros((val.size, x0.size))
                    for j in range(x0.size):
                        for sgn in (1.0, -1.0):
                            xp = x0.copy().ravel()
                            xp[j] += sgn * h
                            e2 = dict(consts)
                            e2.update(env)
                            e2[n] = xp.reshape(x0.shape)
                            try:
                                fd[:, j] += sgn * evaluate(t, e2).ravel() / (2 * h)
                            except Unsafe:
                                fd[:, j] = np.nan
                    err = np.nanmax(np.abs(fd - jac[n])) if fd.size else 0.0
                    if err > tol * max(1.0, np.max(np.abs(jac[n])) if jac[n].size else 1.0):
                        bad.append((render(t), shp, label, n, float(err)))
    return bad
