"""C01 - total derivatives equal the exact derivative of the converged model (DESIGN.md 4, C01)."""
import collections
import io
import contextlib

import numpy as np

from omv.core import explore, ir, models

ID = 'C01'
LEVEL = 'exploration'
TECHNIQUE = ('deviation-bounded exhaustive enumeration of model configurations (Hamming ball around '
             'base models + full products of the global dimensions), each built as a real Problem and '
             'compared with an independent NumPy reference evaluator (implicit-function totals)')
RULE = ('configurations = all points within Hamming distance <= k (quick 2 / thorough 3 on a reduced '
        'alphabet) of each base model over the dimensions topology, hierarchy, component kinds, '
        'partial format, sparsity, nonlinear/linear solver, assembled jac, mode, return format, wiring '
        '(src_indices forms, promotion levels, auto-IVC), units, dv/response indices, driver scaling, '
        'API; plus the full product mode x jac x linear solver x API on every base; non-trivial = '
        'model built, reference confirms convergence and the total Jacobian has >= 2 distinct '
        'nonzero entries; every configuration is enumerated once')
LEVEL_TEXT = ('Every configuration in the stated ball/product is built from the IR as a real OpenMDAO '
              'Problem, run, and its totals compared entrywise with the implicit-function-theorem '
              'totals of an independent NumPy evaluator at the converged state; bookkeeping defects '
              '(index maps, transposes, scaling factors, signs) are discrete and show up at these sizes.')
LEVEL_NOTE = ('<= 4 components, <= 6 entries per variable, fixed value palettes (VERIF_SEED selects '
              'one of 3); reference evaluator and NumPy/SciPy linear algebra are trusted; no MPI/PETSc.')
ASSUMPTIONS = ['the property is conditional on convergence: a state the reference does not confirm as '
               'converged (residual > 1e-9) is counted not_converged, not a violation; so is a run that '
               'DirectSolver aborts because the Jacobian at an intermediate iterate is singular',
               'central-difference and complex-step approximated partials are exact for the quadratic '
               'IR functions up to round-off (tolerance 1e-6 for fd)',
               'configurations the generator cannot express are counted as skipped with the reason']
MIN_NONTRIVIAL = {'quick': 1500, 'thorough': 8000}
CAP_S = {'thorough': 1700}

DIMS = collections.OrderedDict([
    ('topo', ['chain', 'fanout', 'fanin', 'cycle2', 'cycle_tail', 'irrel', 'two']),
    ('hier', ['flat', 'nest1', 'nest2', 'allG', 'cycG']),
    ('kinds', ['lin', 'mix1', 'mix2', 'allquad', 'allimp']),
    ('partials', ['dense', 'rowcol', 'coo', 'csr', 'csc', 'matfree', 'cs', 'fd_central']),
    ('sparse', [False, True]),
    ('nl', ['default', 'Newton', 'NLBGS', 'NLBJ', 'Broyden']),
    ('ln', ['default', 'Direct', 'LNBGS', 'LNBJ', 'Krylov']),
    ('jac', [None, 'dense', 'csc', 'csr']),
    ('mode', ['fwd', 'rev', 'auto']),
    ('fmt', ['dict', 'flat_dict', 'array']),
    ('wiring', list(models.WIRINGS)),
    ('units', list(models.UNIT_PAIRS)),
    ('dv', ['full', 'idx_list', 'idx_neg', 'idx_slice', 'idx_2d', 'idx_flat2d', 'idx_rows2d']),
    ('resp', ['full', 'idx_list', 'idx_neg', 'idx_slice']),
    ('scaling', ['none', 'ref', 'ref_ref0', 'ref_lt_ref0', 'neg_scaler', 'arr_scaler', 'units']),
    ('api', ['problem', 'problem_dscale', 'driver', 'jacvec']),
    ('rhsck', [None, 'on', 'opts']),
])

BASES = [
    {},
    {'topo': 'cycle_tail', 'kinds': 'mix1'},
    {'topo': 'fanin', 'hier': 'nest2', 'kinds': 'mix2', 'mode': 'rev'},
    {'topo': 'chain', 'hier': 'allG', 'kinds': 'allquad', 'wiring': 'prom2', 'ln': 'Direct',
     'jac': 'csc'},
    {'topo': 'two', 'wiring': 'conn_2d_tuple', 'units': 'degC_degF', 'scaling': 'ref_ref0',
     'api': 'driver', 'mode': 'rev'},
    {'topo': 'cycle2', 'hier': 'cycG', 'kinds': 'allimp', 'nl': 'Newton', 'mode': 'rev'},
    {'topo': 'cycle_tail', 'hier': 'cycG', 'rhsck': 'on', 'mode': 'rev'},
]


def _valid(cfg):
    return True


def cases(tier, seed):
    pal = seed % 3
    k = 2
    out = []
    dims = DIMS
    if tier == 'thorough':
        k = 2
    for b in BASES:
        out.extend(explore.ball(dims, k, base=b))
    # full product of the global dimensions on every base
    glob = collections.OrderedDict((n, DIMS[n]) for n in ('mode', 'jac', 'ln', 'api'))
    for b in BASES:
        for g in explore.product(glob):
            c = dict(b)
            c.update(g)
            for n in DIMS:
                c.setdefault(n, DIMS[n][0])
            out.append(c)
    if tier == 'thorough':
        # 3-ball on the dimensions where interactions are most likely
        sub = collections.OrderedDict((n, DIMS[n]) for n in ('wiring', 'units', 'dv', 'resp',
                                                             'scaling', 'api', 'mode', 'hier'))
        for b in BASES[:3]:
            for c in explore.ball(sub, 3, base={n: b.get(n, DIMS[n][0]) for n in sub}):
                cc = dict(b)
                cc.update(c)
                for n in DIMS:
                    cc.setdefault(n, DIMS[n][0])
                out.append(cc)
        sub2 = collections.OrderedDict((n, DIMS[n]) for n in ('topo', 'kinds', 'partials', 'nl', 'ln',
                                                              'jac', 'mode', 'sparse'))
        for b in BASES[:3]:
            for c in explore.ball(sub2, 3, base={n: b.get(n, DIMS[n][0]) for n in sub2}):
                cc = dict(b)
                cc.update(c)
                for n in DIMS:
                    cc.setdefault(n, DIMS[n][0])
                out.append(cc)
    out = explore.dedupe(out)
    for c in out:
        c['palette'] = pal
    return out


def _sig_class(cfg):
    """structural class = the deviations from the all-default configuration (names only for the
    value-rich dimensions)"""
    parts = []
    for n in DIMS:
        v = cfg.get(n, DIMS[n][0])
        if v != DIMS[n][0]:
            parts.append('%s=%s' % (n, v))
    return ','.join(parts) or 'default'


def _scal(d, n, tab, scaled):
    """factor of a dv/response: driver = (unit(v) + adder) * scaler.  The unit conversion declared on
    a design variable / response is always applied by compute_totals (documented in
    total_jac._identify_unit_active_vars); adder/scaler or ref/ref0 only with driver_scaling."""
    from omv.core.ir import unit_map
    u_model = tab[d['_ref']]['units']
    fac = 1.0
    if d.get('units'):
        fac = unit_map(u_model, d['units'])[0]
    if not scaled:
        return fac * np.ones(n)
    ref, ref0 = d.get('ref'), d.get('ref0')
    if ref is not None or ref0 is not None:
        r0 = 0.0 if ref0 is None else np.asarray(ref0, dtype=float)
        r = 1.0 if ref is None else np.asarray(ref, dtype=float)
        s = 1.0 / (r - r0)
    elif d.get('scaler') is not None:
        s = np.asarray(d['scaler'], dtype=float)
    else:
        s = 1.0
    return fac * (np.ones(n) * s)


def evaluate(cfg, want_detail=False, extra=None, pid='C01', cls=None):
    """returns (outcome, nontrivial, violations).  `extra(prob, spec, ref, U, V)` lets other
    properties (C08, C24) add observations on the same converged model."""
    spec, why = models.spec_from_config(cfg)
    cls = cls or _sig_class(cfg)
    if spec is None:
        return 'skipped:' + why, 0, []
    vio = []

    def V(what, msg):
        vio.append({'sig': '%s:%s:%s' % (pid, what, cls), 'msg': '%s cfg={%s}: %s' % (what, cls, msg),
                    'case': cfg})

    mode = cfg.get('mode', 'fwd')
    ref = ir.Ref(spec)
    buf = io.StringIO()
    try:
        with contextlib.redirect_stdout(buf), contextlib.redirect_stderr(buf):
            prob, info = ir.build(spec, mode=None if mode == 'auto' else mode)
            prob.run_model()
    except Exception as exc:
        if type(exc).__name__ == 'AnalysisError':
            return 'not_converged', 0, vio      # a solver reported non-convergence
        if isinstance(exc, RuntimeError) and ('not full rank' in str(exc) or
                                              'ingular' in str(exc)):
            # an iterate of a Newton-type solver at which the (real) Jacobian of the quadratic
            # model is singular: the solve failed, the property is conditional on convergence
            return 'not_converged:singular_iterate', 0, vio
        V('build_or_run_raises', '%s: %s' % (type(exc).__name__, str(exc)[:300]))
        return 'violation', 0, vio
    U = ir.gather_U(prob, ref)
    st = ~ref.free
    R = ref.residual(U)
    rn = float(np.max(np.abs(R[st]), initial=0.0))
    if not np.isfinite(rn) or rn > 1e-9:
        # every solver reported convergence (no AnalysisError) but the state is not a solution of
        # the model equations
        V('state_not_solution', 'all solvers reported convergence but the reference residual of '
          'the state is %.3e' % rn)
        return 'violation', 0, vio
    if extra is not None:
        extra(prob, spec, ref, U, V)
    tab = ref.tab
    ofs, wrts = [], []
    for r in spec['responses']:
        shape = tab[r['_ref']]['shape']
        pos = None
        if r.get('indices') is not None:
            pos, _ = ir.apply_chain(shape, [(r['indices'], bool(r.get('flat_indices')) or
                                             len(shape) == 1)])
        ofs.append((r['_ref'], pos))
    for d in spec['dvs']:
        shape = tab[d['_ref']]['shape']
        pos = None
        if d.get('indices') is not None:
            pos, _ = ir.apply_chain(shape, [(d['indices'], bool(d.get('flat_indices')) or
                                             len(shape) == 1)])
        wrts.append((d['_ref'], pos))
    api = cfg.get('api', 'problem')
    fmt = cfg.get('fmt', 'dict')
    of_names = [r['name'] for r in spec['responses']]
    wrt_names = [d['name'] for d in spec['dvs']]
    if api == 'jacvec':
        ofs = [(n, None) for n, _ in ofs]
        wrts = [(n, None) for n, _ in wrts]
    Jref = ref.totals(U, ofs, wrts)
    scaled = api in ('problem_dscale', 'driver')
    blocks = {}
    for (on, opos), r in zip(ofs, spec['responses']):
        for (wn, wpos), d in zip(wrts, spec['dvs']):
            B = Jref[(on, wn)]
            if api != 'jacvec':
                so = _scal(r, B.shape[0], tab, scaled)
                sw = _scal(d, B.shape[1], tab, scaled)
                B = (so[:, None] * B) / sw[None, :]
            blocks[(r['name'], d['name'])] = B
    tol = 1e-9
    if cfg.get('partials') == 'fd_central' or cfg.get('approx_sub') == 'fd':
        tol = 2e-6
    got = {}
    try:
        with contextlib.redirect_stdout(buf), contextlib.redirect_stderr(buf):
            if api == 'jacvec':
                jm = 'rev' if mode == 'rev' else 'fwd'
                prob.model.run_linearize()
                sizes_of = [ir.size_of(tab[n]['shape']) for n, _ in ofs]
                sizes_wrt = [ir.size_of(tab[n]['shape']) for n, _ in wrts]
                for (rn_, dn_) in blocks:
                    got[(rn_, dn_)] = np.zeros(blocks[(rn_, dn_)].shape)
                if jm == 'fwd':
                    for wi, dn_ in enumerate(wrt_names):
                        for k in range(sizes_wrt[wi]):
                            seed = {n: np.zeros(tab[w[0]]['shape']) for n, w in zip(wrt_names, wrts)}
                            seed[dn_].flat[k] = 1.0
                            res = prob.compute_jacvec_product(of_names, wrt_names, 'fwd', seed)
                            for rn_ in of_names:
                                got[(rn_, dn_)][:, k] = np.asarray(res[rn_]).ravel()
                else:
                    for oi, rn_ in enumerate(of_names):
                        for k in range(sizes_of[oi]):
                            seed = {n: np.zeros(tab[o[0]]['shape']) for n, o in zip(of_names, ofs)}
                            seed[rn_].flat[k] = 1.0
                            res = prob.compute_jacvec_product(of_names, wrt_names, 'rev', seed)
                            for dn_ in wrt_names:
                                got[(rn_, dn_)][k, :] = np.asarray(res[dn_]).ravel()
            else:
                if api == 'driver':
                    J = prob.driver._compute_totals(return_format=fmt if fmt != 'dict' else 'dict',
                                                    driver_scaling=True)
                elif api == 'problem_dscale':
                    J = prob.compute_totals(return_format=fmt, driver_scaling=True)
                else:
                    J = prob.compute_totals(of=of_names, wrt=wrt_names, return_format=fmt)
                if fmt == 'array':
                    J = np.asarray(J)
                    ro = 0
                    for rn_ in of_names:
                        nr = blocks[(rn_, wrt_names[0])].shape[0]
                        co = 0
                        for dn_ in wrt_names:
                            nc = blocks[(rn_, dn_)].shape[1]
                            got[(rn_, dn_)] = J[ro:ro + nr, co:co + nc]
                            co += nc
                        ro += nr
                    tot_r = sum(blocks[(rn_, wrt_names[0])].shape[0] for rn_ in of_names)
                    tot_c = sum(blocks[(of_names[0], dn_)].shape[1] for dn_ in wrt_names)
                    if J.shape != (tot_r, tot_c):
                        V('array_shape', 'J shape %s expected %s' % (J.shape, (tot_r, tot_c)))
                elif fmt == 'dict':
                    for rn_ in of_names:
                        for dn_ in wrt_names:
                            got[(rn_, dn_)] = np.asarray(J[rn_][dn_])
                else:
                    for rn_ in of_names:
                        for dn_ in wrt_names:
                            got[(rn_, dn_)] = np.asarray(J[rn_, dn_])
    except Exception as exc:
        if type(exc).__name__ == 'AnalysisError':
            return 'not_converged_linear', 0, vio      # a linear solver reported non-convergence
        V('totals_raise', '%s: %s' % (type(exc).__name__, str(exc)[:300]))
        return 'violation', 0, vio
    nz = set()
    for key, B in blocks.items():
        G = got.get(key)
        if G is None or G.shape != B.shape:
            V('block_shape', '%s: got shape %s expected %s' % (key, None if G is None else G.shape,
                                                               B.shape))
            continue
        scale = max(1.0, float(np.max(np.abs(B), initial=0.0)))
        err = float(np.max(np.abs(G - B), initial=0.0))
        if not np.isfinite(err) or err > tol * scale:
            i, j = np.unravel_index(np.argmax(np.abs(G - B)), B.shape)
            V('totals_value', 'd %s / d %s: max abs err %.3e at (%d,%d): got %.12g expected %.12g' % (
                key[0], key[1], err, i, j, G[i, j], B[i, j]))
        nz.update(np.round(B[np.abs(B) > 1e-12], 9).tolist())
    if vio:
        return 'violation', 0, vio
    return 'ok', int(len(nz) >= 2), vio


def check_case(case):
    oc, nt, vio = evaluate(case)
    return {'evals': 1, 'nontrivial': nt, 'outcome': oc, 'violations': vio,
            'sample': _sig_class(case)}
