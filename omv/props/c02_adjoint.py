"""C02 - forward and reverse linear operators are exact adjoints (DESIGN.md 4, C02).

For a linear operator, <w, Jv> = <J^T w, v> for all v, w  <=>  the matrix assembled from the forward
operator on all unit vectors equals the transpose of the matrix assembled from the reverse operator on
all unit vectors.  The quantifier over seeds is therefore decided by a finite enumeration of the basis.
"""
import collections
import contextlib
import io

import numpy as np

from omv.core import explore, ir, models

ID = 'C02'
LEVEL = 'exploration'
TECHNIQUE = ('deviation-bounded enumeration of model configurations; for every linear operator a user '
             'can drive (jacvec product, apply_linear of every system, every group transfer, '
             'solve_linear) the forward and reverse matrices are assembled on the complete unit basis '
             'and compared (duality decided exhaustively over the basis)')
RULE = ('configurations = Hamming ball (quick 1 + selected pairs / thorough 2) around 4 base models over '
        'topology, hierarchy, component kinds, partial format, sparsity, wiring (incl. duplicate '
        'src_indices), units, linear solver, assembled jac, solver scaling; operators = '
        'compute_jacvec_product, run_apply_linear on every group and component, DefaultTransfer fwd/rev '
        'for every group, run_solve_linear at the root; non-trivial = operator matrix has >= 2 '
        'distinct nonzero entries; evals counts operator applications (basis vectors)')
LEVEL_TEXT = ('Pure duality check that needs no reference model: every operator matrix is built twice '
              'from the real code (fwd on the unit basis of the domain, rev on the unit basis of the '
              'range) and must satisfy M_fwd == M_rev^T to round-off; complete over the basis, hence '
              'over all seed vectors, for every configuration in the ball.')
LEVEL_NOTE = 'bounded model sizes; linear solves compared to 1e-9; no MPI (no distributed transfers).'
ASSUMPTIONS = ['iterative linear solvers that report non-convergence (AnalysisError) are skipped',
               'apply_linear of a group is taken as the map (d_outputs, external d_inputs) -> '
               'd_residuals; internally connected inputs are slaved by the transfers']
MIN_NONTRIVIAL = {'quick': 1500, 'thorough': 8000}

SOLVER_SCALING = {
    'none': None,
    'ref': {'c1.y': dict(ref=2.0), 'c2.y': dict(ref=0.5, res_ref=4.0)},
    'ref_ref0': {'c1.y': dict(ref=3.0, ref0=-1.5, res_ref=0.25), 'ivc.p': dict(ref=4.0, ref0=1.0)},
    'neg_arr': {'c1.y': dict(ref=[-2.0, 4.0, 0.5], ref0=[0.5, 0.25, -1.0]),
                'c2.y': dict(ref=0.0, ref0=1.0, res_ref=[2.0, 8.0])},
}

DIMS = collections.OrderedDict([
    ('topo', ['chain', 'fanout', 'fanin', 'cycle2', 'cycle_tail', 'irrel', 'two']),
    ('hier', ['flat', 'nest1', 'nest2', 'allG', 'cycG']),
    ('kinds', ['lin', 'mix1', 'mix2', 'allquad', 'allimp']),
    ('partials', ['dense', 'rowcol', 'coo', 'csr', 'csc', 'matfree', 'cs']),
    ('sparse', [False, True]),
    ('ln', ['default', 'Direct', 'LNBGS', 'LNBJ', 'Krylov']),
    ('jac', [None, 'dense', 'csc', 'csr']),
    ('wiring', ['plain', 'conn_list', 'conn_neg', 'conn_dup', 'conn_slice', 'conn_negstep',
                'conn_2d_tuple', 'conn_2d_row', 'conn_2d_rows', 'conn_2d_flat', 'conn_2d_col',
                'prom1', 'prom2', 'prom2_2d', 'auto', 'auto_idx']),
    ('units', list(models.UNIT_PAIRS)),
    ('sscale', list(SOLVER_SCALING)),
])

BASES = [
    {},
    {'topo': 'cycle_tail', 'kinds': 'mix1', 'wiring': 'conn_dup'},
    {'topo': 'fanin', 'hier': 'nest2', 'kinds': 'mix2', 'units': 'degC_degF', 'sscale': 'ref_ref0'},
    {'topo': 'chain', 'hier': 'allG', 'kinds': 'allquad', 'wiring': 'prom2', 'ln': 'Direct',
     'jac': 'csc', 'sscale': 'neg_arr'},
]


def cases(tier, seed):
    pal = seed % 3
    out = []
    k = 1 if tier == 'quick' else 2
    for b in BASES:
        out.extend(explore.ball(DIMS, k, base=b))
    if tier == 'quick':
        pairs = collections.OrderedDict((n, DIMS[n]) for n in ('wiring', 'units', 'sscale', 'partials'))
        for b in BASES[:2]:
            for c in explore.ball(pairs, 2, base={n: b.get(n, DIMS[n][0]) for n in pairs}):
                cc = dict(b)
                cc.update(c)
                for n in DIMS:
                    cc.setdefault(n, DIMS[n][0])
                out.append(cc)
    out = explore.dedupe(out)
    for c in out:
        c['palette'] = pal
    return out


def _cls(cfg):
    parts = []
    for n in DIMS:
        v = cfg.get(n, DIMS[n][0])
        if v != DIMS[n][0]:
            parts.append('%s=%s' % (n, v))
    return ','.join(parts) or 'default'


def _ranges(vec, names):
    out = []
    for n in names:
        try:
            a, b = vec.get_range(n)
        except Exception:
            continue
        out.extend(range(a, b))
    return np.asarray(out, dtype=int)


def _sys_operator(s, model, mode, ext_in_idx):
    """matrix of apply_linear for system s.  fwd: columns = [d_outputs | ext d_inputs] -> d_residuals;
    rev: rows (d_residuals unit vectors) -> [d_outputs | ext d_inputs]."""
    dout, din, dres = s._doutputs, s._dinputs, s._dresiduals
    n_o = dout.asarray().size
    n_i = ext_in_idx.size
    n_r = dres.asarray().size
    if mode == 'fwd':
        M = np.zeros((n_r, n_o + n_i))
        for j in range(n_o + n_i):
            dout.set_val(0.0)
            din.set_val(0.0)
            dres.set_val(0.0)
            if j < n_o:
                dout.asarray()[j] = 1.0
            else:
                din.asarray()[ext_in_idx[j - n_o]] = 1.0
            s.run_apply_linear('fwd')
            M[:, j] = dres.asarray()
    else:
        M = np.zeros((n_r, n_o + n_i))
        for i in range(n_r):
            dout.set_val(0.0)
            din.set_val(0.0)
            dres.set_val(0.0)
            dres.asarray()[i] = 1.0
            s.run_apply_linear('rev')
            M[i, :n_o] = dout.asarray()
            if n_i:
                M[i, n_o:] = din.asarray()[ext_in_idx]
    dout.set_val(0.0)
    din.set_val(0.0)
    dres.set_val(0.0)
    return M


def _transfer_operator(g, mode):
    dout, din = g._doutputs, g._dinputs
    n_o = dout.asarray().size
    n_i = din.asarray().size
    T = np.zeros((n_i, n_o))
    if mode == 'fwd':
        for j in range(n_o):
            dout.set_val(0.0)
            din.set_val(0.0)
            dout.asarray()[j] = 1.0
            with g._scaled_context_all():     # as the framework calls it: on scaled vectors
                g._transfer('linear', 'fwd')
            T[:, j] = din.asarray()
    else:
        for i in range(n_i):
            dout.set_val(0.0)
            din.set_val(0.0)
            din.asarray()[i] = 1.0
            with g._scaled_context_all():
                g._transfer('linear', 'rev')
            T[i, :] = dout.asarray()
    dout.set_val(0.0)
    din.set_val(0.0)
    return T


def _solve_operator(model, mode):
    dout, dres = model._doutputs, model._dresiduals
    n = dout.asarray().size
    S = np.zeros((n, n))
    for j in range(n):
        dout.set_val(0.0)
        dres.set_val(0.0)
        model._dinputs.set_val(0.0)
        if mode == 'fwd':
            dres.asarray()[j] = 1.0
            model.run_solve_linear('fwd')
            S[:, j] = dout.asarray()
        else:
            dout.asarray()[j] = 1.0
            model.run_solve_linear('rev')
            S[j, :] = dres.asarray()
    dout.set_val(0.0)
    dres.set_val(0.0)
    return S


def check_case(cfg):
    import openmdao.api as om
    cls = _cls(cfg)
    c2 = dict(cfg)
    c2['solver_scaling'] = SOLVER_SCALING[cfg.get('sscale', 'none')]
    spec, why = models.spec_from_config(c2)
    if spec is None:
        return {'evals': 0, 'outcome': 'skipped:' + why, 'violations': []}
    vio = []

    def V(what, msg):
        vio.append({'sig': 'C02:%s:%s' % (what, cls), 'case': cfg,
                    'msg': '%s cfg={%s}: %s' % (what, cls, msg)})
    buf = io.StringIO()
    try:
        with contextlib.redirect_stdout(buf), contextlib.redirect_stderr(buf):
            prob, info = ir.build(spec, mode='rev')
            prob.run_model()
            prob.model.run_linearize()
    except Exception as exc:
        if type(exc).__name__ == 'AnalysisError':
            return {'evals': 0, 'outcome': 'not_converged', 'violations': []}
        V('build_or_run_raises', '%s: %s' % (type(exc).__name__, str(exc)[:300]))
        return {'evals': 1, 'outcome': 'violation', 'violations': vio}
    model = prob.model
    evals = 0
    nontriv = 0
    ops = collections.Counter()

    def compare(name, A, B, tol):
        nonlocal nontriv
        scale = max(1.0, float(np.max(np.abs(A), initial=0.0)))
        if A.shape != B.shape:
            V(name + '_shape', 'fwd %s rev %s' % (A.shape, B.shape))
            return
        err = float(np.max(np.abs(A - B), initial=0.0))
        if not np.isfinite(err) or err > tol * scale:
            i, j = np.unravel_index(np.argmax(np.abs(A - B)), A.shape)
            V(name, 'fwd and rev operators differ: max err %.3e at (%d,%d): fwd %.10g rev %.10g' % (
                err, i, j, A[i, j], B[i, j]))
        nz = np.unique(np.round(A[np.abs(A) > 1e-13], 9))
        if nz.size >= 2:
            nontriv += 1
        ops[name.split(':')[0]] += 1

    try:
        with contextlib.redirect_stdout(buf), contextlib.redirect_stderr(buf):
            conns = model._conn_global_abs_in2out
            # (b) apply_linear of every system
            for s in model.system_iter(include_self=True, recurse=True):
                if isinstance(s, om.IndepVarComp) or s.pathname.startswith('_auto_ivc'):
                    continue
                outs = set(s._var_allprocs_abs2meta['output'])
                ext = [n for n in s._var_allprocs_abs2meta['input']
                       if conns.get(n) not in outs]
                ext_idx = _ranges(s._dinputs, ext)
                Mf = _sys_operator(s, model, 'fwd', ext_idx)
                Mr = _sys_operator(s, model, 'rev', ext_idx)
                evals += Mf.shape[0] + Mf.shape[1]
                kind = 'group' if isinstance(s, om.Group) else 'comp'
                compare('apply_linear_%s:%s' % (kind, s.pathname or 'root'), Mf, Mr, 1e-11)
            # (c) transfers of every group
            for s in model.system_iter(include_self=True, recurse=True, typ=om.Group):
                Tf = _transfer_operator(s, 'fwd')
                Tr = _transfer_operator(s, 'rev')
                evals += Tf.shape[0] + Tf.shape[1]
                compare('transfer:%s' % (s.pathname or 'root'), Tf, Tr, 1e-13)
            # (d) solve_linear at the root
            try:
                Sf = _solve_operator(model, 'fwd')
                Sr = _solve_operator(model, 'rev')
                evals += 2 * Sf.shape[0]
                compare('solve_linear:root', Sf, Sr, 1e-9)
            except om.AnalysisError:
                ops['solve_not_converged'] += 1
            # (a) jacvec products on the driver view
            tab = ir.var_table(spec)
            of_names = [r['name'] for r in spec['responses']]
            wrt_names = [d['name'] for d in spec['dvs']]
            of_sz = [ir.size_of(tab[r['_ref']]['shape']) for r in spec['responses']]
            of_sh = [tab[r['_ref']]['shape'] for r in spec['responses']]
            wrt_sz = [ir.size_of(tab[d['_ref']]['shape']) for d in spec['dvs']]
            wrt_sh = [tab[d['_ref']]['shape'] for d in spec['dvs']]
            Jf = np.zeros((sum(of_sz), sum(wrt_sz)))
            Jr = np.zeros_like(Jf)
            try:
                col = 0
                for wi, wn in enumerate(wrt_names):
                    for k in range(wrt_sz[wi]):
                        seed = {n: np.zeros(sh) for n, sh in zip(wrt_names, wrt_sh)}
                        seed[wn].flat[k] = 1.0
                        res = prob.compute_jacvec_product(of_names, wrt_names, 'fwd', seed)
                        Jf[:, col] = np.concatenate([np.asarray(res[n]).ravel() for n in of_names])
                        col += 1
                row = 0
                for oi, on in enumerate(of_names):
                    for k in range(of_sz[oi]):
                        seed = {n: np.zeros(sh) for n, sh in zip(of_names, of_sh)}
                        seed[on].flat[k] = 1.0
                        res = prob.compute_jacvec_product(of_names, wrt_names, 'rev', seed)
                        Jr[row, :] = np.concatenate([np.asarray(res[n]).ravel() for n in wrt_names])
                        row += 1
                evals += Jf.shape[0] + Jf.shape[1]
                compare('jacvec:root', Jf, Jr, 1e-9)
            except om.AnalysisError:
                ops['jacvec_not_converged'] += 1
    except Exception as exc:
        import traceback
        V('operator_raises', '%s: %s | %s' % (type(exc).__name__, str(exc)[:200],
                                             traceback.format_exc()[-400:]))
    oc = dict(ops)
    if vio:
        oc = {'violation': 1}
    return {'evals': evals, 'nontrivial': nontriv if not vio else 0, 'outcome': oc or 'ok',
            'violations': vio, 'sample': cls}
