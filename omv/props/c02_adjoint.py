"""C02 - forward and reverse linear operators are exact adjoints (DESIGN.md 4, C02).

For a linear operator, <w, Jv> = <J^T w, v> for all v, w  <=>  the matrix assembled from the forward
operator on all unit vectors equals the transpose of the matrix assembled from the reverse operator on
all unit vectors.  The quantifier over seeds is therefore decided by a finite enumeration of the basis.
"""
import collections
import contextlib
import io

import numpy as np

from omv.core import explore, ir, models

ID = 'C02'
LEVEL = 'exploration'
TECHNIQUE = ('deviation-bounded enumeration of model configurations; for every linear operator a user '
             'can drive (jacvec product, apply_linear of every system, every group transfer, '
             'solve_linear) the forward and reverse matrices are assembled on the complete unit basis '
             'and compared (duality decided exhaustively over the basis)')
RULE = ('configurations = Hamming ball (quick 1 + selected pairs / thorough 2) around 4 base models over '
        'topology, hierarchy, component kinds, partial format, sparsity, wiring (incl. duplicate '
        'src_indices), units, linear solver, assembled jac, solver scaling; operators = '
        'compute_jacvec_product, run_apply_linear on every group and component, DefaultTransfer fwd/rev '
        'for every group, run_solve_linear at the root; non-trivial = operator matrix has >= 2 '
        'distinct nonzero entries; evals counts operator applications (basis vectors)')
LEVEL_TEXT = ('Pure duality check that needs no reference model: every operator matrix is built twice '
              'from the real code (fwd on the unit basis of the domain, rev on the unit basis of the '
              'range) and must satisfy M_fwd == M_rev^T to round-off; complete over the basis, hence '
              'over all seed vectors, for every configuration in the ball.')
LEVEL_NOTE = 'bounded model sizes; linear solves compared to 1e-9; no MPI (no distributed transfers).'
ASSUMPTIONS = ['iterative linear solvers that report non-convergence (AnalysisError) are skipped',
               'apply_linear of a group is taken as the map (d_outputs, external d_inputs) -> '
               'd_residuals; internally connected inputs are slaved by the transfers']
MIN_NONTRIVIAL = {'quick': 1500, 'thorough': 8000}

SOLVER_SCALING = {
    'none': None,
    'ref': {'c1.y': dict(ref=2.0), 'c2.y': dict(ref=0.5, res_ref=4.0)},
    'ref_ref0': {'c1.y': dict(ref=3.0, ref0=-1.5, res_ref=0.25), 'ivc.p': dict(ref=4.0, ref0=1.0)},
    'neg_arr': {'c1.y': dict(ref=[-2.0, 4.0, 0.5], ref0=[0.5, 0.25, -1.0]),
                'c2.y': dict(ref=0.0, ref0=1.0, res_ref=[2.0, 8.0])},
    # output scaling without residual scaling (res_ref stays 1)
    'ref_res1': {'c1.y': dict(ref=2.5, res_ref=1.0), 'c2.y': dict(ref0=0.5, res_ref=1.0),
                 'c3.y': dict(ref=-4.0, res_ref=1.0)},
}

DIMS = collections.OrderedDict([
    ('topo', ['chain', 'fanout', 'fanin', 'cycle2', 'cycle_tail', 'irrel', 'two']),
    ('hier', ['flat', 'nest1', 'nest2', 'allG', 'cycG']),
    ('kinds', ['lin', 'mix1', 'mix2', 'allquad', 'allimp']),
    ('partials', ['dense', 'rowcol', 'coo', 'csr', 'csc', 'matfree', 'cs']),
    ('sparse', [False, True]),
    ('ln', ['default', 'Direct', 'LNBGS', 'LNBJ', 'Krylov']),
    ('jac', [None, 'dense', 'csc', 'csr']),
    ('wiring', ['plain', 'conn_list', 'conn_neg', 'conn_dup', 'conn_slice', 'conn_negstep',
                'conn_2d_tuple', 'conn_2d_row', 'conn_2d_rows', 'conn_2d_flat', 'conn_2d_col',
                'prom1', 'prom2', 'prom2_2d', 'auto', 'auto_idx']),
    ('units', list(models.UNIT_PAIRS)),
    ('sscale', list(SOLVER_SCALING)),
])

BASES = [
    {},
    {'topo': 'cycle_tail', 'kinds': 'mix1', 'wiring': 'conn_dup'},
    {'topo': 'fanin', 'hier': 'nest2', 'kinds': 'mix2', 'units': 'degC_degF', 'sscale': 'ref_ref0'},
    {'topo': 'chain', 'hier': 'allG', 'kinds': 'allquad', 'wiring': 'prom2', 'ln': 'Direct',
     'jac': 'csc', 'sscale': 'neg_arr'},
]


def cases(tier, seed):
    pal = seed % 3
    out = []
    k = 1 if tier == 'quick' else 2
    for b in BASES:
        out.extend(explore.ball(DIMS, k, base=b))
    if tier == 'quick':
        pairs = collections.OrderedDict((n, DIMS[n]) for n in ('wiring', 'units', 'sscale', 'partials'))
        for b in BASES[:2]:
            for c in explore.ball(pairs, 2, base={n: b.get(n, DIMS[n][0]) for n in pairs}):
                cc = dict(b)
                cc.update(c)
                for n in DIMS:
                    cc.setdefault(n, DIMS[n][0])
                out.append(cc)
    out = explore.dedupe(out)
    for c in out:
        c['palette'] = pal
    # implicit component with two states and cross partials in every declaration format
    for fa in TS_FMTS:
        for fb in TS_FMTS:
            for ln in TS_LN:
                for k, fuu in enumerate(TS_FMTS):
                    if tier == 'quick' and (TS_FMTS.index(fa) + TS_FMTS.index(fb) + k) % 3:
                        continue
                    out.append({'twostate': True, 'fmt_uu': fuu, 'fmt_uv': fa, 'fmt_vu': fb,
                                'ln': ln, 'perm': (k % 2 == 0), 'units': (k % 3 == 0),
                                'palette': pal})
    return out


TS_FMTS = ['diag', 'rowcol', 'dense', 'coo', 'csr', 'csc']
TS_LN = ['Krylov', 'LNBGS', 'Direct_noasm', 'Direct', 'LNBJ']


def _twostate_problem(case):
    """one implicit component with two states whose cross partials are declared in `fmt`"""
    import openmdao.api as om
    import scipy.sparse as sp
    n = 3
    fa, fb = case['fmt_uv'], case['fmt_vu']
    du = np.array([4.0, 5.5, 3.25])
    e = np.array([0.5, -0.75, 1.25])
    f = np.array([-0.375, 0.625, 0.875])
    M = ir.diag_dominant(n, 3, case.get('palette', 0))
    A = ir.gen_matrix(n, n, 5, case.get('palette', 0), 0.25)
    rows = cols = np.arange(n)

    def decl(comp, of, wrt, fmt):
        if fmt == 'diag':
            comp.declare_partials(of, wrt, diagonal=True)
        elif fmt == 'rowcol':
            comp.declare_partials(of, wrt, rows=rows, cols=cols)
        elif fmt == 'dense':
            comp.declare_partials(of, wrt)
        else:
            m = sp.coo_matrix((np.ones(n), (rows, cols)), shape=(n, n))
            comp.declare_partials(of, wrt, val={'coo': m, 'csr': m.tocsr(), 'csc': m.tocsc()}[fmt])

    def val(fmt, d):
        if fmt in ('diag', 'rowcol'):
            return d
        if fmt == 'dense':
            return np.diag(d)
        m = sp.coo_matrix((d, (rows, cols)), shape=(n, n))
        return {'coo': m, 'csr': m.tocsr(), 'csc': m.tocsc()}[fmt]

    class TwoState(om.ImplicitComponent):
        def setup(self):
            self.add_input('x', np.ones(n), units='cm' if case['units'] else None)
            self.add_output('u', np.ones(n))
            self.add_output('v', np.ones(n))
            decl(self, 'u', 'u', case['fmt_uu'])
            decl(self, 'u', 'v', fa)
            decl(self, 'v', 'u', fb)
            self.declare_partials('v', 'v')
            self.declare_partials('u', 'x')

        def apply_nonlinear(self, i, o, r):
            r['u'] = du * o['u'] + e * o['v'] - A @ i['x']
            r['v'] = M @ o['v'] + f * o['u'] - 1.5

        def linearize(self, i, o, J):
            J['u', 'u'] = val(case['fmt_uu'], du)
            J['u', 'v'] = val(fa, e)
            J['v', 'u'] = val(fb, f)
            J['v', 'v'] = M
            J['u', 'x'] = -A

    p = om.Problem(reports=None)
    p.model.add_subsystem('ivc', om.IndepVarComp('p', np.array([0.5, -1.25, 2.0]),
                                                 units='m' if case['units'] else None))
    p.model.add_subsystem('c', TwoState())
    p.model.add_subsystem('d', om.ExecComp('z = 2.0*u + 3.0*v', u=np.ones(n), v=np.ones(n),
                                           z=np.ones(n)))
    p.model.connect('ivc.p', 'c.x', src_indices=[2, 0, 1] if case['perm'] else None)
    p.model.connect('c.u', 'd.u')
    p.model.connect('c.v', 'd.v', src_indices=[1, 1, 0] if case['perm'] else None)
    ln = case['ln']
    if ln == 'Krylov':
        p.model.linear_solver = om.ScipyKrylov(atol=1e-14, rtol=1e-14, maxiter=200)
    elif ln == 'LNBGS':
        p.model.linear_solver = om.LinearBlockGS(atol=1e-14, rtol=1e-14, maxiter=300)
        p.model.c.linear_solver = om.DirectSolver(assemble_jac=False)
    elif ln == 'LNBJ':
        p.model.linear_solver = om.LinearBlockJac(atol=1e-14, rtol=1e-14, maxiter=500)
        p.model.c.linear_solver = om.DirectSolver(assemble_jac=False)
    elif ln == 'Direct_noasm':
        p.model.linear_solver = om.DirectSolver(assemble_jac=False)
    else:
        p.model.linear_solver = om.DirectSolver()
    p.model.nonlinear_solver = om.NewtonSolver(solve_subsystems=False, iprint=-1, maxiter=20,
                                               atol=1e-13, rtol=1e-13)
    p.setup(mode='rev')
    p.run_model()
    p.model.run_linearize()
    return p


def _check_twostate(case):
    import openmdao.api as om
    cls = 'twostate/%s/%s/%s/%s%s%s' % (case['fmt_uu'], case['fmt_uv'], case['fmt_vu'], case['ln'],
                                        '/perm' if case['perm'] else '',
                                        '/units' if case['units'] else '')
    vio = []
    buf = io.StringIO()
    try:
        with contextlib.redirect_stdout(buf), contextlib.redirect_stderr(buf):
            pf = _twostate_problem(case)
            pr = _twostate_problem(case)
    except Exception as exc:
        return {'evals': 1, 'outcome': 'violation', 'violations': [{
            'sig': 'C02:build_or_run_raises:' + cls, 'case': case,
            'msg': '%s: %s' % (type(exc).__name__, str(exc)[:300])}]}
    evals = nontriv = 0
    none = np.zeros(0, dtype=int)
    try:
        with contextlib.redirect_stdout(buf), contextlib.redirect_stderr(buf):
            for path in ('', 'c'):
                sf = pf.model if not path else pf.model.c
                sr = pr.model if not path else pr.model.c
                ext = none
                if path:
                    ext = _ranges(sf._dinputs, list(sf._var_allprocs_abs2meta['input']))
                Mr = _sys_operator(sr, pr.model, 'rev', ext)        # reverse first, fresh problem
                Mf = _sys_operator(sf, pf.model, 'fwd', ext)
                evals += Mf.shape[0] + Mf.shape[1]
                err = float(np.max(np.abs(Mf - Mr)))
                if not np.isfinite(err) or err > 1e-11 * max(1.0, float(np.max(np.abs(Mf)))):
                    i, j = np.unravel_index(np.argmax(np.abs(Mf - Mr)), Mf.shape)
                    vio.append({'sig': 'C02:apply_linear_%s:%s' % ('comp' if path else 'group', cls),
                                'case': case, 'msg': 'twostate %s: fwd and rev operators of %r differ: '
                                'max err %.3e at (%d,%d): fwd %.10g rev %.10g' % (
                                    cls, path or 'root', err, i, j, Mf[i, j], Mr[i, j])})
                nontriv += 1
            Sr = _solve_operator(pr.model, 'rev')
            Sf = _solve_operator(pf.model, 'fwd')
            evals += 2 * Sf.shape[0]
            err = float(np.max(np.abs(Sf - Sr)))
            if not np.isfinite(err) or err > 1e-9 * max(1.0, float(np.max(np.abs(Sf)))):
                i, j = np.unravel_index(np.argmax(np.abs(Sf - Sr)), Sf.shape)
                vio.append({'sig': 'C02:solve_linear:%s' % cls, 'case': case,
                            'msg': 'twostate %s: fwd and rev solves differ: max err %.3e at (%d,%d): '
                            'fwd %.10g rev %.10g' % (cls, err, i, j, Sf[i, j], Sr[i, j])})
            nontriv += 1
    except om.AnalysisError:
        return {'evals': evals, 'outcome': 'not_converged', 'violations': []}
    return {'evals': evals, 'nontrivial': nontriv if not vio else 0,
            'outcome': {'violation': 1} if vio else {'twostate': 1}, 'violations': vio, 'sample': cls}


def _cls(cfg):
    parts = []
    for n in DIMS:
        v = cfg.get(n, DIMS[n][0])
        if v != DIMS[n][0]:
            parts.append('%s=%s' % (n, v))
    return ','.join(parts) or 'default'


def _ranges(vec, names):
    out = []
    for n in names:
        try:
            a, b = vec.get_range(n)
        except Exception:
            continue
        out.extend(range(a, b))
    return np.asarray(out, dtype=int)


def _sys_operator(s, model, mode, ext_in_idx):
    """matrix of apply_linear for system s.  fwd: columns = [d_outputs | ext d_inputs] -> d_residuals;
    rev: rows (d_residuals unit vectors) -> [d_outputs | ext d_inputs]."""
    dout, din, dres = s._doutputs, s._dinputs, s._dresiduals
    n_o = dout.asarray().size
    n_i = ext_in_idx.size
    n_r = dres.asarray().size
    if mode == 'fwd':
        M = np.zeros((n_r, n_o + n_i))
        for j in range(n_o + n_i):
            dout.set_val(0.0)
            din.set_val(0.0)
            dres.set_val(0.0)
            if j < n_o:
                dout.asarray()[j] = 1.0
            else:
                din.asarray()[ext_in_idx[j - n_o]] = 1.0
            s.run_apply_linear('fwd')
            M[:, j] = dres.asarray()
    else:
        M = np.zeros((n_r, n_o + n_i))
        for i in range(n_r):
            dout.set_val(0.0)
            din.set_val(0.0)
            dres.set_val(0.0)
            dres.asarray()[i] = 1.0
            s.run_apply_linear('rev')
            M[i, :n_o] = dout.asarray()
            if n_i:
                M[i, n_o:] = din.asarray()[ext_in_idx]
    dout.set_val(0.0)
    din.set_val(0.0)
    dres.set_val(0.0)
    return M


def _transfer_operator(g, mode):
    dout, din = g._doutputs, g._dinputs
    n_o = dout.asarray().size
    n_i = din.asarray().size
    T = np.zeros((n_i, n_o))
    if mode == 'fwd':
        for j in range(n_o):
            dout.set_val(0.0)
            din.set_val(0.0)
            dout.asarray()[j] = 1.0
            with g._scaled_context_all():     # as the framework calls it: on scaled vectors
                g._transfer('linear', 'fwd')
            T[:, j] = din.asarray()
    else:
        for i in range(n_i):
            dout.set_val(0.0)
            din.set_val(0.0)
            din.asarray()[i] = 1.0
            with g._scaled_context_all():
                g._transfer('linear', 'rev')
            T[i, :] = dout.asarray()
    dout.set_val(0.0)
    din.set_val(0.0)
    return T


def _solve_operator(model, mode):
    dout, dres = model._doutputs, model._dresiduals
    n = dout.asarray().size
    S = np.zeros((n, n))
    for j in range(n):
        dout.set_val(0.0)
        dres.set_val(0.0)
        model._dinputs.set_val(0.0)
        if mode == 'fwd':
            dres.asarray()[j] = 1.0
            model.run_solve_linear('fwd')
            S[:, j] = dout.asarray()
        else:
            dout.asarray()[j] = 1.0
            model.run_solve_linear('rev')
            S[j, :] = dres.asarray()
    dout.set_val(0.0)
    dres.set_val(0.0)
    return S


def check_case(cfg):
    import openmdao.api as om
    if cfg.get('twostate'):
        return _check_twostate(cfg)
    cls = _cls(cfg)
    c2 = dict(cfg)
    c2['solver_scaling'] = SOLVER_SCALING[cfg.get('sscale', 'none')]
    spec, why = models.spec_from_config(c2)
    if spec is None:
        return {'evals': 0, 'outcome': 'skipped:' + why, 'violations': []}
    vio = []

    def V(what, msg):
        vio.append({'sig': 'C02:%s:%s' % (what, cls), 'case': cfg,
                    'msg': '%s cfg={%s}: %s' % (what, cls, msg)})
    buf = io.StringIO()
    try:
        with contextlib.redirect_stdout(buf), contextlib.redirect_stderr(buf):
            prob, info = ir.build(spec, mode='rev')
            prob.run_model()
            prob.model.run_linearize()
    except Exception as exc:
        if type(exc).__name__ == 'AnalysisError':
            return {'evals': 0, 'outcome': 'not_converged', 'violations': []}
        V('build_or_run_raises', '%s: %s' % (type(exc).__name__, str(exc)[:300]))
        return {'evals': 1, 'outcome': 'violation', 'violations': vio}
    model = prob.model
    # the reverse operators are taken from a second, fresh Problem so that views and caches
    # filled by a forward application cannot hide a wrong reverse path (and vice versa)
    try:
        with contextlib.redirect_stdout(buf), contextlib.redirect_stderr(buf):
            prob_r, _ = ir.build(spec, mode='rev')
            prob_r.run_model()
            prob_r.model.run_linearize()
    except Exception as exc:
        V('build_or_run_raises', 'second build: %s: %s' % (type(exc).__name__, str(exc)[:300]))
        return {'evals': 1, 'outcome': 'violation', 'violations': vio}
    model_r = prob_r.model
    sys_r = {s_.pathname: s_ for s_ in model_r.system_iter(include_self=True, recurse=True)}
    evals = 0
    nontriv = 0
    ops = collections.Counter()

    def compare(name, A, B, tol):
        nonlocal nontriv
        scale = max(1.0, float(np.max(np.abs(A), initial=0.0)))
        if A.shape != B.shape:
            V(name + '_shape', 'fwd %s rev %s' % (A.shape, B.shape))
            return
        err = float(np.max(np.abs(A - B), initial=0.0))
        if not np.isfinite(err) or err > tol * scale:
            i, j = np.unravel_index(np.argmax(np.abs(A - B)), A.shape)
            V(name, 'fwd and rev operators differ: max err %.3e at (%d,%d): fwd %.10g rev %.10g' % (
                err, i, j, A[i, j], B[i, j]))
        nz = np.unique(np.round(A[np.abs(A) > 1e-13], 9))
        if nz.size >= 2:
            nontriv += 1
        ops[name.split(':')[0]] += 1

    try:
        with contextlib.redirect_stdout(buf), contextlib.redirect_stderr(buf):
            conns = model._conn_global_abs_in2out
            # (b) apply_linear of every system
            for s in model.system_iter(include_self=True, recurse=True):
                if isinstance(s, om.IndepVarComp) or s.pathname.startswith('_auto_ivc'):
                    continue
                outs = set(s._var_allprocs_abs2meta['output'])
                ext = [n for n in s._var_allprocs_abs2meta['input']
                       if conns.get(n) not in outs]
                ext_idx = _ranges(s._dinputs, ext)
                Mr = _sys_operator(sys_r[s.pathname], model_r, 'rev', ext_idx)
                Mf = _sys_operator(s, model, 'fwd', ext_idx)
                evals += Mf.shape[0] + Mf.shape[1]
                kind = 'group' if isinstance(s, om.Group) else 'comp'
                compare('apply_linear_%s:%s' % (kind, s.pathname or 'root'), Mf, Mr, 1e-11)
            # (c) transfers of every group
            for s in model.system_iter(include_self=True, recurse=True, typ=om.Group):
                Tr = _transfer_operator(sys_r[s.pathname], 'rev')
                Tf = _transfer_operator(s, 'fwd')
                evals += Tf.shape[0] + Tf.shape[1]
                compare('transfer:%s' % (s.pathname or 'root'), Tf, Tr, 1e-13)
            # (d) solve_linear at the root
            try:
                Sr = _solve_operator(model_r, 'rev')
                Sf = _solve_operator(model, 'fwd')
                evals += 2 * Sf.shape[0]
                compare('solve_linear:root', Sf, Sr, 1e-9)
            except om.AnalysisError:
                ops['solve_not_converged'] += 1
            # (a) jacvec products on the driver view
            tab = ir.var_table(spec)
            of_names = [r['name'] for r in spec['responses']]
            wrt_names = [d['name'] for d in spec['dvs']]
            of_sz = [ir.size_of(tab[r['_ref']]['shape']) for r in spec['responses']]
            of_sh = [tab[r['_ref']]['shape'] for r in spec['responses']]
            wrt_sz = [ir.size_of(tab[d['_ref']]['shape']) for d in spec['dvs']]
            wrt_sh = [tab[d['_ref']]['shape'] for d in spec['dvs']]
            Jf = np.zeros((sum(of_sz), sum(wrt_sz)))
            Jr = np.zeros_like(Jf)
            try:
                col = 0
                for wi, wn in enumerate(wrt_names):
                    for k in range(wrt_sz[wi]):
                        seed = {n: np.zeros(sh) for n, sh in zip(wrt_names, wrt_sh)}
                        seed[wn].flat[k] = 1.0
                        res = prob.compute_jacvec_product(of_names, wrt_names, 'fwd', seed)
                        Jf[:, col] = np.concatenate([np.asarray(res[n]).ravel() for n in of_names])
                        col += 1
                row = 0
                for oi, on in enumerate(of_names):
                    for k in range(of_sz[oi]):
                        seed = {n: np.zeros(sh) for n, sh in zip(of_names, of_sh)}
                        seed[on].flat[k] = 1.0
                        res = prob_r.compute_jacvec_product(of_names, wrt_names, 'rev', seed)
                        Jr[row, :] = np.concatenate([np.asarray(res[n]).ravel() for n in wrt_names])
                        row += 1
                evals += Jf.shape[0] + Jf.shape[1]
                compare('jacvec:root', Jf, Jr, 1e-9)
            except om.AnalysisError:
                ops['jacvec_not_converged'] += 1
    except Exception as exc:
        import traceback
        V('operator_raises', '%s: %s | %s' % (type(exc).__name__, str(exc)[:200],
                                             traceback.format_exc()[-400:]))
    oc = dict(ops)
    if vio:
        oc = {'violation': 1}
    return {'evals': evals, 'nontrivial': nontriv if not vio else 0, 'outcome': oc or 'ok',
            'violations': vio, 'sample': cls}
