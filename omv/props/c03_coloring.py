"""C03 - simultaneous-derivative coloring reconstructs every Jacobian entry (DESIGN.md section 4, C03).

Algorithm level: every boolean sparsity pattern within the bounded shapes x {fwd, rev, auto} x
{direct, substitution} (plus the raw bidirectional partition `MNCO_bidir`, which `auto` hides behind
its fallback): the real `_compute_coloring` is called, then the Jacobian is recovered from the
compressed products J.V / W^T.J with the framework's own bookkeeping (`Coloring.modes`,
`color_iter`, `get_row_col_map`, `color_nonzero_iter`, `tangent_matrix`, `colored_jac_iter`,
`_expand_jac`, `_apply_subtractions`).  The recovery is run *symbolically*: the matrix entry of the
k-th nonzero is the k-th unit vector of Z^nnz, so "recovered == original" holds iff the (linear)
recovery map is the identity, i.e. for EVERY matrix with that pattern, not only for one probe.

Model level: patterns embedded in a one-component model; colored totals (driver.declare_coloring,
fwd / rev / bidirectional direct / bidirectional substitution, approx_totals fd/cs) and colored
partials (component.declare_coloring fd/cs, ExecComp's own colored complex step) must equal the
uncolored ones, without scaling, with distinct per-entry driver scalers and with unit conversions.
"""
import collections
import contextlib
import glob
import io
import os
import shutil
import warnings

import numpy as np

ID = 'C03'
LEVEL = 'exploration'
TECHNIQUE = ('exhaustive enumeration of boolean sparsity patterns; symbolic (unit-vector valued) '
             'recovery through the real Coloring bookkeeping; differential colored-vs-uncolored '
             'totals/partials on one-component models')
RULE = ('algorithm level: every boolean r x c pattern of the bounded shapes x 11 (mode, method, '
        'input form) combinations, one evaluation = one coloring + all its recovery paths; '
        'non-trivial = the coloring compresses (fewer solves than rows/columns of the requested '
        'mode) or is bidirectional.  Model level: every (pattern, variable split, scaling, '
        'derivative configuration), one evaluation = one colored Problem compared with its '
        'uncolored twin; non-trivial = a coloring was actually used and it needs fewer solves '
        'than the uncolored computation.  Each tuple is enumerated once.')
LEVEL_TEXT = ('All sparsity patterns up to the bounded shapes are enumerated completely (no sampling) '
              'and for each one the recovery map of the real coloring is decided for all matrices '
              'of that pattern at once (linearity + unit-vector probes); greedy-colouring, '
              'partition and subtraction-order mistakes need only a handful of rows/columns to '
              'show, so small-scope exhaustiveness is the right level.  The model level closes the '
              'gap to what a user sees (compute_totals / partials with and without coloring).')
LEVEL_NOTE = ('Trusted: NumPy, the harness component (y = A x) and the uncolored derivative path '
              '(it is the reference of the differential model-level oracle, and is itself compared '
              'with A in the unscaled configuration).  Patterns larger than the bound are only '
              'covered by the 64 structured patterns; no MPI.')
ASSUMPTIONS = [
    'algorithm level shapes: r,c <= 3 plus 3x4, 4x3 (quick); r,c <= 4 plus 3x5, 5x3, 2x6, 6x2 '
    '(thorough); plus 64 structured patterns up to 7x6 in both tiers',
    'the "uncolored count" is the number of columns (fwd), rows (rev), min(rows, columns) (auto)',
    'the raw MNCO_bidir partition must be a valid coloring too (it is what auto uses whenever it '
    'wins); its solve count is not bounded (the fallback does that)',
    '_expand_jac is only defined for one-directional colorings and is only called for those',
    'model level: the all-zero total Jacobian is excluded (dynamic coloring normalises by max|J|); '
    'min_improve_pct=0 so that every computed coloring is used',
    'colored and uncolored derivatives may differ by round-off: 1e-12 relative to max|J| '
    '(1e-9 for finite differences); the sign of zero is ignored',
    'driver.declare_coloring on a single explicit component: total sparsity == declared partial '
    'sparsity',
]
MIN_NONTRIVIAL = {'quick': 40000, 'thorough': 550000}
CHUNK = 1
CAP_S = {'thorough': int(os.environ.get('OMV_CAP_S', '1500'))}   # wall-clock cap

_BATCH = 256

# (mode, direct, input form).  'bidir' = MNCO_bidir called directly (no fallback to fwd/rev).
_COMBOS = [('fwd', True, 'nd'), ('fwd', False, 'nd'), ('fwd', True, 'coo'),
           ('rev', True, 'nd'), ('rev', False, 'nd'), ('rev', True, 'coo'),
           ('auto', True, 'nd'), ('auto', False, 'nd'), ('auto', False, 'coo'),
           ('bidir', True, 'coo'), ('bidir', False, 'coo')]

_BASES = (5, 7, 6, 9)


# --------------------------------------------------------------------------- patterns

def _pat(r, c, bits):
    return np.array([(bits >> k) & 1 for k in range(r * c)], dtype=bool).reshape(r, c)


def _bits(P):
    return sum(1 << k for k, v in enumerate(np.asarray(P, dtype=bool).ravel()) if v)


def _alg_shapes(tier):
    if tier == 'quick':
        shp = [(r, c) for r in (1, 2, 3) for c in (1, 2, 3)] + [(3, 4), (4, 3)]
    else:
        shp = [(r, c) for r in (1, 2, 3, 4) for c in (1, 2, 3, 4)] + [(3, 5), (5, 3), (2, 6), (6, 2)]
    return sorted(shp, key=lambda s: (s[0] * s[1], s))


def big_patterns():
    """64 structured patterns (arrow / band / block / triangular / Eisenstat ...), deterministic."""
    out = []

    def add(name, P):
        P = np.asarray(P, dtype=bool)
        key = (P.shape, P.tobytes())
        if P.any() and key not in [k for _, _, k in out]:
            out.append((name, P, key))

    def arrow(n):
        P = np.eye(n, dtype=bool)
        P[0, :] = True
        P[:, 0] = True
        return P

    for n in (4, 5, 6):
        A = arrow(n)
        add('arrow%d_tl' % n, A)
        add('arrow%d_br' % n, A[::-1, ::-1])
        add('arrow%d_tr' % n, A[:, ::-1])
    for n in (5, 6):
        A = arrow(n)
        A[1, :] = True
        add('arrow%d_2rows' % n, A)
        add('arrow%d_2rows_T' % n, A.T)
        B = arrow(n)
        B[0, 0] = False
        add('arrow%d_notip' % n, B)
        C = arrow(n)[[2, 0, 1] + list(range(3, n))]
        add('arrow%d_rowperm' % n, C)
    for n in (4, 5, 6):
        T = np.eye(n, dtype=bool) | np.eye(n, k=1, dtype=bool) | np.eye(n, k=-1, dtype=bool)
        add('tridiag%d' % n, T)
    add('bidiag5_u', np.eye(5, dtype=bool) | np.eye(5, k=1, dtype=bool))
    add('bidiag5_l', np.eye(5, dtype=bool) | np.eye(5, k=-1, dtype=bool))
    add('pentadiag6', sum(np.eye(6, k=k, dtype=int) for k in (-2, -1, 0, 1, 2)) > 0)
    add('cyclic5', np.eye(5, dtype=bool) | np.roll(np.eye(5, dtype=bool), 1, axis=1))

    def blockdiag(shapes):
        R = sum(s[0] for s in shapes)
        C = sum(s[1] for s in shapes)
        P = np.zeros((R, C), dtype=bool)
        r = c = 0
        for (a, b) in shapes:
            P[r:r + a, c:c + b] = True
            r += a
            c += b
        return P

    for nm, shp in (('bd22_22', [(2, 2), (2, 2)]), ('bd22_33', [(2, 2), (3, 3)]),
                    ('bd12_21_22', [(1, 2), (2, 1), (2, 2)]), ('bd13_31', [(1, 3), (3, 1)]),
                    ('bd21_21_21', [(2, 1), (2, 1), (2, 1)]), ('bd12_12_12', [(1, 2), (1, 2), (1, 2)]),
                    ('bd23_32', [(2, 3), (3, 2)])):
        B = blockdiag(shp)
        add(nm, B)
        R = np.vstack([np.ones((1, B.shape[1]), dtype=bool), B])
        add(nm + '_row', R)
        C = np.hstack([np.ones((B.shape[0], 1), dtype=bool), B])
        add(nm + '_col', C)
        RC = np.hstack([np.ones((R.shape[0], 1), dtype=bool), R])
        add(nm + '_rowcol', RC)

    def eisenstat(n):
        h = n // 2
        D = np.eye(h, dtype=int)
        B = np.ones((h, h), dtype=int) - D
        A1 = np.hstack([D, D])
        A2 = np.vstack([np.hstack([np.ones((1, h), int), np.zeros((1, h), int)]), np.hstack([D, B])])
        return np.vstack([A1, A2]) > 0

    add('eisenstat6', eisenstat(6))
    add('eisenstat6_T', eisenstat(6).T)
    add('eisenstat4', eisenstat(4))
    for n in (4, 5):
        add('lower%d' % n, np.tril(np.ones((n, n), dtype=bool)))
        add('upper%d' % n, np.triu(np.ones((n, n), dtype=bool)))
        add('checker%d' % n, (np.add.outer(np.arange(n), np.arange(n)) % 2) == 0)
    add('dense4', np.ones((4, 4), dtype=bool))
    X = np.zeros((5, 5), dtype=bool)
    X[2, :] = True
    X[:, 2] = True
    add('cross5', X)
    add('cross5_diag', X | np.eye(5, dtype=bool))
    Z = np.eye(5, dtype=bool)
    Z[0, :] = True
    Z[:, 4] = True
    add('diag5_row0_col4', Z)
    W = np.zeros((2, 6), dtype=bool)
    W[0, :] = True
    W[1, ::2] = True
    add('wide2x6', W)
    add('tall6x2', W.T)
    Bn = np.zeros((4, 6), dtype=bool)
    for i in range(4):
        Bn[i, i:i + 3] = True
    add('band4x6', Bn)
    add('band6x4', Bn.T)
    add('band4x6_row', np.vstack([Bn, np.ones((1, 6), dtype=bool)]))
    add('band6x4_col', np.hstack([Bn.T, np.ones((6, 1), dtype=bool)]))
    A5 = arrow(5)
    A5[4, :] = True
    add('arrow5_lastrow', A5)
    A6 = arrow(6)
    A6[:, 5] = True
    add('arrow6_lastcol', A6)
    D6 = np.eye(6, dtype=bool)
    D6[0, :] = True
    D6[5, :] = True
    D6[:, 0] = True
    add('diag6_2rows_col', D6)
    add('antidiag_arrow5', arrow(5)[::-1])
    add('tridiag5_row', np.vstack([np.ones((1, 5), dtype=bool),
                                   np.eye(5, dtype=bool) | np.eye(5, k=1, dtype=bool) |
                                   np.eye(5, k=-1, dtype=bool)]))
    assert len(out) >= 64, len(out)
    return [(nm, P) for nm, P, _ in out[:64]]


# --------------------------------------------------------------------------- enumeration

def cases(tier, seed):
    pal = seed % 4
    out = []
    # model level first for the small ones is not "simplest first"; algorithm level is simplest
    for (r, c) in _alg_shapes(tier):
        n = 1 << (r * c)
        for lo in range(0, n, _BATCH):
            out.append({'kind': 'alg', 'shape': (r, c), 'lo': lo, 'hi': min(n, lo + _BATCH),
                        'pal': pal})
    out.append({'kind': 'algbig', 'pal': pal})
    # model level: all 3x3 patterns and the 64 structured ones (8 resp. 4 patterns per task)
    for lo in range(1, 512, 8):
        out.append({'kind': 'model', 'shape': (3, 3), 'lo': lo, 'hi': min(512, lo + 8), 'pal': pal,
                    'tier': tier})
    nbig = len(big_patterns())
    for lo in range(0, nbig, 4):
        out.append({'kind': 'model', 'big_lo': lo, 'big_hi': min(nbig, lo + 4), 'pal': pal,
                    'tier': tier})
    for lo in range(1, 512, 8):
        out.append({'kind': 'partial', 'shape': (3, 3), 'lo': lo, 'hi': min(512, lo + 8),
                    'pal': pal, 'tier': tier})
    for lo in range(0, nbig, 4):
        out.append({'kind': 'partial', 'big_lo': lo, 'big_hi': min(nbig, lo + 4), 'pal': pal,
                    'tier': tier})
    return out


# --------------------------------------------------------------------------- algorithm level

def _dm(direct):
    return 'direct' if direct else 'subst'


def _nz_values(nnz, pal):
    """Generic exactly representable values: powers of a base >= 5 (signed-digit sums with
    coefficients in -2..2 are unique) while they fit, else distinct primes."""
    base = _BASES[pal % 4]
    if nnz <= 16:
        perm = [(k * 7 + 3 * pal) % max(nnz, 1) for k in range(nnz)] if nnz and np.gcd(7, nnz) == 1 \
            else list(range(nnz))
        return np.array([float(base ** p) for p in perm])
    primes = [p for p in range(3, 400) if all(p % q for q in range(2, int(p ** .5) + 1))]
    return np.array(primes[pal:pal + nnz], dtype=float)


def _recover_setter(col, M):
    """Literal transcription of _TotalJacInfo.simul_coloring_iter / simul_coloring_jac_setter /
    compute_totals (modes -> color_iter -> row_col_map -> J[row, i] = reduced[row], then
    _apply_subtractions), with the compressed product supplied by the oracle."""
    J = np.zeros_like(M)
    for mode in col.modes():
        rcmap = col.get_row_col_map(mode)
        for inds in col.color_iter(mode):
            if mode == 'fwd':
                vec = M[:, list(inds)].sum(axis=1)
                for i in inds:
                    row = rcmap[i]
                    J[row, i] = vec[row]
            else:
                vec = M[list(inds), :].sum(axis=0)
                for i in inds:
                    c = rcmap[i]
                    J[i, c] = vec[c]
    if col._subtractions:
        col._apply_subtractions(J)
    return J


def _compressed(col, M, direction):
    T = col.tangent_matrix(direction)
    if direction == 'fwd':
        return np.tensordot(M, T.T, axes=([1], [0])) if M.ndim == 2 else \
            np.einsum('rck,jc->rjk', M, T)
    return T @ M if M.ndim == 2 else np.einsum('jr,rck->jck', T, M)


def _recover_iter(col, M):
    """colored_jac_iter + tangent_matrix (the func-comp / jax path), every direction present."""
    J = np.zeros_like(M)
    for direction in col.modes():
        comp = _compressed(col, M, direction)
        for vals, nzpart, idx in col.colored_jac_iter(comp, direction):
            if direction == 'fwd':
                J[nzpart, idx] = vals
            else:
                J[idx, nzpart] = vals
    if col._subtractions:
        col._apply_subtractions(J)
    return J


def alg_single(shape, bits, mode, direct, form, pal):
    """One coloring and all its recovery paths.  Returns (outcome, nontrivial, violations)."""
    from scipy.sparse import coo_matrix
    from openmdao.utils import coloring as cmod
    r, c = shape
    P = _pat(r, c, bits)
    rr, cc = np.nonzero(P)
    nnz = rr.size
    cls = '%s/%s/%s' % (mode, _dm(direct), form)
    case = {'kind': 'alg1', 'shape': (r, c), 'bits': bits, 'mode': mode, 'direct': direct,
            'form': form, 'pal': pal}
    vio = []

    def V(what, msg, sub=None):
        vio.append({'sig': 'C03:%s:%s' % (what, cls if sub is None else cls + '/' + sub),
                    'msg': '%s %dx%d pattern %s (%s): %s' % (
                        what, r, c, P.astype(int).tolist(), cls, msg), 'case': case})

    if form == 'coo':
        Jin = coo_matrix((np.ones(nnz, dtype=bool), (rr, cc)), shape=(r, c))
    else:
        Jin = P.copy()
    try:
        with warnings.catch_warnings():
            warnings.simplefilter('ignore')
            if mode == 'bidir':
                col = cmod.MNCO_bidir(Jin, direct=direct)
            else:
                col = cmod._compute_coloring(Jin, mode, direct=direct)
    except Exception as exc:
        V('coloring_raises', '%s: %s' % (type(exc).__name__, str(exc)[:200]), type(exc).__name__)
        return 'violation', 0, vio

    # ---- partition properties (read from the documented _fwd/_rev = (groups, nonzero map))
    try:
        modes = tuple(col.modes())
        claimed = collections.Counter()
        for d in modes:
            groups = [list(g) for g in col.color_iter(d)]
            rcmap = col.get_row_col_map(d)
            n = c if d == 'fwd' else r
            member = collections.Counter(int(i) for g in groups for i in g)
            if any(i < 0 or i >= n for i in member):
                V('partition_groups', '%s group index out of range: %s' % (d, groups))
            has = set()
            for i in range(n):
                ent = rcmap[i] if i < len(rcmap) else None
                if ent is None:
                    continue
                for k in ent:
                    claimed[(int(k), i) if d == 'fwd' else (i, int(k))] += 1
                    has.add(i)
            for i in range(n):
                if i in has and member[i] != 1:
                    V('partition_groups', '%s index %d has claimed nonzeros but is in %d color '
                      'groups %s' % (d, i, member[i], groups))
                    break
                if i not in has and member[i] > 1:
                    V('partition_groups', '%s index %d (no nonzeros) is in %d color groups %s' % (
                        d, i, member[i], groups))
                    break
        want = collections.Counter(zip(rr.tolist(), cc.tolist()))
        if claimed != want:
            V('partition_claims', 'nonzeros claimed by the fwd/rev maps %s != nonzeros of the '
              'pattern (each exactly once)' % sorted(claimed.items()))
        solves = int(col.total_solves())
    except Exception as exc:
        V('partition_raises', '%s: %s' % (type(exc).__name__, str(exc)[:200]), type(exc).__name__)
        return 'violation', 0, vio
    bound = {'fwd': c, 'rev': r, 'auto': min(r, c)}.get(mode)
    if bound is not None and solves > bound:
        V('solves_gt_uncolored', 'total_solves()=%d > %d' % (solves, bound))

    # ---- recovery, symbolic: entry k of the pattern is the k-th unit vector
    M3 = np.zeros((r, c, nnz), dtype=np.int64)
    M3[rr, cc, np.arange(nnz)] = 1
    vals = _nz_values(nnz, pal)
    Mn = np.zeros((r, c))
    Mn[rr, cc] = vals
    for path, fn, M in (('setter', _recover_setter, M3), ('iter', _recover_iter, M3),
                        ('iter_num', _recover_iter, Mn)):
        try:
            with warnings.catch_warnings():
                warnings.simplefilter('ignore')
                J = fn(col, M)
        except Exception as exc:
            V('recovery_raises', '%s: %s: %s' % (path, type(exc).__name__, str(exc)[:200]),
              path + '/' + type(exc).__name__)
            continue
        if J.shape != M.shape or not np.array_equal(J, M):
            bad = np.argwhere((J != M).reshape(r, c, -1).any(axis=2))
            V('recovered_ne_original', 'path %s: wrong entries %s; subtractions=%s fwd=%s rev=%s' % (
                path, bad.tolist()[:6], col._subtractions, col._fwd, col._rev), path)
    if len(modes) == 1:
        d = modes[0]
        try:
            with warnings.catch_warnings():
                warnings.simplefilter('ignore')
                E = col._expand_jac(_compressed(col, Mn, d), d)
                E = np.asarray(E.toarray())
            if E.shape != Mn.shape or not np.array_equal(E, Mn):
                V('recovered_ne_original', '_expand_jac(%s) gives %s expected %s' % (
                    d, E.tolist(), Mn.tolist()), 'expand_jac')
        except Exception as exc:
            V('recovery_raises', '_expand_jac: %s: %s' % (type(exc).__name__, str(exc)[:200]),
              'expand_jac/' + type(exc).__name__)

    if vio:
        return 'violation', 0, vio
    bidir = len(modes) == 2
    unc = {'fwd': c, 'rev': r}.get(mode, min(r, c))
    nontriv = int(bidir or solves < unc)
    oc = '%s/%s:%s%s' % (mode, _dm(direct), 'bidir' if bidir else (modes[0] if modes else 'none'),
                         '+sub' if col._subtractions else '')
    oc += ':compress' if solves < unc else (':equal' if solves == unc else ':more')
    return oc, nontriv, vio


# --------------------------------------------------------------------------- model level

_SPLITS3 = [((1, 1, 1), (1, 1, 1)), ((3,), (3,)), ((2, 1), (1, 2))]

_DV_SCAL = [1.5, -2.5, 0.75, 3.5, -0.375, 5.5, -1.25, 2.75]
_RS_SCAL = [2.25, -1.75, 0.625, 4.5, -3.25, 1.125, 6.5, -0.875]
_IN_UNITS = [('m', 'cm'), ('s', 'ms'), ('kg', 'g'), ('m', 'km'), ('N', 'kN'), ('s', 'min'),
             ('Pa', 'kPa'), ('m', 'ft')]
_OUT_UNITS = [('N', 'mN'), ('degC', 'degF'), ('J', 'kJ'), ('m', 'inch'), ('W', 'kW'), ('Pa', 'bar'),
              ('degK', 'degR'), ('rad', 'deg')]

_SCALINGS = ('none', 'scalers', 'units', 'both')
# (label, problem mode, direct, approx method)
_TOT_CFGS = [('fwd', 'fwd', True, None), ('rev', 'rev', True, None), ('auto', 'auto', True, None),
             ('auto', 'auto', False, None), ('approx_cs', 'fwd', True, 'cs'),
             ('approx_fd', 'fwd', True, 'fd')]

_FD_STEP = 2.0 ** -20


def _splits_for(shape, s):
    r, c = shape
    if shape == (3, 3):
        return _SPLITS3[s]
    if s == 0:
        return (1,) * r, (1,) * c
    if s == 1:
        f = lambda n: tuple([2] * (n // 2) + ([1] if n % 2 else []))
        return f(r), f(c)
    g = lambda n: (n,) if n < 3 else (1, n - 1)
    return g(r), g(c)


def _values(P, pal):
    r, c = P.shape
    idx = np.arange(r * c).reshape(r, c)
    sign = np.where((np.add.outer(np.arange(r), 2 * np.arange(c)) + pal) % 3 == 0, -1.0, 1.0)
    A = sign * (1.0 + 0.25 * ((idx * (3 + 2 * pal) + pal) % (r * c + 7)) + 0.125 * idx)
    return np.where(P, A, 0.0)


def _make_comp(A, rs, cs, in_units, out_units, approx=None, color=False):
    import openmdao.api as om
    H = {'A': A}       # the matrix can be replaced between two setups (holder kept on the instance)

    class PatComp(om.ExplicitComponent):
        def setup(self):
            A = H['A']
            ro = np.concatenate([[0], np.cumsum(rs)]).astype(int)
            co = np.concatenate([[0], np.cumsum(cs)]).astype(int)
            for j, s in enumerate(cs):
                self.add_input('x%d' % j, 0.5 + 0.25 * (np.arange(s) + co[j]), units=in_units[j])
            for i, s in enumerate(rs):
                self.add_output('y%d' % i, np.zeros(s), units=out_units[i])
            if approx is not None:
                method, form, step = approx
                kw = {'method': method}
                if form:
                    kw['form'] = form
                if step:
                    kw['step'] = step
                self.declare_partials('*', '*', **kw)
                if color:
                    self.declare_coloring(wrt='*', min_improve_pct=0., show_summary=False, **kw)
                return
            for i in range(len(rs)):
                for j in range(len(cs)):
                    blk = A[ro[i]:ro[i + 1], co[j]:co[j + 1]]
                    rr, cc = np.nonzero(blk)
                    if rr.size:
                        self.declare_partials('y%d' % i, 'x%d' % j, rows=rr, cols=cc,
                                              val=blk[rr, cc])
                    elif H.get('redeclare'):
                        # declarations made in an earlier setup persist per (of, wrt) pair
                        # (OpenMDAO keeps them like static declarations): withdraw them
                        self.declare_partials('y%d' % i, 'x%d' % j, dependent=False)

        def compute(self, inputs, outputs):
            x = np.concatenate([inputs['x%d' % j] for j in range(len(cs))])
            y = H['A'].dot(x)
            k = 0
            for i, s in enumerate(rs):
                outputs['y%d' % i] = y[k:k + s]
                k += s

    comp = PatComp()
    comp._omv_holder = H
    return comp


def _scal(vals, start, size):
    v = np.array([vals[(start + k) % len(vals)] * (1 + ((start + k) // len(vals))) for k in
                  range(size)])
    return float(v[0]) if size == 1 else v


def _run_totals(A, rs, cs, scaling, pal, mode, color, direct, approx, A_first=None):
    import openmdao.api as om
    use_units = scaling in ('units', 'both')
    use_scal = scaling in ('scalers', 'both')
    iu = [_IN_UNITS[(j + pal) % 8] for j in range(len(cs))]
    ou = [_OUT_UNITS[(i + pal) % 8] for i in range(len(rs))]
    p = om.Problem(reports=None)
    comp = _make_comp(A if A_first is None else A_first, rs, cs,
                      [u[0] if use_units else None for u in iu],
                      [u[0] if use_units else None for u in ou])
    p.model.add_subsystem('c', comp, promotes=['*'])
    k = 0
    for j, s in enumerate(cs):
        kw = {}
        if use_scal:
            kw['scaler'] = _scal(_DV_SCAL, k + pal, s)
            if j % 2:
                kw['adder'] = 0.5
        if use_units:
            kw['units'] = iu[j][1]
        p.model.add_design_var('x%d' % j, **kw)
        k += s
    k = 0
    for i, s in enumerate(rs):
        kw = {}
        if use_scal:
            if i % 2:
                sc = _scal(_RS_SCAL, k + pal, s)
                kw['ref'] = 1.0 / sc
            else:
                kw['scaler'] = _scal(_RS_SCAL, k + pal, s)
        if use_units:
            kw['units'] = ou[i][1]
        p.model.add_constraint('y%d' % i, upper=100., **kw)
        k += s
    if approx is not None:
        kw = {'method': 'fd', 'step': _FD_STEP, 'form': 'forward'} if approx == 'fd' else \
            {'method': 'cs'}
        p.model.approx_totals(**kw)
        if color:
            p.model.declare_coloring(show_summary=False, min_improve_pct=0., **kw)
    elif color:
        p.driver.declare_coloring(direct=direct, show_summary=False, min_improve_pct=0.)
    with contextlib.redirect_stdout(io.StringIO()), contextlib.redirect_stderr(io.StringIO()):
        if A_first is not None:
            # a first setup with another matrix (other sparsity, same sizes): its coloring must
            # not survive the second setup
            p.setup(mode=mode, force_alloc_complex=(approx == 'cs'))
            p.run_model()
            p.compute_totals(return_format='array', driver_scaling=True)
            p.compute_totals(return_format='array', driver_scaling=True)
            comp._omv_holder['A'] = A
            comp._omv_holder['redeclare'] = True
        p.setup(mode=mode, force_alloc_complex=(approx == 'cs'))
        p.run_model()
        J = p.compute_totals(return_format='array', driver_scaling=True)
        J = np.array(J, dtype=float)
        J2 = None
        if color and approx is not None:
            # the dynamic coloring of approximated totals is computed inside the first call
            J2 = np.array(p.compute_totals(return_format='array', driver_scaling=True), dtype=float)
    col = None
    if color:
        col = p.model._coloring_info.coloring if approx is not None else \
            p.driver._coloring_info.coloring
    return J, col, J2


def _close(a, b, tol):
    a = np.asarray(a, dtype=float)
    b = np.asarray(b, dtype=float)
    if a.shape != b.shape or not (np.all(np.isfinite(a)) and np.all(np.isfinite(b))):
        return False
    scale = max(float(np.max(np.abs(b))) if b.size else 0.0, 1e-300)
    return bool(np.max(np.abs(a - b)) <= tol * scale) if b.size else True


def init_worker():
    """OpenMDAO writes every dynamic coloring to <problem>_out/coloring_files in the cwd; removing
    directories is slow on the scratch file system, so each worker works in its own tmpfs directory
    (cleaned after every case; directories of dead workers are removed here)."""
    base = '/dev/shm'
    if not (os.path.isdir(base) and os.access(base, os.W_OK)):
        return
    for d in glob.glob(os.path.join(base, 'omv_c03_*')):
        try:
            pid = int(d.rsplit('_', 1)[1])
            os.kill(pid, 0)
        except (ValueError, ProcessLookupError):
            shutil.rmtree(d, ignore_errors=True)
        except OSError:
            pass
    mine = os.path.join(base, 'omv_c03_%d' % os.getpid())
    os.makedirs(mine, exist_ok=True)
    os.chdir(mine)
    import atexit
    atexit.register(shutil.rmtree, mine, True)


def _cleanup():
    for d in glob.glob('*_out'):
        shutil.rmtree(d, ignore_errors=True)


def _case_pattern(case):
    if 'big' in case and case['big'] is not None:
        name, P = big_patterns()[case['big']]
        return name, P
    r, c = case['shape']
    return '%dx%d' % (r, c), _pat(r, c, case['bits'])


def model_single(case):
    """One colored total-derivative configuration against its uncolored twin."""
    name, P = _case_pattern(case)
    pal = case['pal']
    rs, cs = _splits_for(P.shape, case['split'])
    label, mode, direct, approx = case['cfg']
    scaling = case['scaling']
    A = _values(P, pal)
    r, c = P.shape
    tol = 1e-9 if approx == 'fd' else 1e-12
    cfgname = label if label != 'auto' else 'auto/' + _dm(direct)
    vio = []
    c1 = dict(case)
    c1['kind'] = 'model1'

    def V(what, cls, msg):
        vio.append({'sig': 'C03:%s:%s' % (what, cls), 'case': c1,
                    'msg': '%s pattern %s %s split=%s/%s scaling=%s cfg=%s: %s' % (
                        what, name, P.astype(int).tolist(), rs, cs, scaling, cfgname, msg)})

    try:
        J0, _, _ = _run_totals(A, rs, cs, scaling, pal, mode, False, direct, approx)
    except Exception as exc:
        V('uncolored_raises', '%s/%s:%s' % (cfgname, scaling, type(exc).__name__),
          '%s: %s' % (type(exc).__name__, str(exc)[:300]))
        return 'violation', 0, vio
    if scaling == 'none' and not _close(J0, A, tol):
        V('uncolored_ne_reference', cfgname, 'uncolored totals %s != A %s' % (J0.tolist(),
                                                                              A.tolist()))
    try:
        J1, col, J2 = _run_totals(A, rs, cs, scaling, pal, mode, True, direct, approx)
    except Exception as exc:
        V('colored_raises', '%s/%s:%s' % (cfgname, scaling, type(exc).__name__),
          '%s: %s' % (type(exc).__name__, str(exc)[:300]))
        return 'violation', 0, vio
    sub = 'deactivated' if col is None else ('sub' if col._subtractions else 'nosub')
    for which, Jc in (('first_call' if J2 is not None else None, J1), ('second_call', J2)):
        if Jc is None or _close(Jc, J0, tol):
            continue
        bad = np.argwhere(~np.isclose(Jc, J0, rtol=1e-9, atol=1e-9 * np.max(np.abs(J0))))
        V('totals_colored_ne_uncolored',
          ('%s/%s/%s' % (cfgname, sub, scaling)) if which is None else
          ('%s/%s' % (cfgname, which)),
          'entries %s: colored %s uncolored %s; coloring fwd=%s rev=%s subtractions=%s' % (
              bad.tolist()[:6], [Jc[tuple(b)] for b in bad[:6]], [J0[tuple(b)] for b in bad[:6]],
              col._fwd if col is not None else None, col._rev if col is not None else None,
              col._subtractions if col is not None else None))
    # the same colored configuration reached through a second setup after the matrix (and its
    # sparsity) was replaced
    A_first = np.roll(A, 1, axis=1)
    if not vio and not np.array_equal(A_first != 0, A != 0):
        try:
            J3, _, J4 = _run_totals(A, rs, cs, scaling, pal, mode, True, direct, approx,
                                    A_first=A_first)
            for Jc in (J3, J4):
                if Jc is not None and not _close(Jc, J0, tol):
                    bad = np.argwhere(~np.isclose(Jc, J0, rtol=1e-9, atol=1e-9 * np.max(np.abs(J0))))
                    V('totals_colored_ne_uncolored', '%s/after_resetup' % cfgname,
                      'second setup after the sparsity changed: entries %s: colored %s uncolored '
                      '%s' % (bad.tolist()[:6], [Jc[tuple(b)] for b in bad[:6]],
                              [J0[tuple(b)] for b in bad[:6]]))
                    break
        except Exception as exc:
            V('colored_raises', '%s/after_resetup:%s' % (cfgname, type(exc).__name__),
              '%s: %s' % (type(exc).__name__, str(exc)[:300]))
    if col is None:
        oc = 'tot:%s:no_coloring' % cfgname
        nontriv = 0
    else:
        solves = int(col.total_solves())
        unc = {'fwd': c, 'rev': r}.get(mode, min(r, c))
        if approx is None and solves > unc:
            V('solves_gt_uncolored', cfgname, 'total_solves()=%d > %d' % (solves, unc))
        sp_ok = set(zip(np.asarray(col._nzrows).tolist(), np.asarray(col._nzcols).tolist())) == \
            set(zip(*[x.tolist() for x in np.nonzero(P)]))
        oc = 'tot:%s:%s:%s%s%s' % (cfgname, '+'.join(col.modes()) or 'none', sub,
                                   ':compress' if solves < unc else ':nocompress',
                                   '' if sp_ok else ':sparsity_differs')
        nontriv = int(solves < unc)
    if vio:
        return 'violation', 0, vio
    return oc, nontriv, vio


def _partial_run(A, rs, cs, approx, color, exec_kind, pal):
    import openmdao.api as om
    import openmdao.utils.array_utils as au
    au._randgen = np.random.default_rng(41)     # owned nondeterminism of the sparsity perturbation
    p = om.Problem(reports=None)
    if exec_kind:
        ro = np.concatenate([[0], np.cumsum(rs)]).astype(int)
        co = np.concatenate([[0], np.cumsum(cs)]).astype(int)
        exprs, kw = [], {}
        for j, s in enumerate(cs):
            kw['x%d' % j] = {'val': 0.5 + 0.25 * (np.arange(s) + co[j])}
        for i, s in enumerate(rs):
            terms = []
            for j in range(len(cs)):
                blk = A[ro[i]:ro[i + 1], co[j]:co[j + 1]]
                nm = 'A%d_%d' % (i, j)      # zero blocks are kept: every variable must be used
                kw[nm] = {'val': blk.copy(), 'constant': True}
                terms.append('dot(%s, x%d)' % (nm, j))
            exprs.append('y%d = %s' % (i, ' + '.join(terms)))
            kw['y%d' % i] = {'val': np.zeros(s)}
        comp = om.ExecComp(exprs, do_coloring=color, **kw)
        if exec_kind == 'exec_decl' and color:
            comp.declare_coloring(wrt='*', method='cs', min_improve_pct=0., show_summary=False)
    else:
        comp = _make_comp(A, rs, cs, [None] * len(cs), [None] * len(rs), approx=approx, color=color)
    p.model.add_subsystem('c', comp)
    of = ['c.y%d' % i for i in range(len(rs))]
    wrt = ['c.x%d' % j for j in range(len(cs))]
    with contextlib.redirect_stdout(io.StringIO()), contextlib.redirect_stderr(io.StringIO()):
        p.setup(force_alloc_complex=True)
        p.run_model()
        J = p.compute_totals(of=of, wrt=wrt, return_format='array')
    col = comp._coloring_info.coloring
    return np.array(J, dtype=float), col


_PARTIAL_CFGS = [('fd_fwd', ('fd', 'forward', _FD_STEP), None), ('fd_central', ('fd', 'central',
                                                                                 _FD_STEP), None),
                 ('cs', ('cs', None, None), None), ('exec_auto', None, 'exec_auto'),
                 ('exec_decl', None, 'exec_decl')]


def partial_single(case):
    name, P = _case_pattern(case)
    pal = case['pal']
    rs, cs = _splits_for(P.shape, case['split'])
    label, approx, exec_kind = [x for x in _PARTIAL_CFGS if x[0] == case['cfg']][0]
    A = _values(P, pal)
    r, c = P.shape
    tol = 1e-9 if label.startswith('fd') else 1e-12
    vio = []
    c1 = dict(case)
    c1['kind'] = 'partial1'

    def V(what, cls, msg):
        vio.append({'sig': 'C03:%s:%s' % (what, cls), 'case': c1,
                    'msg': '%s pattern %s %s split=%s/%s cfg=%s: %s' % (
                        what, name, P.astype(int).tolist(), rs, cs, label, msg)})
    try:
        J0, _ = _partial_run(A, rs, cs, approx, False, exec_kind, pal)
    except Exception as exc:
        V('uncolored_raises', 'partial/%s:%s' % (label, type(exc).__name__),
          '%s: %s' % (type(exc).__name__, str(exc)[:300]))
        return 'violation', 0, vio
    if not _close(J0, A, tol):
        V('uncolored_ne_reference', 'partial/' + label, 'uncolored partials %s != A %s' % (
            J0.tolist(), A.tolist()))
    try:
        J1, col = _partial_run(A, rs, cs, approx, True, exec_kind, pal)
    except Exception as exc:
        V('colored_raises', 'partial/%s:%s' % (label, type(exc).__name__),
          '%s: %s' % (type(exc).__name__, str(exc)[:300]))
        return 'violation', 0, vio
    if not _close(J1, J0, tol):
        bad = np.argwhere(~np.isclose(J1, J0, rtol=1e-9, atol=1e-9 * np.max(np.abs(J0))))
        V('partials_colored_ne_uncolored', label,
          'entries %s: colored %s uncolored %s; coloring fwd=%s' % (
              bad.tolist()[:6], [J1[tuple(b)] for b in bad[:6]], [J0[tuple(b)] for b in bad[:6]],
              col._fwd if col is not None else None))
    if vio:
        return 'violation', 0, vio
    if col is None:
        return 'par:%s:no_coloring' % label, 0, vio
    solves = int(col.total_solves())
    return ('par:%s:%s' % (label, 'compress' if solves < c else 'nocompress'), int(solves < c), vio)


# --------------------------------------------------------------------------- driver

def check_case(case):
    kind = case['kind']
    np.random.seed(12345)
    if kind == 'alg1':
        oc, nt, vio = alg_single(tuple(case['shape']), case['bits'], case['mode'], case['direct'],
                                 case['form'], case['pal'])
        return {'evals': 1, 'nontrivial': nt, 'outcome': oc, 'violations': vio}
    if kind == 'model1':
        try:
            oc, nt, vio = model_single(case)
        finally:
            _cleanup()
        return {'evals': 1, 'nontrivial': nt, 'outcome': oc, 'violations': vio}
    if kind == 'partial1':
        try:
            oc, nt, vio = partial_single(case)
        finally:
            _cleanup()
        return {'evals': 1, 'nontrivial': nt, 'outcome': oc, 'violations': vio}

    outcomes = collections.Counter()
    seen = collections.Counter()
    evals = nontriv = 0
    vios = []

    def add(oc, nt, vio):
        nonlocal evals, nontriv
        evals += 1
        nontriv += nt
        outcomes[oc] += 1
        for v in vio:
            seen[v['sig']] += 1
            if seen[v['sig']] <= 2:
                vios.append(v)

    if kind == 'alg':
        shape = tuple(case['shape'])
        for bits in range(case['lo'], case['hi']):
            for mode, direct, form in _COMBOS:
                add(*alg_single(shape, bits, mode, direct, form, case['pal']))
        sample = {'kind': 'alg', 'shape': shape, 'patterns': [case['lo'], case['hi']],
                  'combos': len(_COMBOS)}
    elif kind == 'algbig':
        for name, P in big_patterns():
            for mode, direct, form in _COMBOS:
                add(*alg_single(P.shape, _bits(P), mode, direct, form, case['pal']))
        sample = {'kind': 'algbig', 'patterns': len(big_patterns())}
    elif kind in ('model', 'partial'):
        tier = case.get('tier', 'quick')
        pal = case['pal']
        if 'lo' in case:
            pats = [{'shape': tuple(case['shape']), 'bits': b} for b in range(case['lo'],
                                                                              case['hi'])]
        else:
            pats = [{'big': k} for k in range(case['big_lo'], case['big_hi'])]
        try:
            for pt in pats:
                code = pt.get('bits', pt.get('big', 0))
                if kind == 'model':
                    # quick: the all-scalar split always, the two others alternate
                    splits = (0, 1, 2) if tier == 'thorough' else (0, 1 + code % 2)
                    for s in splits:
                        for scaling in _SCALINGS:
                            for cfg in _TOT_CFGS:
                                if cfg[3] is not None and tier == 'quick' and (
                                        scaling in ('scalers', 'units') or s != 0):
                                    continue
                                c1 = dict(pt, kind='model1', split=s, pal=pal, scaling=scaling,
                                          cfg=cfg)
                                add(*model_single(c1))
                else:
                    splits = (0, 1, 2) if (tier == 'thorough' or 'big' in pt) else (code % 3,)
                    for s in splits:
                        for cfg in _PARTIAL_CFGS:
                            add(*partial_single(dict(pt, kind='partial1', split=s, pal=pal,
                                                     cfg=cfg[0])))
        finally:
            _cleanup()
        sample = dict(case)
    else:
        raise ValueError(kind)
    return {'evals': evals, 'nontrivial': nontriv, 'outcome': dict(outcomes), 'violations': vios,
            'sample': sample}
