"""C04 - connected inputs hold their source value with indices and units applied (DESIGN.md 4, C04)."""
import collections
import contextlib
import io
import itertools

import numpy as np

from omv.core import ir, models

ID = 'C04'
LEVEL = 'exploration'
TECHNIQUE = ('exhaustive enumeration of (source shape, src_indices form, where the indices are given, '
             'unit pair, source kind, solver context) with real models; oracle = NumPy index chain + '
             'textbook unit map, observed after run_model and before every component evaluation')
RULE = ('index forms = every admissible form of a bounded grammar (ints, slices incl. negative steps, '
        'lists, tuples, ellipsis, non-tuple index into N-D source, flat and non-flat) for source '
        'shapes (4,), (2,3), (3,2,2); full product with the placement {connect, promotes at 1 and 2 '
        'levels (indices at one or at both levels), auto-IVC, explicit-output source, implicit-state source} plus unit pairs and solver '
        'contexts on a reduced index alphabet, plus solver scaling on the source (scalar and array '
        'ref/ref0) x placement (incl. two promotion levels that both carry indices) x unit pair on '
        'every 3rd (quick) / every (thorough) index form; a resize family: connect()/promotes() '
        'with negative / slice src_indices given outside of setup x source resized over 2-3 '
        'set-ups of the same Problem; '
        'non-trivial = model ran and the index selects >= 2 '
        'entries that are not the identity selection or a unit conversion is active; each '
        'configuration is enumerated once')
LEVEL_TEXT = ('Each configuration is built as a real model; every continuous input is compared with the '
              'NumPy-indexed, unit-converted source value (a) in the input vector after run_model, '
              '(b) at the start of every compute/apply_nonlinear/solve_nonlinear call of every '
              'component in every solver iteration (hook inside the harness components, snapshot of '
              'the root output vector), (c) again after the source was changed with set_val after '
              'final_setup; discrete pass-through is checked on a separate small family.')
LEVEL_NOTE = ('NumPy indexing and textbook unit factors are the reference; Jacobi-type solvers are '
              'excluded from (b) because they transfer once per iteration by design; no MPI.')
ASSUMPTIONS = ['OpenMDAO may reject: an index NumPy rejects, empty selections, slices outside the '
               'source range (documented stricter rule); everything else must be accepted',
               'inside block-Jacobi iterations inputs lag by design; observation (b) is not applied to '
               'NLBJ']
MIN_NONTRIVIAL = {'quick': 1200, 'thorough': 5000}

UNITS = ['none', 'm_cm', 'km_m', 'degC_degF', 'degF_degK']


def _forms(shape, tier):
    """list of (idx, flat) forms for a source shape"""
    out = []
    n0 = shape[0]
    N = int(np.prod(shape))
    if len(shape) == 1:
        ints = [0, n0 - 1, -1, -n0]
        vals = [None, -n0, -2, -1, 0, 1, n0 - 1, n0]
        steps = [None, 1, 2, -1, -2]
        sl = [slice(a, b, c) for a in vals for b in vals for c in steps]
        lists = [list(t) for ln in (1, 2, 3) for t in itertools.product([-n0, -1, 0, 2, n0 - 1],
                                                                        repeat=ln)]
        if tier == 'quick':
            lists = [l for l in lists if len(l) < 3 or (l[0] != l[1] and l[1] <= l[2])]
        for f in ints + sl + lists:
            out.append((f, False))
        out.append((Ellipsis, False))
        out.append((np.array([1, 0]), False))
        return out
    # non-tuple forms into an N-D source (index the first axis)
    for f in [0, n0 - 1, -1, [n0 - 1, 0], [0, 0], [-1], slice(None, None, -1), slice(0, 1),
              slice(None, None, 2), slice(-1, None, -1), slice(None, 0, -1)]:
        out.append((f, False))
    # flat forms
    for f in [0, N - 1, -1, [N - 1, 0, 2], [-1, -N], slice(1, N - 1), slice(None, None, -1),
              slice(None, None, 2), slice(N - 2, 0, -2), [0, 0, 1]]:
        out.append((f, True))
    # tuple forms
    ax = []
    for n in shape:
        els = [0, -1, slice(None), slice(None, None, -1), [n - 1, 0], slice(1, None)]
        if n > 2:
            els += [slice(None, None, 2), [-1, 0, 1]]
        ax.append(els)
    if len(shape) == 3 and tier == 'quick':
        ax = [a[:5] for a in ax]
    for k in range(2, len(shape) + 1):
        for t in itertools.product(*ax[:k]):
            # several index lists must broadcast
            lens = set(len(e) for e in t if isinstance(e, list))
            if len(lens) > 1:
                continue
            out.append((tuple(t), False))
    out.append(((Ellipsis, 0), False))
    out.append(((0, Ellipsis), False))
    out.append(((Ellipsis,), False))
    out.append(((Ellipsis, slice(None, None, -1)), False))
    return out


WHERE = ['connect_p', 'prom1', 'prom2', 'prom2_chain', 'auto1', 'src_explicit', 'src_implicit']
CONTEXT = ['runonce', 'nlbgs_cycle', 'newton', 'newton_cycle']
SHAPES = [(4,), (2, 3), (3, 2, 2)]


def _np_ok(shape, idx, flat):
    a = np.arange(int(np.prod(shape))).reshape(shape)
    src = a.ravel() if flat else a
    try:
        ii = idx
        if isinstance(ii, list):
            ii = np.asarray(ii, dtype=int)
        if isinstance(ii, tuple):
            ii = tuple(np.asarray(t, dtype=int) if isinstance(t, list) else t for t in ii)
        r = np.asarray(src[ii])
    except Exception:
        return None
    return r


def _slice_oob(idx, shape, flat):
    if flat:
        shape = (int(np.prod(shape)),)
    tup = idx if isinstance(idx, tuple) else (idx,)
    if any(t is Ellipsis for t in tup):
        nfull = len(shape) - (len(tup) - 1)
        new = []
        for t in tup:
            if t is Ellipsis:
                new.extend([slice(None)] * max(nfull, 0))
            else:
                new.append(t)
        tup = tuple(new)
    for axn, t in enumerate(tup):
        if isinstance(t, slice) and axn < len(shape):
            n = shape[axn]
            if t.start is not None and (t.start >= n or t.start < -n):
                return True
            if t.stop is not None and (t.stop > n or t.stop < -n):
                return True
    return False


def cases(tier, seed):
    pal = seed % 3
    out = []
    for shape in SHAPES:
        forms = _forms(shape, tier)
        for fi, (idx, flat) in enumerate(forms):
            r = _np_ok(shape, idx, flat)
            if r is None or r.size == 0 or _slice_oob(idx, shape, flat):
                # inadmissible for NumPy / documented stricter rule: OpenMDAO may reject; nothing to
                # check (C05 covers admissibility of the indexer itself)
                continue
            for where in WHERE:
                out.append({'shape': shape, 'idx': idx, 'flat': flat, 'where': where,
                            'units': 'none', 'ctx': 'runonce', 'palette': pal})
            # units and contexts on a thinner slice of the index alphabet
            if fi % (4 if tier == 'quick' else 2) == 0:
                for u in UNITS[1:]:
                    for where in ('connect_p', 'prom2', 'src_explicit'):
                        out.append({'shape': shape, 'idx': idx, 'flat': flat, 'where': where,
                                    'units': u, 'ctx': 'runonce', 'palette': pal})
                for ctx in CONTEXT[1:]:
                    for where in ('connect_p', 'src_explicit', 'src_implicit', 'prom1'):
                        out.append({'shape': shape, 'idx': idx, 'flat': flat, 'where': where,
                                    'units': 'm_cm' if fi % 8 == 0 else 'none', 'ctx': ctx,
                                    'palette': pal})
    # solver scaling declared on the source (scalar ref/ref0, array ref and ref0): the transfer works
    # on scaled vectors, so the index map and the unit map must also be applied to the scalers
    for shape in SHAPES:
        forms = _forms(shape, tier)
        for fi, (idx, flat) in enumerate(forms):
            r = _np_ok(shape, idx, flat)
            if r is None or r.size == 0 or _slice_oob(idx, shape, flat):
                continue
            if fi % (3 if tier == 'quick' else 1):
                continue
            for ss in SSCALE:
                for where in ('connect_p', 'prom2', 'prom2_chain', 'src_explicit', 'src_implicit'):
                    for u in ('none', 'm_cm', 'degC_degF'):
                        if where == 'src_implicit' and u != 'none':
                            continue
                        out.append({'shape': shape, 'idx': idx, 'flat': flat, 'where': where,
                                    'units': u, 'ctx': 'runonce', 'palette': pal, 'sscale': ss})
    for k in range(18):
        out.append({'discrete': k})
    out += _resize_cases()
    return out


# ---------------------------------------------------------------------------------------------
# resize family: src_indices given OUTSIDE of setup (Group.connect / Group.promotes on the built
# tree) live across set-ups; the source is resized between two or three set-ups of the same Problem

RESIZE_IDX_1D = [('[-1, -2]', True), ('[0, -1]', True), ('[1, 0]', None), ('S[-2:]', None),
                 ('S[:2]', None), ('S[-1:-3:-1]', None), ('S[1:3]', None), ('[-3, 2]', None)]
RESIZE_IDX_2D = [('S[-1, :]', None), ('([-1, -1, 0], [0, 1, 2])', None), ('[-1, -2, 0]', True),
                 ('S[0, ::-1]', None)]
RESIZE_SEQ_1D = [[[8], [12]], [[12], [8]], [[8], [8]], [[8], [12], [5]]]
RESIZE_SEQ_2D = [[[2, 3], [4, 3]], [[4, 3], [2, 3]], [[2, 3], [4, 3], [3, 3]]]


def _resize_cases():
    out = []
    for api in ('connect', 'promotes'):
        for idxs, seqs in ((RESIZE_IDX_1D, RESIZE_SEQ_1D), (RESIZE_IDX_2D, RESIZE_SEQ_2D)):
            for idx, flat in idxs:
                for seq in seqs:
                    out.append({'resize': {'api': api, 'idx': idx, 'flat': flat, 'seq': seq}})
    return out


def _resize(case):
    import openmdao.api as om
    c = case['resize']
    idx = eval(c['idx'], {'S': om.slicer})
    flat = c['flat']
    cls = 'resize:%s:%s:%s' % (c['api'], c['idx'].replace(' ', ''),
                               '>'.join('x'.join(map(str, sh)) for sh in c['seq']))
    vio = []

    def V(what, msg):
        vio.append({'sig': 'C04:%s:%s' % (what, cls), 'case': case, 'msg': '%s [%s]: %s' % (
            what, cls, msg)})

    class Src(om.ExplicitComponent):
        def initialize(self):
            self.options.declare('shape', default=(8,))

        def setup(self):
            self.add_output('y', np.zeros(self.options['shape']))

        def compute(self, inputs, outputs):
            shp = self.options['shape']
            outputs['y'] = 1.0 + np.arange(int(np.prod(shp)), dtype=float).reshape(shp)

    def pick(full):
        return np.ravel(full.ravel()[idx] if flat else full[idx])
    n_in = pick(np.zeros(tuple(c['seq'][0]))).size
    p = om.Problem(reports=None)
    m = p.model
    if c['api'] == 'connect':
        m.add_subsystem('s', Src(shape=tuple(c['seq'][0])))
        m.add_subsystem('c', om.ExecComp('z=2*x', x=np.zeros(n_in), z=np.zeros(n_in)))
        m.connect('s.y', 'c.x', src_indices=idx, flat_src_indices=flat)
    else:
        m.add_subsystem('s', Src(shape=tuple(c['seq'][0])), promotes_outputs=[('y', 'x')])
        m.add_subsystem('c', om.ExecComp('z=2*x', x=np.zeros(n_in), z=np.zeros(n_in)))
        m.promotes('c', inputs=['x'], src_indices=idx, flat_src_indices=flat)
    nt = 0
    buf = io.StringIO()
    for k, shp in enumerate(c['seq']):
        shp = tuple(shp)
        full = 1.0 + np.arange(int(np.prod(shp)), dtype=float).reshape(shp)
        exp = pick(full)
        try:
            with contextlib.redirect_stdout(buf), contextlib.redirect_stderr(buf):
                m.s.options['shape'] = shp
                p.setup()
                p.run_model()
                seen = np.ravel(m.c._inputs['x'])
                gv = np.ravel(p.get_val('c.x'))
                z = np.ravel(p.get_val('c.z'))
        except Exception as exc:
            V('resize_raises', 'setup %d with source shape %s: %s: %s' % (
                k + 1, shp, type(exc).__name__, str(exc)[:200]))
            break
        if not np.array_equal(seen, exp):
            V('resize_input_vector', 'setup %d, source shape %s: the component computed with %s, '
              'source[src_indices] is %s' % (k + 1, shp, seen.tolist(), exp.tolist()))
        if not np.array_equal(gv, exp):
            V('resize_get_val', 'setup %d, source shape %s: get_val gives %s, source[src_indices] '
              'is %s' % (k + 1, shp, gv.tolist(), exp.tolist()))
        if not np.array_equal(z, 2.0 * exp):
            V('resize_computed', 'setup %d, source shape %s: z = %s, expected %s' % (
                k + 1, shp, z.tolist(), (2.0 * exp).tolist()))
        nt += int(k > 0)
    return ('violation' if vio else 'ok_resize'), (0 if vio else nt), vio


SSCALE = ['ref_ref0', 'arr_ref_ref0', 'arr_ref', 'arr_ref0']


def _sscale(kind, shape):
    n = int(np.prod(shape))
    k = np.arange(n, dtype=float)
    ref = (2.0 + 0.5 * k).reshape(shape)
    ref0 = (-1.0 + 0.25 * k * (-1.0) ** k).reshape(shape)
    if kind == 'ref_ref0':
        return {'ref': 4.0, 'ref0': -0.5}
    if kind == 'arr_ref_ref0':
        return {'ref': ref.tolist(), 'ref0': ref0.tolist()}
    if kind == 'arr_ref':
        return {'ref': ref.tolist(), 'ref0': 0.75}
    return {'ref': 3.0, 'ref0': ref0.tolist()}


def _cls(case):
    idx = case['idx']

    def one(t):
        if t is Ellipsis:
            return 'E'
        if isinstance(t, (int, np.integer)):
            return 'i-' if t < 0 else 'i'
        if isinstance(t, slice):
            return 'Sneg' if (t.step is not None and t.step < 0) else 'S'
        return 'A'
    c = 'T(' + ','.join(one(t) for t in idx) + ')' if isinstance(idx, tuple) else one(idx)
    return '%s/%dD%s/%s/%s/%s%s' % (c, len(case['shape']), 'flat' if case['flat'] else '',
                                    case['where'], case['units'], case['ctx'],
                                    '/' + case['sscale'] if case.get('sscale') else '')


def _build_spec(case):
    shape, idx, flat, where = tuple(case['shape']), case['idx'], case['flat'], case['where']
    ctx = case['ctx']
    up = models.UNIT_PAIRS[case['units']]
    cyc = ctx in ('nlbgs_cycle', 'newton_cycle')
    topo = 'cycle_tail' if cyc else 'chain'
    nl = {'runonce': 'RunOnce', 'nlbgs_cycle': 'NLBGS', 'newton': 'Newton',
          'newton_cycle': 'Newton'}[ctx]
    ln = 'Direct' if nl != 'RunOnce' else 'RunOnce'
    units = {}
    kw = dict(topology=topo, nl=nl, ln=ln, palette=case.get('palette', 0))
    r = _np_ok(shape, idx, flat)
    if where in ('connect_p', 'prom1', 'prom2', 'prom2_chain', 'auto1'):
        if up[0]:
            units['p'] = up[0]
            units['c1.x0'] = up[1]
        if where == 'connect_p':
            first = dict(how='connect', chain=[(idx, flat)])
            hier = 'flat'
        elif where == 'prom1':
            first = dict(how='promote', chain=[(idx, flat)])
            hier = 'flat'
        elif where == 'prom2':
            # indices at the inner level, a plain reversal of the flat source at the outer level
            first = dict(how='promote', chain=[(idx, flat), None])
            hier = 'cycG' if cyc else 'allG'
        elif where == 'prom2_chain':
            # two promotion levels that both carry indices: a reversal of the first axis at the
            # root (keeps the shape), then the index under test one level down
            first = dict(how='promote', chain=[(slice(None, None, -1), False), (idx, flat)])
            hier = 'cycG' if cyc else 'allG'
        else:
            first = dict(how='promote', auto=True, chain=[(idx, flat)], src_shape_at=0)
            hier = 'flat'
        kw.update(first=first, p_shape=shape, hier=hier, units=units,
                  kinds={'c2': 'quad', 'c3': 'imp'})
    else:
        # indices on the connection c1.y -> c2.x0 where c1.y has the N-D shape
        if up[0]:
            if cyc and up == ('m', 'cm'):
                up = ('cm', 'm')     # keeps the loop gain of the cycle below one
            units['c1.y'] = up[0]
            units['c2.x0'] = up[1]
        kinds = {'c1': 'impquad' if where == 'src_implicit' else 'quad', 'c3': 'quad'}
        kw.update(out_shapes={'c1': shape}, conn_idx={'c2.x0': {'chain': [(idx, flat)]}},
                  units=units, kinds=kinds, hier='flat')
    if case.get('sscale'):
        src = 'ivc.p' if where in ('connect_p', 'prom1', 'prom2', 'prom2_chain') else 'c1.y'
        kw['scaling'] = {src: _sscale(case['sscale'], shape)}
    spec = models.make(**kw)
    return spec


def _check_inputs(ref, U, getter, tag, V, tol=1e-12):
    n_bad = 0
    for tgt, want in ref.inputs(U).items():
        got = np.asarray(getter(tgt)).ravel()
        if got.shape != want.shape:
            V('input_shape_' + tag, '%s: got shape %s expected %s' % (tgt, got.shape, want.shape))
            n_bad += 1
            continue
        scale = max(1.0, float(np.max(np.abs(want), initial=0.0)))
        err = float(np.max(np.abs(got - want), initial=0.0))
        if not np.isfinite(err) or err > tol * scale:
            V('input_value_' + tag, '%s: got %s expected %s' % (tgt, got.tolist(), want.tolist()))
            n_bad += 1
    return n_bad


def _discrete(k):
    import openmdao.api as om
    vio = []

    class DSrc(om.ExplicitComponent):
        def setup(self):
            self.add_discrete_output('d', val={'k': k, 'payload': [k, k + 1]})
            self.add_output('y', 1.0)

        def compute(self, inputs, outputs, discrete_inputs=None, discrete_outputs=None):
            discrete_outputs['d'] = {'k': k, 'payload': [k, k + 1], 'run': True}

    seen = []

    class DTgt(om.ExplicitComponent):
        def setup(self):
            self.add_discrete_input('d', val={'k': -1})
            self.add_input('x', 1.0)
            self.add_output('z', 1.0)

        def compute(self, inputs, outputs, discrete_inputs=None, discrete_outputs=None):
            seen.append(discrete_inputs['d'])
            outputs['z'] = 2.0 * inputs['x']

    p = om.Problem(reports=None)
    how = k % 3
    # solver context of the group that owns the connection: none, block Gauss-Seidel (one
    # transfer per subsystem), block Jacobi (one full transfer per iteration)
    nl = ('none', 'nlbgs', 'nlbj')[(k // 3) % 3]
    if nl == 'nlbgs':
        p.model.nonlinear_solver = om.NonlinearBlockGS(iprint=-1, maxiter=4)
    elif nl == 'nlbj':
        p.model.nonlinear_solver = om.NonlinearBlockJac(iprint=-1, maxiter=4)
    if how == 0:
        p.model.add_subsystem('s', DSrc())
        p.model.add_subsystem('t', DTgt())
        p.model.connect('s.d', 't.d')
        p.model.connect('s.y', 't.x')
        tname = 't.d'
    elif how == 1:
        p.model.add_subsystem('s', DSrc(), promotes_outputs=['d'])
        p.model.add_subsystem('t', DTgt(), promotes_inputs=['d'])
        tname = 't.d'
    else:
        g = p.model.add_subsystem('G', om.Group())
        g.add_subsystem('s', DSrc(), promotes_outputs=['d'])
        h = p.model.add_subsystem('H', om.Group(), promotes_inputs=['d'])
        h.add_subsystem('t', DTgt(), promotes_inputs=['d'])
        p.model.connect('G.d', 'd')
        tname = 'H.t.d'
    case = {'discrete': k}
    try:
        p.setup()
        p.run_model()
    except Exception as exc:
        return 'violation', 0, [{'sig': 'C04:discrete_raises:%d:%s' % (how, nl), 'case': case,
                                 'msg': 'discrete model %d raised %s: %s' % (how, type(exc).__name__,
                                                                             str(exc)[:200])}]
    want = {'k': k, 'payload': [k, k + 1], 'run': True}
    if not seen or seen[-1] != want:
        vio.append({'sig': 'C04:discrete_value:%d:%s' % (how, nl), 'case': case,
                    'msg': 'discrete input saw %r expected %r' % (seen[-1:] or None, want)})
    return ('violation' if vio else 'ok_discrete'), 1, vio


def check_case(case):
    if 'discrete' in case:
        oc, nt, vio = _discrete(case['discrete'])
        return {'evals': 1, 'nontrivial': nt, 'outcome': oc, 'violations': vio}
    if 'resize' in case:
        oc, nt, vio = _resize(case)
        return {'evals': len(case['resize']['seq']), 'nontrivial': nt, 'outcome': oc,
                'violations': vio}
    cls = _cls(case)
    vio = []

    def V(what, msg):
        vio.append({'sig': 'C04:%s:%s' % (what, cls), 'case': case,
                    'msg': '%s shape=%s idx=%r flat=%s where=%s units=%s ctx=%s: %s' % (
                        what, case['shape'], case['idx'], case['flat'], case['where'], case['units'],
                        case['ctx'], msg)})
    spec = _build_spec(case)
    ref = ir.Ref(spec)
    tr = ir.Trace()
    buf = io.StringIO()
    try:
        with contextlib.redirect_stdout(buf), contextlib.redirect_stderr(buf):
            prob, info = ir.build(spec, trace=tr)
            tr.prob = prob
            prob.final_setup()
            tr.records.clear()
            prob.run_model()
    except Exception as exc:
        if type(exc).__name__ == 'AnalysisError':
            return {'evals': 1, 'outcome': 'not_converged', 'violations': []}
        V('rejects_valid', '%s: %s' % (type(exc).__name__, str(exc)[:300]))
        return {'evals': 1, 'outcome': 'violation', 'violations': vio}
    model = prob.model

    def getter(tgt):
        return model.get_val(tgt, from_src=False, flat=True)

    # (a) after run_model
    U = ir.gather_U(prob, ref)
    _check_inputs(ref, U, getter, 'after_run', V)
    # order of root outputs for the snapshots
    out_slices = {}
    for n in ref.outs:
        absn = ir.src_abs_name(prob, spec, n)
        try:
            a, b = model._outputs.get_range(absn)
            out_slices[n] = slice(a, b)
        except Exception:
            out_slices[n] = None
    # (b) before every evaluation
    n_eval = 0
    scal = {}
    for n in ref.outs:
        t = ref.tab[n]
        meta = t.get('meta') or {}
        if t['kind'] == 'ivc':
            meta = [v for v in spec['ivcs'] if 'ivc.' + v['name'] == n][0]
        if meta.get('ref') is not None or meta.get('ref0') is not None:
            r = 1.0 if meta.get('ref') is None else np.asarray(meta['ref'], dtype=float).ravel()
            r0 = 0.0 if meta.get('ref0') is None else np.asarray(meta['ref0'], dtype=float).ravel()
            scal[n] = (r, r0)
    if out_slices and all(v is not None for v in out_slices.values()):
        for kind, path, inputs, snap in tr.records:
            if snap is None:
                continue
            n_eval += 1
            Uk = np.zeros(ref.N)
            for n in ref.outs:
                v = snap[out_slices[n]]
                if scal.get(n) is not None and not n.startswith(path + '.'):
                    # the root vector is in the scaled state while a component runs; only the
                    # running component's own variables are unscaled
                    r, r0 = scal[n]
                    v = r0 + (r - r0) * v
                Uk[ref.sl(n)] = v
            comp = [c for c in spec['comps'] if c['path'] == path][0]
            for iv in comp['inputs']:
                tgt = path + '.' + iv['name']
                want = ref.input_val(Uk, tgt)
                got = np.asarray(inputs[iv['name']]).ravel()
                scale = max(1.0, float(np.max(np.abs(want), initial=0.0)))
                if got.shape != want.shape or not np.allclose(got, want, rtol=0, atol=1e-12 * scale):
                    V('input_before_eval', '%s at %s #%d: got %s expected %s' % (
                        tgt, kind, n_eval, got.tolist(), want.tolist()))
                    break
            if vio:
                break
    # (c) change the source after final_setup and re-run
    if not vio:
        try:
            with contextlib.redirect_stdout(buf), contextlib.redirect_stderr(buf):
                for n in ref.outs:
                    t = ref.tab[n]
                    if t['kind'] in ('ivc', 'auto'):
                        newv = (t['val'] * 0.5 + 0.75 + 0.125 * np.arange(t['val'].size).reshape(
                            t['val'].shape))
                        prob.set_val(ir.om_name(spec, n) if t['kind'] == 'auto' else n, newv)
                prob.run_model()
            U2 = ir.gather_U(prob, ref)
            _check_inputs(ref, U2, getter, 'after_set_val', V)
            R = ref.residual(U2)
            rn = float(np.max(np.abs(R[~ref.free]), initial=0.0))
            if rn > 1e-8:
                V('state_not_solution', 'reference residual %.3e after re-run' % rn)
        except Exception as exc:
            if type(exc).__name__ != 'AnalysisError':
                V('rerun_raises', '%s: %s' % (type(exc).__name__, str(exc)[:300]))
    r = _np_ok(tuple(case['shape']), case['idx'], case['flat'])
    N = int(np.prod(case['shape']))
    nontriv = int((r.size >= 2 and not (r.size == N and np.array_equal(r.ravel(), np.arange(N))))
                  or case['units'] != 'none')
    return {'evals': 1 + n_eval, 'nontrivial': nontriv if not vio else 0,
            'outcome': 'violation' if vio else 'ok', 'violations': vio,
            'counters': {'evaluations_observed': n_eval}, 'sample': cls}
