"""C05 - index objects follow NumPy indexing semantics (DESIGN.md section 4, C05).

Complete enumeration of an index grammar over all source shapes within the bound; oracle = NumPy
applied to arange(shape).  Admissibility is decided by the reference (see `_may_reject`).
"""
import itertools
import warnings

import numpy as np

ID = 'C05'
LEVEL = 'exploration'
TECHNIQUE = ('bounded exhaustive enumeration of (index spec, source shape, flat flag) against NumPy '
             'as reference model; exhaustive array2slice over all short integer arrays')
RULE = ('every index spec of the grammar (ints, slices with start/stop/step over the full axis range, '
        'integer lists, tuples, ellipsis, chains of two indexers) x every shape in the bound x '
        'flat/non-flat x three construction paths (constructor, set_src_shape, re-shape of an '
        'already resolved object); non-trivial = accepted by NumPy and OpenMDAO, '
        'selects >= 2 entries and is not the identity selection; each (spec, shape, flat) is '
        'enumerated once')
LEVEL_TEXT = ('Every index spec of a bounded grammar is applied to every source shape within the bound '
              '(complete enumeration, about 1M (spec, shape, flat) triples in the quick tier) and each '
              'observable of the Indexer API is compared with NumPy; small-scope exhaustiveness is the '
              'right level because the defects of this code are combinations of index class, sign, '
              'step direction and source rank, all of which occur at extents <= 3.')
LEVEL_NOTE = ('NumPy is the reference; extents above the bound and distributed sources are not '
              'covered; inputs OpenMDAO may legitimately reject are decided by the reference model.')
ASSUMPTIONS = ['NumPy indexing is the reference semantics',
               'OpenMDAO may reject: NumPy raises; multi-axis tuple into a flat source; slice '
               'start/stop outside [-size, size]; empty selection.  It must accept everything else.',
               'bounded shapes: rank <= 3, extent <= 3 (quick) / <= 4 and rank 4 extent 2 (thorough)']
MIN_NONTRIVIAL = {'quick': 20000, 'thorough': 100000}
CHUNK = 1

_STEPS_FULL = [None, 1, -1, 2, -2, 3, -3]


def _shapes(tier):
    ext = (1, 2, 3) if tier == 'quick' else (1, 2, 3, 4)
    out = []
    for rank in (1, 2, 3):
        out.extend(itertools.product(ext, repeat=rank))
    if tier == 'thorough':
        out.append((2, 2, 2, 2))
        out.append((5,))
        out.append((7,))
    else:
        out.append((4,))
        out.append((5,))
    return out


def cases(tier, seed):
    out = []
    for shp in _shapes(tier):
        out.append({'kind': 'flat1', 'shape': shp, 'flat': True, 'tier': tier})
        out.append({'kind': 'flat1', 'shape': shp, 'flat': False, 'tier': tier})
        if len(shp) > 1:
            out.append({'kind': 'tuple', 'shape': shp, 'flat': False, 'tier': tier})
            out.append({'kind': 'tupleflat', 'shape': shp, 'flat': True, 'tier': tier})
        out.append({'kind': 'chain', 'shape': shp, 'flat': False, 'tier': tier})
        out.append({'kind': 'chain', 'shape': shp, 'flat': True, 'tier': tier})
    maxlen, lo, hi = (4, -2, 5) if tier == 'quick' else (5, -3, 7)
    for ln in range(0, maxlen + 1):
        if ln <= 1:
            out.append({'kind': 'a2s', 'len': ln, 'lo': lo, 'hi': hi, 'first': None})
        else:
            for first in range(lo, hi + 1):
                out.append({'kind': 'a2s', 'len': ln, 'lo': lo, 'hi': hi, 'first': first})
    return out


# ------------------------------------------------------------------ grammar

def _ints(n):
    return list(range(-n - 1, n + 1))


def _slices_full(n, steps=_STEPS_FULL):
    vals = [None] + list(range(-n - 1, n + 2))
    return [slice(a, b, c) for a in vals for b in vals for c in steps]


def _lists(n, maxlen=3):
    out = []
    rng = list(range(-n, n))
    for ln in range(1, maxlen + 1):
        if len(rng) ** ln > 400:
            # keep all lists with entries from the boundary set only
            rset = sorted(set([-n, -1, 0, n - 1, min(1, n - 1)]))
            out.extend(list(t) for t in itertools.product(rset, repeat=ln))
        else:
            out.extend(list(t) for t in itertools.product(rng, repeat=ln))
    # one out-of-range entry
    out.append([n])
    out.append([0, -n - 1])
    return out


def _axis_small(n):
    """Small per-axis alphabet for full tuple products."""
    els = [0, -1, slice(None), slice(None, None, -1), slice(1, None), slice(None, -1),
           slice(None, None, 2), slice(-1, None, -1), [0], [n - 1, 0], [-1, -n], n - 1, -n,
           slice(0, n, 1), slice(n - 1, None, -2)]
    seen, out = set(), []
    for e in els:
        k = repr(e)
        if k not in seen:
            seen.add(k)
            out.append(e)
    return out


_TINY = [slice(None), 0, -1]


def _axis_full(n):
    return _ints(n) + _slices_full(n, [None, 1, -1, 2, -2]) + _lists(n, 2)


def flat1_specs(n, tier):
    """1-element (non-tuple) specs for an axis / flat source of extent n."""
    if n <= 9:
        sl = _slices_full(n)
    else:
        b = sorted(set([-n - 1, -n, -n + 1, -n // 2, -2, -1, 0, 1, 2, n // 2, n - 1, n, n + 1]))
        vals = [None] + b
        sl = [slice(a, bb, c) for a in vals for bb in vals for c in _STEPS_FULL]
    out = _ints(n) + sl + _lists(n, 3 if n <= 6 else 2)
    out.append(Ellipsis)
    out.append((Ellipsis,))
    out.append(np.array([0, n - 1]))
    out.append(np.array([[0, n - 1], [n - 1, 0]]) if False else np.array([-1, 0, -1]))
    for s in (slice(None), slice(None, None, -1), 0, [0, -1]):
        out.append((s,))
    return out


def tuple_specs(shape, tier):
    rank = len(shape)
    out = []
    smalls = [_axis_small(n) for n in shape]
    # full product of the small alphabets over the first k axes, k = 2..rank
    for k in range(2, rank + 1):
        if k == 3 and tier == 'quick':
            sm = [s[:9] for s in smalls[:k]]
        else:
            sm = smalls[:k]
        out.extend(itertools.product(*sm))
    # one axis over its full alphabet, the others tiny
    for k in range(2, rank + 1):
        for ax in range(k):
            for el in _axis_full(shape[ax]):
                for others in itertools.product(_TINY, repeat=k - 1):
                    t = list(others)
                    t.insert(ax, el)
                    out.append(tuple(t))
    # ellipsis forms
    for k in range(0, rank):
        for els in itertools.product(*[s[:7] for s in smalls[:k]]) if k else [()]:
            out.append((Ellipsis,) + tuple(els))
            out.append(tuple(els) + (Ellipsis,))
            if k >= 2:
                out.append((els[0], Ellipsis) + tuple(els[1:]))
        if k and k < rank:
            for els in itertools.product(*[s[:7] for s in smalls[rank - k:]]):
                out.append((Ellipsis,) + tuple(els))
    # 2-D index arrays on the first axis
    n0 = shape[0]
    out.append((np.array([[0, n0 - 1], [n0 - 1, 0]]), slice(None)))
    out.append((np.array([[0], [n0 - 1]]), [0, shape[1] - 1]))
    return out


# ------------------------------------------------------------------ oracle

def _np_index(shape, flat, idx):
    a = np.arange(int(np.prod(shape))).reshape(shape)
    src = a.ravel() if flat else a
    with warnings.catch_warnings():
        warnings.simplefilter('error')
        try:
            r = src[idx if not isinstance(idx, list) else np.asarray(idx, dtype=int)]
        except Exception as exc:
            return None, type(exc).__name__
    return np.asarray(r), None


def _slice_oob(idx, shape, flat):
    """True if some slice start/stop lies outside [-size, size] of its axis (documented stricter
    rule than NumPy in _check_bounds)."""
    if flat:
        shape = (int(np.prod(shape)),)
    tup = idx if isinstance(idx, tuple) else (idx,)
    # expand ellipsis
    if any(t is Ellipsis for t in tup):
        nfull = len(shape) - (len(tup) - 1)
        new = []
        for t in tup:
            if t is Ellipsis:
                new.extend([slice(None)] * max(nfull, 0))
            else:
                new.append(t)
        tup = tuple(new)
    for ax, t in enumerate(tup):
        if isinstance(t, slice) and ax < len(shape):
            n = shape[ax]
            if t.start is not None and (t.start >= n or t.start < -n):
                return True
            if t.stop is not None and (t.stop > n or t.stop < -n):
                return True
    return False


def _is_multi(idx):
    if isinstance(idx, tuple):
        n = sum(1 for t in idx if t is not Ellipsis)
        return n > 1
    return False


def _eq(a, b):
    a = np.asarray(a)
    b = np.asarray(b)
    return a.shape == b.shape and np.array_equal(a, b)


def _idx_key(idx):
    from omv.core.codec import short
    return short(idx, 120)


def _classify(idx, shape, flat):
    """structural class of an index spec - used in violation signatures"""
    def one(t):
        if t is Ellipsis:
            return 'E'
        if isinstance(t, (int, np.integer)):
            return 'i-' if t < 0 else 'i'
        if isinstance(t, slice):
            st = t.step
            s = 'S'
            if st is not None and st < 0:
                s += 'neg'
                if t.start is None:
                    s += '_startNone'
                if t.stop is not None and t.stop >= 0:
                    s += '_stop>=0'
            return s
        a = np.asarray(t)
        return 'A%dd' % a.ndim
    if isinstance(idx, tuple):
        c = 'T(' + ','.join(one(t) for t in idx) + ')'
    else:
        c = one(idx)
    nd = 'flat' if flat else ('%dD' % len(shape))
    return c + '/' + nd


def check_single(shape, flat, idx, path='ctor'):
    """Returns (outcome, nontrivial, violations)"""
    from openmdao.utils.indexer import indexer
    shape = tuple(shape)
    vio = []
    exp, nperr = _np_index(shape, flat, idx)
    cls = _classify(idx, shape, flat)
    case = {'kind': 'single', 'shape': shape, 'flat': flat, 'idx': idx, 'path': path}

    def V(what, msg, **kw):
        d = {'sig': 'C05:%s:%s' % (what, cls), 'msg': '%s shape=%s flat=%s idx=%s: %s' % (
            what, shape, flat, _idx_key(idx), msg), 'case': case}
        d.update(kw)
        vio.append(d)

    may_reject = (nperr is not None or (flat and _is_multi(idx)) or
                  _slice_oob(idx, shape, flat) or (exp is not None and exp.size == 0))
    try:
        with warnings.catch_warnings():
            warnings.simplefilter('ignore')
            if path == 'ctor':
                ix = indexer(idx, src_shape=shape, flat_src=flat)
            elif path == 'reshape':
                # history: the same index object is first given (and resolved against) a larger
                # source shape, then the shape under test
                ix = indexer(idx, flat_src=flat)
                try:
                    ix.set_src_shape(tuple(n + 1 for n in shape))
                    ix.shaped_array()
                    ix.indexed_src_shape
                except Exception:
                    pass
                ix.set_src_shape(shape)
            else:
                ix = indexer(idx, flat_src=flat)
                ix.set_src_shape(shape)
    except Exception as exc:
        if may_reject:
            return 'rejected_admissibly', 0, vio
        V('rejects_valid', 'constructor raised %s: %s' % (type(exc).__name__, str(exc)[:200]))
        return 'violation', 0, vio
    if nperr is not None:
        # NumPy rejects: the shape is not compatible; nothing is required of the accessors
        return 'numpy_rejects_om_accepts', 0, vio

    N = int(np.prod(shape))
    a = np.arange(N).reshape(shape)
    positions = exp.ravel()
    obs = {}

    def attempt(name, fn):
        try:
            with warnings.catch_warnings():
                warnings.simplefilter('ignore')
                obs[name] = fn()
            return True
        except Exception as exc:
            obs[name] = exc
            return False

    attempt('shaped_array', lambda: np.asarray(ix.shaped_array()))
    attempt('shaped_as_array', lambda: np.asarray(ix.shaped_instance().as_array()))
    if flat or len(shape) == 1:   # flat() is an index into a flat source
        attempt('flat', lambda: np.asarray(np.arange(N)[ix.flat()]))
    attempt('shape', lambda: tuple(ix.indexed_src_shape))
    attempt('size', lambda: int(ix.indexed_src_size))
    attempt('indexed_val', lambda: np.asarray(ix.indexed_val(a)))
    attempt('call', lambda: np.asarray((a.ravel() if flat else a)[ix.shaped_instance()()]))
    attempt('call_unshaped', lambda: np.asarray((a.ravel() if flat else a)[ix()]))

    def set_rt():
        vals = (np.arange(exp.size) + 100).reshape(exp.shape)
        b = np.zeros(shape, dtype=int)
        ix.indexed_val_set(b, vals)
        c = np.zeros(shape, dtype=int)
        npidx = idx if not isinstance(idx, list) else np.asarray(idx, dtype=int)
        if flat:
            c.ravel()[npidx] = vals
        else:
            c[npidx] = vals
        return _eq(b, c)
    attempt('set_roundtrip', set_rt)

    expected = {
        'shaped_array': positions, 'shaped_as_array': positions,
        'flat': positions, 'shape': tuple(exp.shape), 'size': int(exp.size),
        'indexed_val': exp, 'call': exp, 'call_unshaped': exp, 'set_roundtrip': True,
    }
    empty = exp.size == 0
    for name, want in expected.items():
        if name not in obs:
            continue
        got = obs[name]
        if isinstance(got, Exception):
            if may_reject:
                continue
            V(name + '_raises', '%s: %s' % (type(got).__name__, str(got)[:200]))
            continue
        if name in ('shape', 'size', 'set_roundtrip'):
            ok = got == want
        elif name == 'indexed_val' and flat:
            # with a flat source indexed_val returns the selected values as a flat array
            ok = np.array_equal(np.asarray(got).ravel(), positions)
        elif name in ('indexed_val', 'call', 'call_unshaped'):
            ok = _eq(got, want)
        else:
            ok = np.array_equal(np.asarray(got).ravel(), want) and np.asarray(got).ndim <= 1
        if not ok:
            if empty and may_reject and False:
                continue
            V(name, 'got %s expected %s' % (np.asarray(got).tolist() if not isinstance(
                got, (tuple, int, bool)) else got, np.asarray(want).tolist() if not isinstance(
                    want, (tuple, int, bool)) else want))
    if vio:
        return 'violation', 0, vio
    nontriv = int(exp.size >= 2 and not (exp.size == N and np.array_equal(positions,
                                                                           np.arange(N))))
    return ('accepted_empty' if empty else 'accepted'), nontriv, vio


def check_try_slice(shape, flat, arr):
    from openmdao.utils.indexer import indexer
    exp, nperr = _np_index(shape, flat, np.asarray(arr, dtype=int))
    if nperr is not None or exp.size == 0:
        return 0, []
    case = {'kind': 'try_slice', 'shape': tuple(shape), 'flat': flat, 'idx': list(arr)}
    try:
        ix = indexer(np.asarray(arr, dtype=int), src_shape=shape, flat_src=flat, try_slice=True)
        got = np.asarray(ix.shaped_array())
        shp = tuple(ix.indexed_src_shape)
    except Exception as exc:
        return 1, [{'sig': 'C05:try_slice_raises:%s' % type(exc).__name__,
                    'msg': 'try_slice shape=%s flat=%s arr=%s: %s' % (shape, flat, arr, exc),
                    'case': case}]
    if not np.array_equal(got.ravel(), exp.ravel()) or shp != exp.shape:
        return 1, [{'sig': 'C05:try_slice_positions:' + _classify(np.asarray(arr), shape, flat),
                    'case': case,
                    'msg': 'try_slice shape=%s flat=%s arr=%s: got %s/%s expected %s/%s' % (
                        shape, flat, arr, got.tolist(), shp, exp.ravel().tolist(), exp.shape)}]
    return 1, []


def _chain_alpha(shape):
    """first-stage indexers for chains"""
    n = shape[0]
    out = [slice(None), slice(None, None, -1), slice(1, None), [n - 1, 0], slice(None, None, 2),
           [0, 0, -1], slice(-1, None, -1)]
    if len(shape) > 1:
        out += [(slice(None), 0), (0,), (slice(None, None, -1), slice(None)), (Ellipsis, -1),
                ([0, n - 1], slice(None)), (slice(None), [0, shape[1] - 1])]
    return out


def check_chain(shape, flat, i1, i2, flat2):
    from openmdao.utils.indexer import indexer, idx_list_to_index_array, idx_list_to_shape, \
        apply_idx_list
    r1, e1 = _np_index(shape, flat, i1)
    if e1 is not None or r1.size == 0 or r1.ndim == 0:
        return 'skip', 0, []
    a = np.arange(int(np.prod(shape))).reshape(shape)
    src2 = r1.ravel() if flat2 else r1
    try:
        with warnings.catch_warnings():
            warnings.simplefilter('error')
            r2 = np.asarray(src2[i2 if not isinstance(i2, list) else np.asarray(i2, dtype=int)])
    except Exception:
        return 'skip', 0, []
    if r2.size == 0:
        return 'skip', 0, []
    if _slice_oob(i1, shape, flat) or _slice_oob(i2, r1.shape, flat2) or \
            (flat and _is_multi(i1)) or (flat2 and _is_multi(i2)):
        return 'skip', 0, []
    case = {'kind': 'chain1', 'shape': tuple(shape), 'flat': flat, 'i1': i1, 'i2': i2,
            'flat2': flat2}
    cls = _classify(i1, shape, flat) + '>' + _classify(i2, r1.shape, flat2)
    vio = []
    try:
        with warnings.catch_warnings():
            warnings.simplefilter('ignore')
            x1 = indexer(i1, src_shape=shape, flat_src=flat)
            x2 = indexer(i2, src_shape=r1.shape, flat_src=flat2)
            arr = np.asarray(idx_list_to_index_array([x1, x2]))
            shp = tuple(idx_list_to_shape([indexer(i1, flat_src=flat),
                                           indexer(i2, flat_src=flat2)], shape))
            val = np.asarray(apply_idx_list(a, [x1, x2]))
    except Exception as exc:
        vio.append({'sig': 'C05:chain_raises:%s' % cls, 'case': case,
                    'msg': 'chain shape=%s %s then %s: %s: %s' % (
                        shape, _idx_key(i1), _idx_key(i2), type(exc).__name__, str(exc)[:200])})
        return 'violation', 0, vio
    if not np.array_equal(arr.ravel(), r2.ravel()):
        vio.append({'sig': 'C05:chain_positions:%s' % cls, 'case': case,
                    'msg': 'chain shape=%s flat=%s %s then(flat=%s) %s: got %s expected %s' % (
                        shape, flat, _idx_key(i1), flat2, _idx_key(i2), arr.ravel().tolist(),
                        r2.ravel().tolist())})
    if shp != r2.shape:
        vio.append({'sig': 'C05:chain_shape:%s' % cls, 'case': case,
                    'msg': 'chain shape=%s %s then %s: shape %s expected %s' % (
                        shape, _idx_key(i1), _idx_key(i2), shp, r2.shape)})
    if not (np.array_equal(val.ravel(), r2.ravel()) if (flat or flat2) else _eq(val, r2)):
        vio.append({'sig': 'C05:chain_value:%s' % cls, 'case': case,
                    'msg': 'apply_idx_list differs from NumPy'})
    return ('violation' if vio else 'accepted'), int(r2.size >= 2), vio


def check_a2s(arr):
    from openmdao.utils.indexer import array2slice
    a = np.asarray(arr, dtype=int)
    case = {'kind': 'a2s1', 'arr': list(arr)}
    try:
        slc = array2slice(a)
    except Exception as exc:
        return 'violation', 0, [{'sig': 'C05:array2slice_raises:%s' % type(exc).__name__,
                                 'case': case, 'msg': 'array2slice(%s): %s' % (list(arr), exc)}]
    if slc is None:
        return 'no_slice', 0, []
    if not isinstance(slc, slice):
        return 'violation', 0, [{'sig': 'C05:array2slice_type', 'case': case,
                                 'msg': 'array2slice(%s) returned %r' % (list(arr), slc)}]
    # a non-negative array must select the same positions for every N > max (and N >= 1)
    if a.size and a.min() < 0:
        # a slice for an array with negative entries depends on N: only allowed if it never
        # changes the selection; check N in range too
        lo = max(int(a.max()) + 1, int(-a.min()), 1)
    else:
        lo = (int(a.max()) + 1) if a.size else 1
    for N in range(lo, lo + 4):
        base = np.arange(N)
        want = base[a]
        got = base[slc]
        if not np.array_equal(want, got):
            return 'violation', 0, [{'sig': 'C05:array2slice_positions', 'case': case,
                                     'msg': 'array2slice(%s) = %r selects %s from arange(%d), '
                                     'array selects %s' % (list(arr), slc, got.tolist(), N,
                                                           want.tolist())}]
    return 'slice', int(a.size >= 2), []


def check_case(case):
    kind = case['kind']
    if kind == 'single':
        oc, nt, vio = check_single(case['shape'], case['flat'], case['idx'],
                                   case.get('path', 'ctor'))
        return {'evals': 1, 'nontrivial': nt, 'outcome': oc, 'violations': vio}
    if kind == 'try_slice':
        ev, vio = check_try_slice(case['shape'], case['flat'], case['idx'])
        return {'evals': ev, 'violations': vio}
    if kind == 'chain1':
        oc, nt, vio = check_chain(case['shape'], case['flat'], case['i1'], case['i2'],
                                  case['flat2'])
        return {'evals': 1, 'nontrivial': nt, 'outcome': oc, 'violations': vio}
    if kind == 'a2s1':
        oc, nt, vio = check_a2s(case['arr'])
        return {'evals': 1, 'nontrivial': nt, 'outcome': oc, 'violations': vio}

    import collections
    outcomes = collections.Counter()
    evals = nontriv = 0
    vios = []
    seen_sig = collections.Counter()

    def add(oc, nt, vio):
        nonlocal evals, nontriv
        evals += 1
        nontriv += nt
        outcomes[oc] += 1
        for v in vio:
            seen_sig[v['sig']] += 1
            if seen_sig[v['sig']] <= 2:
                vios.append(v)

    if kind in ('flat1', 'tuple', 'tupleflat'):
        shape, flat, tier = tuple(case['shape']), case['flat'], case['tier']
        if kind == 'flat1':
            n = int(np.prod(shape)) if flat else shape[0]
            specs = flat1_specs(n, tier)
        else:
            specs = tuple_specs(shape, tier)
            if kind == 'tupleflat':
                specs = specs[::7]   # all must be rejected (multi-dim into flat source)
        seen = set()
        for idx in specs:
            k = repr(idx)
            if k in seen:
                continue
            seen.add(k)
            for path in ('ctor', 'set_src_shape', 'reshape'):
                add(*check_single(shape, flat, idx, path))
            if isinstance(idx, list) or (isinstance(idx, np.ndarray) and idx.ndim == 1):
                ev, vio = check_try_slice(shape, flat, list(np.asarray(idx).tolist()))
                if ev:
                    add('try_slice', 0, vio)
        sample = {'kind': kind, 'shape': shape, 'flat': flat, 'n_specs': len(seen),
                  'e.g.': [specs[len(specs) // 3], specs[-1]]}
    elif kind == 'chain':
        shape, flat = tuple(case['shape']), case['flat']
        firsts = _chain_alpha(shape)
        n_pairs = 0
        for i1 in firsts:
            if flat and _is_multi(i1):
                continue
            r1, e1 = _np_index(shape, flat, i1)
            if e1 is not None or r1.ndim == 0 or r1.size == 0:
                continue
            for flat2 in (False, True):
                seconds = _chain_alpha(r1.shape if not flat2 else (r1.size,))
                n2 = r1.size if flat2 else r1.shape[0]
                seconds = seconds + [0, -1, [0], slice(0, n2)]
                for i2 in seconds:
                    if flat2 and _is_multi(i2):
                        continue
                    oc, nt, vio = check_chain(shape, flat, i1, i2, flat2)
                    if oc != 'skip':
                        n_pairs += 1
                        add(oc, nt, vio)
        sample = {'kind': kind, 'shape': shape, 'flat': flat, 'pairs': n_pairs}
    elif kind == 'a2s':
        ln, lo, hi, first = case['len'], case['lo'], case['hi'], case['first']
        rng = range(lo, hi + 1)
        if first is None:
            it = itertools.product(rng, repeat=ln)
        else:
            it = ((first,) + t for t in itertools.product(rng, repeat=ln - 1))
        for arr in it:
            add(*check_a2s(arr))
        sample = dict(case)
    else:
        raise ValueError(kind)
    return {'evals': evals, 'nontrivial': nontriv, 'outcome': dict(outcomes), 'violations': vios,
            'sample': sample}
