"""C06 - unit conversion is a consistent affine algebra (DESIGN.md section 4, C06).

Two parts.

* algebra (complete enumeration): every ordered pair of library units, every ordered triple inside
  each compatibility class, every prefix x library unit, every composite expression of depth <= 2
  over a small basis, simplify_unit round trip.  The reference model (`RefLib`, `R`) is a separate
  40-line evaluation of unit_library.ini: a unit is (factor, base powers, offset); it shares no
  code with openmdao.utils.units.
* history (explicit-state search, E2): the unit table is mutable (prefixed units are added on first
  use) so a look-up may depend on earlier look-ups.  Every history of look-ups over a 24-name
  alphabet up to the depth bound is replayed on a *fresh* library (openmdao.utils.units.
  import_library re-run on the text of unit_library.ini: 2 ms, resets `_UNIT_LIB` and `_UNIT_CACHE`,
  which are the only mutable module state and are referenced by no other module) and every look-up
  is compared with the same look-up made first on a fresh library (differential oracle).
"""
import collections
import hashlib
import io
import itertools
import math
import os
import re

import numpy as np

ID = 'C06'
LEVEL = 'model_checking'
TECHNIQUE = ('explicit-state search over unit look-up histories on a fresh unit library per history '
             '(differential oracle) + exhaustive enumeration of pair/triple/prefix/composite unit '
             'expressions against an independent (factor, powers, offset) reference model')
RULE = ('algebra: every ordered pair of the library units, every ordered triple inside each '
        'compatibility class, every prefix x library unit (fresh library per name), every composite '
        'expression of depth <= 2 of the grammar {a*b, a/b, a**k, a**(1/n), number*a, a/number, '
        '1/a} over the basis; non-trivial = accepted expression that is not a bare library name '
        '(pairs: compatible pair of two different units).  history: every sequence of look-ups of '
        'length <= 3 over the 24-name alphabet (thorough: plus every sequence of length 4 over 16 '
        'of the names), each replayed on a fresh library; a state is the '
        'canonical content of unit table + cache after the history; non-trivial = history that adds '
        'at least one prefixed unit to the table; traces = histories of the maximal length of their '
        'tree on which every look-up agreed with the fresh-library look-up')
LEVEL_TEXT = ('All look-up histories up to the depth bound over an alphabet of collision-prone names '
              'are executed against the real module from a fresh unit library and compared step by '
              'step with a history-free look-up (states/transitions/traces reported); the algebraic '
              'laws are enumerated completely over the shipped library (19 600 ordered pairs, all '
              'triples inside compatibility classes, 3 640 prefixed names) and a bounded expression '
              'grammar.  Explicit-state search is the right level because the unit table is mutable '
              'shared state; the laws themselves are finite over the shipped library.')
LEVEL_NOTE = ('The reference model evaluates unit_library.ini with its own unit arithmetic; the '
              'numeric definitions in the ini file are trusted data (spot-checked against 20 '
              'NIST/SI values).  Values come from four fixed palettes; expressions deeper than 2 '
              'and user-added units are not covered.')
ASSUMPTIONS = [
    'unit_library.ini is the specification of the library units; 20 conversions are anchored to '
    'published SI/NIST values',
    'a library name wins over a prefix reading of the same spelling (documented in the ini file)',
    'the library may reject: arithmetic on offset units, non (inverse-)integer powers, roots of '
    'units whose base powers are not divisible, prefixes on offset units and on unit names '
    'containing "_" (the prefix scanner only sees alphanumerics); any exception or None counts as '
    'rejection (the property does not fix the exception class)',
    'corner left out (statement silent): number / offset-unit (e.g. 1/degC is accepted as 1/K)',
    'corner left out: expressions whose simplified name is a bare number (e.g. 2*m/m)',
    'compound prefixes (a prefix applied to an already prefixed name) are not units: a fresh '
    'library rejects them',
    'openmdao.utils.units.import_library(text of unit_library.ini) yields a fresh library: it '
    'rebinds _UNIT_LIB and _UNIT_CACHE, the only mutable state of the module',
]
MIN_NONTRIVIAL = {'quick': 50000, 'thorough': 140000}
CHUNK = 1

# ----------------------------------------------------------------------------------------------
# fresh library

_INI_TEXT = None


def _units_mod():
    import openmdao.utils.units as U
    return U


def _ini_text():
    global _INI_TEXT
    if _INI_TEXT is None:
        U = _units_mod()
        with open(os.path.join(os.path.dirname(U.__file__), 'unit_library.ini')) as f:
            _INI_TEXT = f.read()
    return _INI_TEXT


def fresh():
    """Re-run the module's own library initialisation: new _UNIT_LIB, empty _UNIT_CACHE."""
    U = _units_mod()
    U.import_library(io.StringIO(_ini_text()))
    return U


# ----------------------------------------------------------------------------------------------
# reference model (independent of openmdao.utils.units)

class RefReject(Exception):
    """the reference says the expression is not a unit (rejection admissible/required)"""


class RefSilent(Exception):
    """corner on which the property statement is silent: excluded from the alphabet"""


class R(object):
    """reference unit: value_in_base = (x + o) * f ; p = integer powers of the base units"""
    __slots__ = ('f', 'p', 'o')

    def __init__(self, f, p, o=0.0):
        self.f = float(f)
        self.p = tuple(p)
        self.o = float(o)

    def _lin(self, what):
        if self.o != 0.0:
            raise RefReject('offset unit in ' + what)

    def __mul__(self, other):
        self._lin('product')
        if isinstance(other, R):
            other._lin('product')
            return R(self.f * other.f, [a + b for a, b in zip(self.p, other.p)])
        return R(self.f * other, self.p)

    __rmul__ = __mul__

    def __truediv__(self, other):
        self._lin('quotient')
        if isinstance(other, R):
            other._lin('quotient')
            return R(self.f / other.f, [a - b for a, b in zip(self.p, other.p)])
        return R(self.f / other, self.p)

    def __rtruediv__(self, other):
        if self.o != 0.0:
            raise RefSilent('number / offset unit')
        return R(other / self.f, [-a for a in self.p])

    def __pow__(self, k):
        self._lin('power')
        if isinstance(k, int):
            return R(self.f ** k, [a * k for a in self.p])
        if isinstance(k, float) and k != 0.0:
            n = int(round(1.0 / k))
            if n != 0 and abs(1.0 / k - n) < 1e-10 and all(a % n == 0 for a in self.p):
                return R(self.f ** k, [a // n for a in self.p])
        raise RefReject('power %r' % (k,))


STD_PREFIX = {'Y': 1e24, 'Z': 1e21, 'E': 1e18, 'P': 1e15, 'T': 1e12, 'G': 1e9, 'M': 1e6, 'k': 1e3,
              'h': 1e2, 'da': 1e1, 'd': 1e-1, 'c': 1e-2, 'm': 1e-3, 'u': 1e-6, 'n': 1e-9, 'p': 1e-12,
              'f': 1e-15, 'a': 1e-18, 'z': 1e-21, 'y': 1e-24,
              'Ki': 2.0 ** 10, 'Mi': 2.0 ** 20, 'Gi': 2.0 ** 30, 'Ti': 2.0 ** 40, 'Pi': 2.0 ** 50,
              'Ei': 2.0 ** 60}


class RefLib(object):
    def __init__(self, text):
        from configparser import RawConfigParser
        cp = RawConfigParser()
        cp.optionxform = str
        cp.read_string(text)
        # prefix spellings come from the shipped table, their values from the SI / IEC definitions
        # wherever the spelling is a standard symbol (the shipped number is then not trusted)
        self.prefixes = collections.OrderedDict(
            (k, STD_PREFIX.get(k, float(v.split(',')[0]))) for k, v in cp.items('prefixes'))
        base = [name for _, name in cp.items('base_units')]
        self.base_names = base
        nb = len(base)
        self.units = collections.OrderedDict()
        for i, name in enumerate(base):
            self.units[name] = R(1.0, [int(j == i) for j in range(nb)])
        todo = list(cp.items('units'))
        while todo:
            rest = []
            for name, spec in todo:
                data = [s.strip() for s in spec.split(',')]
                try:
                    if len(data) == 2:
                        u = eval(data[0], {'__builtins__': None, 'pi': math.pi}, self.units)
                    else:
                        b = self.units[data[1]]
                        u = R(b.f * float(data[0]), b.p, float(data[2]))
                except (NameError, KeyError):
                    rest.append((name, spec))
                    continue
                self.units[name] = R(u.f, u.p, u.o)
            if len(rest) == len(todo):
                raise RuntimeError('reference cannot resolve %s' % [n for n, _ in rest])
            todo = rest
        self.library_names = list(self.units)

    def readings(self, name):
        """all readings of a bare name: ('lib', R) or (prefix, unitname, R)"""
        if name in self.units:
            return [('lib', name, self.units[name])]
        out = []
        for p, pf in self.prefixes.items():
            if name.startswith(p) and name[len(p):] in self.units:
                u = self.units[name[len(p):]]
                out.append((p, name[len(p):], u))
        return out

    def inner_names(self, name):
        """prefixed names q+u such that name == p + q + u for a prefix p (compound-prefix readings)"""
        return [name[len(p):] for p in self.prefixes
                if name.startswith(p) and len(name) > len(p) and
                name[len(p):] not in self.units and self.readings(name[len(p):])]

    def name_class(self, name):
        """lib | o (offset library unit) | p (prefix+library unit) | pp (also/only readable as
        prefix + prefixed name) | x (unknown)"""
        if name in self.units:
            return 'o' if self.units[name].o else 'u'
        rd = self.readings(name)
        stacked = bool(self.inner_names(name))
        if rd:
            return 'pp' if stacked else 'p'
        return 'ppx' if stacked else 'x'

    def resolve(self, name):
        rd = self.readings(name)
        if not rd:
            raise RefReject('unknown unit %s' % name)
        if rd[0][0] == 'lib':
            return rd[0][2]
        vals = set()
        for p, un, u in rd:
            if u.o != 0.0:
                raise RefReject('prefix on offset unit')
            if '_' in un:
                raise RefReject('prefix on a name with underscore')
            vals.add((self.prefixes[p] * u.f, u.p))
        if len(vals) > 1:
            raise RefSilent('ambiguous prefix reading of %s' % name)
        f, p = vals.pop()
        return R(f, p)

    def evaluate(self, expr):
        lib = self

        class Table(dict):
            def __missing__(self, key):
                if key == 'as_':
                    key = 'as'
                return lib.resolve(key)
        expr = re.sub(r'\bas\b', 'as_', expr).strip()
        try:
            r = eval(expr, {'__builtins__': None}, Table())
        except (RefReject, RefSilent):
            raise
        except ZeroDivisionError:
            raise RefReject('zero division')
        if not isinstance(r, R):
            raise RefReject('not a unit')
        return r


_REF = None


def ref():
    global _REF
    if _REF is None:
        _REF = RefLib(_ini_text())
    return _REF


# published values (NIST SP 811 / SI brochure) that anchor the reference model itself:
# (value, from, to, expected)
_ANCHORS = [
    (1.0, 'inch', 'm', 0.0254), (1.0, 'ft', 'm', 0.3048), (1.0, 'mi', 'm', 1609.344),
    (1.0, 'NM', 'm', 1852.0), (1.0, 'lb', 'kg', 0.45359237), (1.0, 'oz', 'g', 28.349523125),
    (1.0, 'h', 's', 3600.0), (1.0, 'd', 'h', 24.0), (1.0, 'wk', 'd', 7.0),
    (1.0, 'atm', 'Pa', 101325.0), (1.0, 'bar', 'Pa', 1e5), (1.0, 'psi', 'Pa', 6894.75729317),
    (1.0, 'lbf', 'N', 4.44822162), (1.0, 'hp', 'W', 745.7), (1.0, 'cal', 'J', 4.184),
    (180.0, 'deg', 'rad', math.pi), (1.0, 'rev', 'deg', 360.0), (1.0, 'L', 'm**3', 1e-3),
    (100.0, 'degC', 'degF', 212.0), (32.0, 'degF', 'degC', 0.0), (0.0, 'degC', 'K', 273.15),
    (-40.0, 'degF', 'degC', -40.0), (491.67, 'degR', 'degC', 0.0), (1.0, 'km', 'm', 1000.0),
    (1.0, 'kn', 'm/s', 1852.0 / 3600.0), (1.0, 'ha', 'm**2', 1e4), (1.0, 'percent', 'unitless', 0.01),
]

_PALETTES = [
    (0.0, 1.0, -2.5, 1e3, (0.25, -1.5, 3.0)),
    (0.0, 1.0, 3.5, -2e3, (0.5, -0.75, 6.0)),
    (0.0, 1.0, -0.375, 4096.0, (1.25, -3.0, 0.0625)),
    (0.0, 1.0, 7.0, -1e-3, (-0.5, 2.75, 12.0)),
]

# 24 names: collision-prone spellings and controls
HIST_ALPHABET = ['m', 'am', 'dam', 'dm', 'mdam', 'mm', 'km', 'mkm', 'd', 'ad', 'dad', 'cd',
                 'h', 'ah', 'dah', 'as', 'das', 'min', 'amin', 'damin', 'ag', 'dag', 'dam/am',
                 'furlong']

# sub-alphabet for the depth-4 histories (drops second copies of a pattern and plain controls)
HIST_DEEP = ['m', 'am', 'dam', 'mdam', 'km', 'mkm', 'd', 'ad', 'dad', 'as', 'das', 'min', 'amin',
             'damin', 'dam/am', 'furlong']

_BASIS_Q = ['m', 's', 'kg', 'ft', 'N', 'min', 'km', 'ug', 'degC', 'degF']
_BASIS_T = ['m', 's', 'kg', 'ft', 'N', 'min', 'km', 'ug', 'degC', 'degF', 'deg', 'percent']
# prefixed names that collide (used in the fresh-library-per-expression composite group)
_COLLIDE = ['am', 'dam', 'm', 'ad', 'dad', 'amin', 'damin', 'km', 'mkm']


# ----------------------------------------------------------------------------------------------
# enumeration

def _depth1(basis, ks):
    out = list(basis)
    for a in basis:
        for b in basis:
            out.append('%s*%s' % (a, b))
            out.append('%s/%s' % (a, b))
    for a in basis:
        for k in ks:
            out.append('%s**%d' % (a, k))
        out += ['2*%s' % a, '%s/2.0' % a, '1/%s' % a, '%s*0.25' % a, '%s**0.5' % a, '2/%s' % a]
    return out


def _unary(e, ks):
    out = ['(%s)**%d' % (e, k) for k in ks]
    out += ['(%s)**0.5' % e, '(%s)**(1/3.)' % e, '((%s)**2)**0.5' % e, '((%s)**4)**0.5' % e,
            '((%s)**3)**(1.0/3.0)' % e, '(%s)**-0.5' % e, '2*(%s)' % e, '(%s)/2.0' % e,
            '1/(%s)' % e, '0.25*(%s)' % e,
            # a literal divided by an expression that may already contain the same literal
            '2/(%s)' % e, '2.0/(%s)' % e, '0.25/(%s)' % e]
    return out


def _tier_params(tier):
    if tier == 'quick':
        return {'basis': _BASIS_Q, 'ks': [-2, -1, 2, 3], 'hist_len': 3}
    return {'basis': _BASIS_T, 'ks': [-2, -1, 0, 1, 2, 3], 'hist_len': 4}


def cases(tier, seed):
    pal = seed % len(_PALETTES)
    prm = _tier_params(tier)
    rl = ref()
    names = rl.library_names
    out = [{'kind': 'anchors'}]
    for a in names:
        out.append({'kind': 'pairs', 'a': a, 'pal': pal})
    # compatibility classes (by reference powers)
    classes = collections.OrderedDict()
    for n in names:
        classes.setdefault(rl.units[n].p, []).append(n)
    for p, members in classes.items():
        for a in members:
            out.append({'kind': 'triples', 'a': a, 'members': members, 'pal': pal})
    for u in names:
        out.append({'kind': 'prefix', 'unit': u})
    d1 = _depth1(prm['basis'], prm['ks'])
    for e1 in d1:
        out.append({'kind': 'comp', 'e1': e1, 'tier': tier})
    out.append({'kind': 'collide'})
    # histories: every history of length <= 3 over the 24 names; thorough adds every history of
    # length 4 over the 16 collision-relevant names (HIST_DEEP)
    nA = len(HIST_ALPHABET)
    for i in range(nA):
        out.append({'kind': 'hist', 'prefix': [i], 'maxlen': 3})
    if prm['hist_len'] >= 4:
        deep = [HIST_ALPHABET.index(n) for n in HIST_DEEP]
        for i in deep:
            for j in deep:
                out.append({'kind': 'hist', 'prefix': [i, j], 'maxlen': 4, 'minlen': 4,
                            'alpha': deep})
    return out


# ----------------------------------------------------------------------------------------------
# observations of the implementation

def _triple(u):
    return (tuple(u._powers), u._factor, u._offset)


def _lookup(U, name):
    """('unit', powers, factor, offset) | ('none',) | ('raises', ExcName)"""
    try:
        u = U._find_unit(name)
    except Exception as exc:
        return ('raises', type(exc).__name__)
    if u is None:
        return ('none',)
    return ('unit',) + _triple(u)


def _close(a, b, scale, rtol=1e-12):
    a = np.asarray(a, dtype=float)
    b = np.asarray(b, dtype=float)
    return a.shape == b.shape and bool(np.all(np.abs(a - b) <= rtol * scale + 1e-300))


def _same_unit(obs, r, rtol=1e-12):
    """implementation observation ('unit', powers, factor, offset) equals reference R"""
    _, p, f, o = obs
    if len(p) != len(r.p) or any(float(x) != float(y) for x, y in zip(p, r.p)):
        return 'powers'
    if not (abs(f - r.f) <= rtol * abs(r.f)):
        return 'factor'
    if not (abs(o - r.o) <= rtol * max(abs(r.o), 1.0)):
        return 'offset'
    return None


_NAME_RE = re.compile(r'[A-Za-z_][A-Za-z0-9_]*')


_NUM_RE = re.compile(r'(?<![A-Za-z_0-9.])\d+\.?\d*(?:[eE][-+]?\d+)?')


def skeleton(expr, earlier=()):
    """Structural class of an expression for violation signatures: the set of name classes
    (u library unit, o offset unit, p prefixed unit, x unknown) and the set of operators used
    (M product, D quotient, P integer power, R root / float power, N numeric factor).
    'stacked_prefix' = the expression contains a name that reads as prefix + prefixed name q+u
    while q+u itself occurs in the expression or in the `earlier` look-ups."""
    rl = ref()
    e = expr.replace(' ', '')
    names = _NAME_RE.findall(e)
    seen = set(names)
    for h in earlier:
        seen.update(_NAME_RE.findall(h))
    if any(i in seen for n in names for i in rl.inner_names(n)):
        return 'stacked_prefix'
    classes = set({'pp': 'p', 'ppx': 'x'}.get(c, c) for c in map(rl.name_class, names))
    ops = set()
    for tok in re.findall(r'\*\*(\(?-?[\d./]+\)?)', e):
        ops.add('R' if '.' in tok else 'P')
    rest = re.sub(r'\*\*\(?-?[\d./]+\)?', '', e)
    if _NUM_RE.search(rest):
        ops.add('N')
    rest = _NUM_RE.sub('', rest)
    if '*' in rest:
        ops.add('M')
    if '/' in rest:
        ops.add('D')
    return ''.join(sorted(classes)) + (':' + ''.join(sorted(ops)) if ops else '')


class Acc(object):
    def __init__(self):
        self.evals = 0
        self.nontrivial = 0
        self.outcomes = collections.Counter()
        self.vios = []
        self._nsig = collections.Counter()

    def vio(self, sig, msg, case):
        self._nsig[sig] += 1
        if self._nsig[sig] <= 2:
            self.vios.append({'sig': sig, 'msg': msg, 'case': case})

    def result(self, sample=None, counters=None):
        d = {'evals': self.evals, 'nontrivial': self.nontrivial, 'outcome': dict(self.outcomes),
             'violations': self.vios}
        if sample is not None:
            d['sample'] = sample
        if counters:
            d['counters'] = counters
        return d


# ----------------------------------------------------------------------------------------------
# algebra: anchors, pairs, triples

def check_anchors(acc):
    U = fresh()
    rl = ref()
    for v, a, b, want in _ANCHORS:
        acc.evals += 1
        case = {'kind': 'anchor1', 'v': v, 'a': a, 'b': b, 'want': want}
        ra, rb = rl.evaluate(a), rl.evaluate(b)
        refv = (v + ra.o) * ra.f / rb.f - rb.o
        scale = abs(v) * ra.f / rb.f + abs(ra.o) * ra.f / rb.f + abs(rb.o) + abs(want)
        if not _close(refv, want, scale, 1e-9):
            raise RuntimeError('reference model disagrees with published value %s' % (case,))
        try:
            got = U.convert_units(v, a, b)
        except Exception as exc:
            acc.vio('C06:anchor_raises:%s' % type(exc).__name__, '%s: %s' % (case, exc), case)
            continue
        if not _close(got, want, scale, 1e-9):
            acc.vio('C06:anchor_value:%s' % ('offset' if ra.o or rb.o else 'linear'),
                    'convert_units(%r, %r, %r) = %r, published value %r' % (v, a, b, got, want),
                    case)
        else:
            acc.nontrivial += 1
            acc.outcomes['anchor_ok'] += 1


def _ref_convert(v, ra, rb):
    return (np.asarray(v, dtype=float) + ra.o) * ra.f / rb.f - rb.o


def _scale(v, ra, rb):
    g = ra.f / rb.f
    return float(np.max(np.abs(np.asarray(v, dtype=float)))) * g + abs(ra.o) * g + abs(rb.o)


def check_pair(U, acc, a, b, pal):
    rl = ref()
    ra, rb = rl.units[a], rl.units[b]
    compat = ra.p == rb.p
    kind = ('offset' if (ra.o or rb.o) else 'linear')
    case = {'kind': 'pair1', 'a': a, 'b': b, 'pal': pal}
    acc.evals += 1
    try:
        ic = U.is_compatible(a, b)
    except Exception as exc:
        acc.vio('C06:is_compatible_raises:%s' % type(exc).__name__,
                'is_compatible(%r, %r): %s' % (a, b, exc), case)
        return
    if bool(ic) != compat:
        acc.vio('C06:is_compatible:%s' % kind, 'is_compatible(%r, %r) = %r, base powers %s vs %s' % (
            a, b, ic, ra.p, rb.p), case)
        return
    vals = _PALETTES[pal]
    try:
        fo = U.unit_conversion(a, b)
        err = None
    except Exception as exc:
        fo, err = None, exc
    if not compat:
        if err is None:
            acc.vio('C06:converts_incompatible:unit_conversion',
                    'unit_conversion(%r, %r) = %r although the units are incompatible' % (a, b, fo),
                    case)
            return
        try:
            got = U.convert_units(vals[2], a, b)
        except Exception as exc:
            acc.outcomes['incompatible_' + type(exc).__name__] += 1
            return
        acc.vio('C06:converts_incompatible:convert_units',
                'convert_units(%r, %r, %r) = %r although the units are incompatible' % (
                    vals[2], a, b, got), case)
        return
    if err is not None:
        acc.vio('C06:rejects_compatible:%s' % kind, 'unit_conversion(%r, %r) raised %s: %s' % (
            a, b, type(err).__name__, err), case)
        return
    fac, off = fo
    want_fac = ra.f / rb.f
    if not abs(fac - want_fac) <= 1e-12 * abs(want_fac):
        acc.vio('C06:conversion_factor:%s' % kind, 'unit_conversion(%r, %r)[0] = %r, expected %r' % (
            a, b, fac, want_fac), case)
        return
    for v in vals:
        v = np.array(v) if isinstance(v, tuple) else v
        want = _ref_convert(v, ra, rb)
        sc = _scale(v, ra, rb)
        try:
            got = U.convert_units(v, a, b)
            back = U.convert_units(got, b, a)
        except Exception as exc:
            acc.vio('C06:rejects_compatible:%s' % kind, 'convert_units(%r, %r, %r) raised %s: %s' % (
                v, a, b, type(exc).__name__, exc), case)
            return
        if not _close(got, want, sc):
            acc.vio('C06:convert_value:%s' % kind, 'convert_units(%r, %r, %r) = %r, expected %r' % (
                v, a, b, got, want), case)
            return
        if not _close((np.asarray(v, dtype=float) + off) * fac, want, sc):
            acc.vio('C06:conversion_tuple:%s' % kind,
                    'unit_conversion(%r, %r) = %r maps %r to %r, expected %r' % (
                        a, b, fo, v, (np.asarray(v) + off) * fac, want), case)
            return
        if not _close(back, v, _scale(v, ra, ra) + abs(rb.o) * rb.f / ra.f):
            acc.vio('C06:roundtrip:%s' % kind, '%r -> %r -> %r: %r came back as %r' % (
                a, b, a, v, back), case)
            return
    if a == b:
        if fac != 1.0 or off != 0.0:
            acc.vio('C06:reflexive:%s' % kind, 'unit_conversion(%r, %r) = %r' % (a, a, fo), case)
            return
        acc.outcomes['identity'] += 1
    else:
        acc.nontrivial += 1
        acc.outcomes['compatible_' + kind] += 1


def check_triple(U, acc, a, b, c, pal):
    rl = ref()
    ra, rb, rc = rl.units[a], rl.units[b], rl.units[c]
    kind = 'offset' if (ra.o or rb.o or rc.o) else 'linear'
    case = {'kind': 'triple1', 'a': a, 'b': b, 'c': c, 'pal': pal}
    acc.evals += 1
    try:
        for v in _PALETTES[pal][2:]:
            v = np.array(v) if isinstance(v, tuple) else v
            two = U.convert_units(U.convert_units(v, a, b), b, c)
            one = U.convert_units(v, a, c)
            sc = _scale(v, ra, rc) + (abs(rb.o) * rb.f / rc.f)
            if not _close(two, one, sc):
                acc.vio('C06:transitive:%s' % kind, '%r via %r to %r: %r gives %r, direct %r' % (
                    a, b, c, v, two, one), case)
                return
        f1, o1 = U.unit_conversion(a, b)
        f2, o2 = U.unit_conversion(b, c)
        f3, o3 = U.unit_conversion(a, c)
    except Exception as exc:
        acc.vio('C06:rejects_compatible:%s' % kind, 'triple %r %r %r raised %s: %s' % (
            a, b, c, type(exc).__name__, exc), case)
        return
    # composition of the affine maps: (x + o1 + o2/f1) * f1*f2
    if not (abs(f1 * f2 - f3) <= 1e-12 * abs(f3) and
            abs(o1 + o2 / f1 - o3) <= 1e-12 * (abs(o1) + abs(o2 / f1) + abs(o3)) + 1e-300):
        acc.vio('C06:tuple_composition:%s' % kind,
                'unit_conversion %r->%r %r, %r->%r %r, %r->%r %r do not compose' % (
                    a, b, (f1, o1), b, c, (f2, o2), a, c, (f3, o3)), case)
        return
    if len({a, b, c}) == 3:
        acc.nontrivial += 1
    acc.outcomes['triple_' + kind] += 1


# ----------------------------------------------------------------------------------------------
# algebra: expressions (prefixed names, composites) + simplify round trip

def _simplify_roundtrip(U, acc, expr, obs, case, cls):
    """simplify_unit(expr) must parse again to a unit with the same powers, factor and offset"""
    try:
        s = U.simplify_unit(expr)
    except Exception as exc:
        acc.vio('C06:simplify_raises:%s' % cls, 'simplify_unit(%r) raised %s: %s' % (
            expr, type(exc).__name__, exc), case)
        return False
    _, p, f, o = obs
    if s is None:
        if any(p) or abs(f - 1.0) > 1e-12 or o != 0.0:
            acc.vio('C06:simplify_none:%s' % cls, 'simplify_unit(%r) is None for a unit with '
                    'powers %s factor %r' % (expr, p, f), case)
            return False
        return True
    if re.fullmatch(r'[0-9.eE+\-*/]+', s):
        acc.outcomes['simplify_bare_number(excluded)'] += 1
        return True
    back = _lookup(U, s)
    if back[0] != 'unit':
        why = 'float_exponent' if re.search(r'\*\*-?\d+\.\d*', s) else cls
        acc.vio('C06:simplify_unparsable:%s' % why,
                'simplify_unit(%r) = %r which _find_unit does not accept (%s)' % (
                    expr, s, back[1:] or 'None'), case)
        return False
    bad = _same_unit(back, R(f, p, o), rtol=1e-13)
    if bad:
        acc.vio('C06:simplify_changes_%s:%s' % (bad, cls),
                'simplify_unit(%r) = %r: %s, original %s' % (expr, s, back[1:], obs[1:]), case)
        return False
    return True


def check_expr(U, acc, expr, case=None):
    """one expression on the current library state of U"""
    rl = ref()
    case = case or {'kind': 'expr1', 'expr': expr}
    acc.evals += 1
    try:
        r = rl.evaluate(expr)
        rej = None
    except RefReject as exc:
        r, rej = None, exc
    except RefSilent:
        acc.outcomes['excluded_corner'] += 1
        return
    obs = _lookup(U, expr)
    cls = skeleton(expr)
    if r is None:
        if obs[0] == 'unit':
            acc.vio('C06:accepts_invalid:%s' % cls,
                    '_find_unit(%r) = %s but the expression is not a unit (%s)' % (
                        expr, obs[1:], rej), case)
        else:
            acc.outcomes['rejected_' + (obs[1] if obs[0] == 'raises' else 'None')] += 1
        return
    if obs[0] != 'unit':
        acc.vio('C06:rejects_valid:%s' % cls, '_find_unit(%r) -> %s; reference: factor %r powers %s' % (
            expr, obs, r.f, r.p), case)
        return
    bad = _same_unit(obs, r)
    if bad:
        acc.vio('C06:composite_%s:%s' % (bad, cls),
                '_find_unit(%r) = powers %s factor %r offset %r; from its parts: powers %s factor %r '
                'offset %r' % (expr, obs[1], obs[2], obs[3], r.p, r.f, r.o), case)
        return
    # the public functions must see the same unit: convert 1 expr into base units
    try:
        ok = U.is_compatible(expr, expr)
        fac, off = U.unit_conversion(expr, expr)
    except Exception as exc:
        acc.vio('C06:rejects_valid:%s' % cls, 'unit_conversion(%r, same) raised %s' % (expr, exc),
                case)
        return
    if not ok or fac != 1.0 or off != 0.0:
        acc.vio('C06:reflexive:%s' % cls, 'unit_conversion(%r, same) = %r' % (expr, (fac, off)), case)
        return
    if not _simplify_roundtrip(U, acc, expr, obs, case, cls):
        return
    acc.outcomes['accepted'] += 1
    if expr not in rl.units:
        acc.nontrivial += 1


def check_prefix_unit(acc, unit):
    rl = ref()
    for p in rl.prefixes:
        U = fresh()
        check_expr(U, acc, p + unit)
    # conversions between two prefixed spellings of the same unit, on one fresh library
    U = fresh()
    r = rl.units[unit]
    if r.o == 0.0 and '_' not in unit:
        for p, q in (('k', 'm'), ('M', 'u'), ('Ki', 'c'), ('da', 'n')):
            a, b = p + unit, q + unit
            if len(rl.readings(a)) != 1 or len(rl.readings(b)) != 1 or a in rl.units or \
                    b in rl.units:
                continue
            acc.evals += 1
            want = rl.prefixes[p] / rl.prefixes[q]
            case = {'kind': 'prefconv1', 'a': a, 'b': b, 'unit': unit}
            try:
                got = U.convert_units(1.0, a, b)
            except Exception as exc:
                acc.vio('C06:rejects_valid:p->p', 'convert_units(1, %r, %r) raised %s: %s' % (
                    a, b, type(exc).__name__, exc), case)
                continue
            if not abs(got - want) <= 1e-12 * want:
                acc.vio('C06:convert_value:p->p', 'convert_units(1, %r, %r) = %r expected %r' % (
                    a, b, got, want), case)
            else:
                acc.nontrivial += 1
                acc.outcomes['prefix_conversion'] += 1


def comp_exprs(e1, tier):
    prm = _tier_params(tier)
    d1 = _depth1(prm['basis'], prm['ks'])
    out = [e1] + _unary(e1, prm['ks'])
    for e2 in d1:
        out.append('(%s)*(%s)' % (e1, e2))
        out.append('(%s)/(%s)' % (e1, e2))
    return out


def collide_exprs():
    out = []
    for a, b in itertools.permutations(_COLLIDE, 2):
        out += ['%s*%s' % (a, b), '%s/%s' % (a, b), '%s**2/%s' % (a, b)]
    for a, b, c in itertools.permutations(_COLLIDE[:5], 3):
        out.append('%s*%s/%s' % (a, b, c))
    return out


# ----------------------------------------------------------------------------------------------
# history part

_BASE = None


def _baseline():
    """look-up of every alphabet name on its own fresh library + the pristine library table"""
    global _BASE
    if _BASE is None:
        base = {}
        for n in HIST_ALPHABET:
            U = fresh()
            base[n] = _lookup(U, n)
        U = fresh()
        table = {k: _triple(v) for k, v in U._UNIT_LIB.unit_table.items()}
        _BASE = (base, table)
    return _BASE


def _canon_state(U, libtable):
    """Canonical library state: every table entry that is not a pristine library entry, and the
    cache, as (name, powers, factor, offset).  Nothing else of the module is mutable by look-ups
    (ConfigParser sections mirror the table; `help` is append-only text never read back)."""
    tab = U._UNIT_LIB.unit_table
    extra = sorted((k, repr(_triple(v))) for k, v in tab.items()
                   if k not in libtable or _triple(v) != libtable[k])
    missing = sorted(k for k in libtable if k not in tab)
    cache = sorted((k, repr(_triple(v)) if hasattr(v, '_powers') else repr(v))
                   for k, v in U._UNIT_CACHE.items())
    return extra, missing, cache


def run_history(acc, hist, states=None):
    """Replays one history on a fresh library.  Returns True if every step agreed."""
    base, libtable = _baseline()
    rl = ref()
    U = fresh()
    names = [HIST_ALPHABET[i] for i in hist]
    ok = True
    for step, n in enumerate(names):
        got = _lookup(U, n)
        if got != base[n]:
            ok = False
            if step == len(names) - 1:     # earlier steps are reported by the shorter history
                cls = skeleton(n, names[:-1])
                case = {'kind': 'hist1', 'hist': list(hist)}
                if got[0] == 'unit' and base[n][0] == 'unit':
                    what = 'history_value'
                elif got[0] == 'unit':
                    what = 'history_accepts_rejected'
                elif base[n][0] == 'unit':
                    what = 'history_rejects_accepted'
                else:
                    what = 'history_rejection_kind'
                acc.vio('C06:%s:%s' % (what, cls),
                        'after looking up %s, _find_unit(%r) -> %s; on a fresh library -> %s' % (
                            names[:-1], n, got, base[n]), case)
    extra, missing, cache = _canon_state(U, libtable)
    if missing or any(k in libtable for k, _ in extra):
        ok = False
        acc.vio('C06:history_library_entry_changed',
                'after %s library entries changed: %s missing %s' % (
                    names, [e for e in extra if e[0] in libtable], missing),
                {'kind': 'hist1', 'hist': list(hist)})
    if states is not None:
        states.add(hashlib.sha1(repr((extra, missing, cache)).encode()).hexdigest()[:16])
    acc.evals += 1
    if extra:
        acc.nontrivial += 1
    acc.outcomes['hist_ok' if ok else 'hist_diverges'] += 1
    return ok


def check_hist_subtree(acc, prefix, maxlen, case_id, minlen=1, alpha=None):
    states = set()
    alpha = list(alpha) if alpha is not None else list(range(len(HIST_ALPHABET)))
    transitions = traces = 0
    plen = len(prefix)
    lens = range(max(plen, minlen, 1), maxlen + 1)
    for L in lens:
        for tail in itertools.product(alpha, repeat=L - plen):
            hist = list(prefix) + list(tail)
            ok = run_history(acc, hist, states)
            transitions += 1
            if L == maxlen and ok:
                traces += 1
    # distinct states are counted globally in finalize() from these files
    try:
        with open('c06_states_%s.txt' % case_id, 'w') as f:
            f.write('\n'.join(sorted(states)))
    except OSError:
        pass
    return {'states': len(states), 'transitions': transitions, 'traces': traces}


def finalize(agg, tier, seed):
    """exact number of distinct library states over all subtrees (workers drop their state hashes
    into the scratch cwd); overrides the per-subtree sum"""
    import glob
    allst = set()
    files = glob.glob('c06_states_*.txt')
    for fn in files:
        with open(fn) as f:
            allst.update(x for x in f.read().split('\n') if x)
    if not files:
        return {}
    return {'states': len(allst) + 1,      # + the initial (fresh) state
            'states_summed_over_subtrees': int(agg['counters'].get('states', 0)),
            'history_alphabet': list(HIST_ALPHABET)}


# ----------------------------------------------------------------------------------------------

def check_case(case):
    kind = case['kind']
    acc = Acc()
    rl = ref()
    if kind == 'anchors':
        check_anchors(acc)
        return acc.result()
    if kind == 'pairs':
        U = fresh()
        for b in rl.library_names:
            check_pair(U, acc, case['a'], b, case['pal'])
        return acc.result()
    if kind == 'pair1':
        check_pair(fresh(), acc, case['a'], case['b'], case['pal'])
        return acc.result()
    if kind == 'anchor1':
        check_anchors(acc)
        acc.vios = [v for v in acc.vios if v['case']['a'] == case['a'] and
                    v['case']['b'] == case['b'] and v['case']['v'] == case['v']]
        return acc.result()
    if kind == 'triples':
        U = fresh()
        for b in case['members']:
            for c in case['members']:
                check_triple(U, acc, case['a'], b, c, case['pal'])
        return acc.result(sample={'kind': 'triples', 'a': case['a'], 'class_size': len(
            case['members'])})
    if kind == 'triple1':
        check_triple(fresh(), acc, case['a'], case['b'], case['c'], case['pal'])
        return acc.result()
    if kind == 'prefix':
        check_prefix_unit(acc, case['unit'])
        return acc.result()
    if kind == 'prefconv1':
        check_prefix_unit(acc, case['unit'])
        acc.vios = [v for v in acc.vios if v['case'] == case]
        return acc.result()
    if kind == 'expr1':
        check_expr(fresh(), acc, case['expr'])
        return acc.result()
    if kind == 'comp':
        U = fresh()
        exprs = comp_exprs(case['e1'], case['tier'])
        for e in exprs:
            check_expr(U, acc, e, {'kind': 'expr1', 'expr': e})
        return acc.result(sample={'kind': 'comp', 'e1': case['e1'], 'n': len(exprs),
                                  'e.g.': exprs[len(exprs) // 2]})
    if kind == 'collide':
        for e in collide_exprs():
            check_expr(fresh(), acc, e)
        return acc.result()
    if kind == 'hist1':
        run_history(acc, case['hist'])
        return acc.result(counters={'transitions': 1})
    if kind == 'hist':
        cid = '_'.join(str(i) for i in case['prefix']) + 'L%d' % case['maxlen']
        cnt = check_hist_subtree(acc, case['prefix'], case['maxlen'], cid, case.get('minlen', 1),
                                 case.get('alpha'))
        return acc.result(counters=cnt, sample={
            'kind': 'hist', 'first': [HIST_ALPHABET[i] for i in case['prefix']],
            'maxlen': case['maxlen'], 'histories': cnt['transitions']})
    raise ValueError(kind)
