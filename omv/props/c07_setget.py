"""C07 - set_val / get_val round-trip through promotion, indices and units (DESIGN.md 4, C07).

Explicit-state search over API histories.  A state is the history reaching it: every history is
replayed on a freshly built real Problem and, in lock-step, on a reference model (a dict of source
arrays with NumPy indexing, the textbook affine unit maps and the IR evaluator for run_model).
"""
import collections
import contextlib
import io
import itertools

import numpy as np

from omv.core import ir, models

ID = 'C07'
LEVEL = 'model_checking'
TECHNIQUE = ('explicit-state breadth-first search over set_val/final_setup/run_model histories on real '
             'Problems, replayed from scratch per history, with a dict-of-arrays reference model in '
             'lock-step and hashing of the observable state (all get_val views)')
RULE = ('per base model: operations = final_setup, run_model, and set_val(name, value, units, indices) '
        'for every addressable name (absolute outputs, absolute inputs incl. inputs connected through '
        'src_indices and unit conversions, promoted IVC outputs, auto-IVC backed promoted inputs) x 2 '
        'values x {own units, compatible units (incl. offset units)} x 4 index forms, plus two '
        'inadmissible requests; all histories of length <= 2 and the length-3 (quick) / length-4 '
        '(thorough) histories over a reduced alphabet; after every step every name is read back with '
        'get_val in 3 views; a trace = one root-to-leaf history on which implementation and reference '
        'agreed at every step')
LEVEL_TEXT = ('Every history within the bound is executed on the real API and compared step by step with '
              'the reference; equality of all views after every step gives the round-trip, the '
              'frame condition (other entries unchanged) and phase independence (the same request '
              'before final_setup, after it and after run_model) at once.')
LEVEL_NOTE = ('5 base models, value palettes, depth bounds as stated; promoted input names are only '
              'addressed where their meaning is unambiguous (no src_indices at or below the promotion); '
              'duplicate src_indices are excluded because write-back through them is ambiguous.')
ASSUMPTIONS = ['indices follow NumPy semantics on the addressed variable\'s own shape',
               'set_val on a connected input writes through to its source (documented)',
               'values always have exactly the selected shape (scalar broadcasting into an index '
               'selection is not demanded); inadmissible requests are outside the statement']
MIN_NONTRIVIAL = {'quick': 10000, 'thorough': 40000}
CHUNK = 1

BASES = [
    {'topo': 'two', 'wiring': 'conn_2d_tuple', 'units': 'm_cm'},
    {'topo': 'two', 'wiring': 'auto_idx', 'units': 'm_cm', 'hier': 'allG'},
    {'topo': 'two', 'wiring': 'auto', 'units': 'degC_degF'},
    {'topo': 'fanin', 'wiring': 'prom1', 'hier': 'nest2', 'units': 'km_m'},
    {'topo': 'two', 'wiring': 'conn_2d_row', 'units': 'm_cm', 'hier': 'nest1'},
    {'topo': 'two', 'wiring': 'prom2', 'units': 'degF_degK', 'hier': 'allG'},
    {'topo': 'two', 'wiring': 'scalar0d', 'units': 'm_cm'},       # 0-d source and input
    # complex-allocated vectors (force_alloc_complex, as whenever an ExecComp is in the model):
    # the real parts that set_val / get_val work on are strided views
    {'topo': 'two', 'wiring': 'conn_list', 'units': 'm_cm', 'fac': True},
    {'topo': 'two', 'wiring': 'conn_2d_tuple', 'units': 'degC_degF', 'fac': True},
]


def _spec_of(bi, palette):
    spec, why = models.spec_from_config(dict(BASES[bi], palette=palette))
    if BASES[bi].get('fac'):
        spec['force_alloc_complex'] = True
    return spec

COMPAT = {'m': 'cm', 'cm': 'm', 'km': 'm', 'degC': 'degF', 'degF': 'degC', 'degK': 'degC'}


def _idx_forms(shape):
    if len(shape) == 0:
        return [None]
    if len(shape) == 1:
        n = shape[0]
        forms = [None, 0, [-1, 0] if n > 1 else [0], slice(0, min(2, n))]
    else:
        forms = [None, (1, 0), (0, slice(None)), (slice(None), [0, -1])]
    return forms


class RefModel(object):
    """dict of source arrays + IR evaluator"""

    def __init__(self, spec):
        self.spec = spec
        self.ref = ir.Ref(spec)
        self.U = self.ref.initial()
        # component outputs start at the declared default (ones)
        self.names = {}
        tab = self.ref.tab
        for n, t in tab.items():
            if t['kind'] in ('ivc', 'out'):
                self.names[n] = ('out', n)
            elif t['kind'] == 'in':
                self.names[n] = ('in', n)
        for cn in spec['conns']:
            if cn.get('how') == 'promote':
                pname = cn['pname']
                levels = [x for x in cn.get('levels', []) if x is not None]
                if cn['src'].startswith('auto:'):
                    if not levels:
                        # the promoted name carries the units/shape given to set_input_defaults,
                        # which are those of the auto-IVC source
                        self.names[pname] = ('out', cn['src'])
                else:
                    self.names[pname] = ('out', cn['src'])

    def shape(self, name):
        kind, n = self.names[name]
        return self.ref.tab[n]['shape']

    def units(self, name):
        kind, n = self.names[name]
        return self.ref.tab[n]['units']

    def get(self, name, units=None, indices=None):
        kind, n = self.names[name]
        t = self.ref.tab[n]
        if kind == 'out':
            v = self.U[self.ref.sl(n)].reshape(t['shape']).copy()
        else:
            v = self.ref.input_val(self.U, n).reshape(t['shape']).copy()
        if units is not None and units != t['units']:
            f, o = ir.unit_map(t['units'], units)
            v = (v + o) * f
        if indices is not None:
            v = np.asarray(v[_npidx(indices)])
        return v

    def set(self, name, val, units=None, indices=None):
        kind, n = self.names[name]
        t = self.ref.tab[n]
        cur = self.get(name)
        val = np.asarray(val, dtype=float)
        if units is not None and units != t['units']:
            f, o = ir.unit_map(units, t['units'])
            val = (val + o) * f
        if indices is None:
            cur[...] = val
        else:
            cur[_npidx(indices)] = val
        if kind == 'out':
            self.U[self.ref.sl(n)] = cur.ravel()
        else:
            c = self.ref.conn[n]
            src = self.U[self.ref.sl(c['src'])]
            src[c['pos']] = cur.ravel() / c['factor'] - c['offset']
            self.U[self.ref.sl(c['src'])] = src

    def run(self):
        U, ok = self.ref.solve(self.U)
        self.U = U
        return ok


def _npidx(idx):
    if isinstance(idx, list):
        return np.asarray(idx, dtype=int)
    if isinstance(idx, tuple):
        return tuple(np.asarray(t, dtype=int) if isinstance(t, list) else t for t in idx)
    return idx


def _ops(refm, reduced=False):
    ops = [('final_setup',), ('run_model',)]
    k = 0
    for name in sorted(refm.names):
        shape = refm.shape(name)
        u = refm.units(name)
        unit_opts = [None] + ([COMPAT[u]] if u in COMPAT else [])
        forms = _idx_forms(shape)
        for fi, idx in enumerate(forms):
            sel = np.zeros(shape)[_npidx(idx)] if idx is not None else np.zeros(shape)
            for vi in range(2):
                for uo in unit_opts:
                    k += 1
                    if reduced and not (vi == 0 and fi in (0, 1 if len(shape) <= 1 else 2)):
                        continue
                    if vi == 0:
                        # constant value with exactly the selected shape (scalar for a scalar slot)
                        val = (np.full(sel.shape, 8.25 + 0.5 * fi).tolist() if sel.ndim
                               else 8.25 + 0.5 * fi)
                    else:
                        val = (np.arange(sel.size).reshape(sel.shape) * 0.75 - 1.5 + fi).tolist() \
                            if sel.ndim else -3.5
                    ops.append(('set', name, val, uo, idx))
    return ops


def cases(tier, seed):
    out = []
    for bi, b in enumerate(BASES):
        spec = _spec_of(bi, seed % 3)
        refm = RefModel(spec)
        full = _ops(refm)
        red = _ops(refm, reduced=True)
        for i, op in enumerate(full):
            out.append({'base': bi, 'first': i, 'tier': tier, 'palette': seed % 3})
    return out


def _apply_real(prob, op):
    kind = op[0]
    if kind == 'final_setup':
        prob.final_setup()
    elif kind == 'run_model':
        prob.run_model()
    elif kind == 'set':
        _, name, val, units, idx = op
        kw = {}
        if units is not None:
            kw['units'] = units
        if idx is not None:
            kw['indices'] = idx
        prob.set_val(name, np.asarray(val) if isinstance(val, list) else val, **kw)
    elif kind == 'set_bad_units':
        prob.set_val(op[1], 1.0, units='kg')
    elif kind == 'set_bad_shape':
        prob.set_val(op[1], np.ones(7))


def _observe(prob, refm, V, step):
    """returns canonical state (tuple) and compares all views"""
    state = []
    ok = True
    for name in sorted(refm.names):
        shape = refm.shape(name)
        u = refm.units(name)
        views = [(None, None)]
        if u in COMPAT:
            views.append((COMPAT[u], None))
        if len(shape):
            views.append((None, _idx_forms(shape)[2]))
        for units, idx in views:
            want = refm.get(name, units, idx)
            kw = {}
            if units is not None:
                kw['units'] = units
            if idx is not None:
                kw['indices'] = idx
            try:
                got = np.asarray(prob.get_val(name, **kw))
            except Exception as exc:
                V('get_raises', name, units, idx, step, '%s: %s' % (type(exc).__name__,
                                                                     str(exc)[:200]))
                ok = False
                continue
            scale = max(1.0, float(np.max(np.abs(want), initial=0.0)))
            if got.size != want.size or not np.allclose(np.ravel(got), np.ravel(want), rtol=0,
                                                         atol=1e-10 * scale):
                V('get_value', name, units, idx, step, 'got %s expected %s' % (
                    np.ravel(got).tolist(), np.ravel(want).tolist()))
                ok = False
            elif units is None and idx is None and tuple(got.shape) != tuple(want.shape) and \
                    not (want.shape == () or got.size == 1):
                V('get_shape', name, units, idx, step, 'shape %s expected %s' % (got.shape,
                                                                                 want.shape))
                ok = False
            if units is None and idx is None:
                # the item-access spelling prob[name] is documented as get_val(name)
                try:
                    got2 = np.asarray(prob[name])
                    if got2.size != want.size or not np.allclose(np.ravel(got2), np.ravel(want),
                                                                 rtol=0, atol=1e-10 * scale):
                        V('getitem_value', name, units, idx, step, 'prob[name] = %s expected %s' % (
                            np.ravel(got2).tolist(), np.ravel(want).tolist()))
                        ok = False
                except Exception as exc:
                    V('getitem_raises', name, units, idx, step, '%s: %s' % (type(exc).__name__,
                                                                           str(exc)[:200]))
                    ok = False
            state.append(tuple(np.round(np.ravel(want), 9).tolist()))
    return tuple(state), ok


def _opclass(op):
    if op[0] != 'set':
        return op[0]
    _, name, val, units, idx = op
    ic = 'none' if idx is None else type(idx).__name__
    return 'set(%s,%s,u=%s,i=%s)' % (name, 'scalar' if not isinstance(val, list) else 'array',
                                      units, ic)


def run_history(spec, hist):
    """replay a history on a fresh Problem and reference; returns (states per step, violations)"""
    refm = RefModel(spec)
    vio = []
    cls = '>'.join(_opclass(o) for o in hist)

    def V(what, name, units, idx, step, msg):
        vio.append({'sig': 'C07:%s:%s:%s' % (what, name, cls),
                    'msg': '%s %s units=%s indices=%r after step %d of [%s]: %s' % (
                        what, name, units, idx, step, cls, msg)})
    buf = io.StringIO()
    with contextlib.redirect_stdout(buf), contextlib.redirect_stderr(buf):
        prob, info = ir.build(spec)
    phase = 'setup'
    state = None
    for k, op in enumerate(hist):
        try:
            with contextlib.redirect_stdout(buf), contextlib.redirect_stderr(buf):
                _apply_real(prob, op)
            raised = None
        except Exception as exc:
            raised = exc
        if op[0] in ('set_bad_units', 'set_bad_shape'):
            if raised is None:
                vio.append({'sig': 'C07:accepts_inadmissible:%s:%s' % (op[0], phase),
                            'msg': '%s on %s did not raise in phase %s' % (op[0], op[1], phase)})
        elif raised is not None:
            if type(raised).__name__ == 'AnalysisError':
                return None, vio
            vio.append({'sig': 'C07:raises:%s:%s' % (_opclass(op), phase),
                        'msg': 'history [%s] step %d (%s) in phase %s raised %s: %s' % (
                            cls, k, _opclass(op), phase, type(raised).__name__,
                            str(raised)[:300])})
            return None, vio
        else:
            if op[0] == 'set':
                refm.set(op[1], op[2], op[3], op[4])
            elif op[0] == 'run_model':
                refm.run()
                phase = 'run'
            elif op[0] == 'final_setup' and phase == 'setup':
                phase = 'final'
        state, ok = _observe(prob, refm, V, k)
        if vio:
            return None, vio
    return (phase, state), vio


def check_case(case):
    if 'hist' in case:      # replay form
        spec = _spec_of(case['base'], case.get('palette', 0))
        st, vio = run_history(spec, [tuple(o) for o in case['hist']])
        for v in vio:
            v['case'] = case
        return {'evals': 1, 'violations': vio, 'outcome': 'violation' if vio else 'ok'}
    bi = case['base']
    spec = _spec_of(bi, case.get('palette', 0))
    refm0 = RefModel(spec)
    full = _ops(refm0)
    red = _ops(refm0, reduced=True)
    first = full[case['first']]
    maxlen = 3 if case['tier'] == 'quick' else 4
    seen = set()
    frontier = collections.deque([(first,)])
    states = transitions = traces = nontriv = 0
    vios = []
    sigs = collections.Counter()
    outcomes = collections.Counter()
    while frontier:
        hist = frontier.popleft()
        st, vio = run_history(spec, list(hist))
        transitions += 1
        if vio:
            for v in vio:
                sigs[v['sig']] += 1
                if sigs[v['sig']] <= 1:
                    v['case'] = {'base': bi, 'hist': [list(o) for o in hist],
                                 'palette': case.get('palette', 0)}
                    vios.append(v)
            outcomes['violation'] += 1
            continue
        if st is None:
            outcomes['not_converged'] += 1
            continue
        outcomes[hist[-1][0]] += 1
        nontriv += int(hist[-1][0] == 'set')
        if st in seen:
            traces += 1
            continue
        seen.add(st)
        states += 1
        if len(hist) >= maxlen:
            traces += 1
            continue
        nxt = full if len(hist) < 2 else red
        if len(hist) == 1 and case['tier'] == 'quick' and hist[0] not in red:
            nxt = red       # quick: one of the first two operations is from the reduced alphabet
        if len(hist) >= 2:
            # deeper levels: reduced alphabet, and at least one phase operation in the history
            phase_ops = ('final_setup', 'run_model')
            last_is_phase = hist[-1][0] in phase_ops
            if case['tier'] == 'quick':
                # set;phase;* and *;*;phase only
                nxt = [o for o in red if last_is_phase or o[0] in phase_ops]
            else:
                has_phase = any(o[0] in phase_ops for o in hist)
                nxt = [o for o in red if has_phase or o[0] in phase_ops]
        for op in nxt:
            frontier.append(hist + (op,))
    return {'evals': transitions, 'nontrivial': nontriv, 'outcome': dict(outcomes),
            'violations': vios,
            'counters': {'states': states, 'transitions': transitions, 'traces': traces},
            'sample': {'base': BASES[bi], 'first': _opclass(first), 'histories': transitions}}
