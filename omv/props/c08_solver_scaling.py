"""C08 - solver scaling (ref / ref0 / res_ref) never changes physical results (DESIGN.md 4, C08)."""
import collections
import itertools

import numpy as np

from omv.core import explore, ir, models
from omv.props import c01_totals

ID = 'C08'
LEVEL = 'exploration'
TECHNIQUE = ('exhaustive enumeration of (ref, ref0, res_ref) assignments to the outputs of small real '
             'models x solver stacks x modes; differential oracle: the scaling-independent NumPy '
             'reference (converged state, inputs, residuals, totals) and the scaled-value formula')
RULE = ('every assignment of a 9-entry scaling palette (none, scalar ref, ref/ref0/res_ref, negative '
        'ref, ref<ref0, array ref+ref0, scalar ref+array ref0, array ref+scalar ref0, array res_ref) '
        'to each of <= 3 outputs of 6 base models (full product) x mode {fwd, rev}, plus single-output '
        'assignments on the 1-ball of the models (linear solver, assembled jac, partial format, units, rhs_checking, '
        'src_indices wiring, IVC scaling); non-trivial = at least one output carries a non-identity '
        'scaling and the model converged; each configuration is enumerated once')
LEVEL_TEXT = ('Each scaled model is a real Problem; its converged outputs, inputs and residuals in '
              'physical units and its total derivatives are compared with the NumPy reference, which '
              'does not know about scaling (so equality with the reference is equality with the '
              'unscaled model); inside the scaled context every output must equal '
              '(phys - ref0)/(ref - ref0).')
LEVEL_NOTE = ('bounded model sizes and a fixed scaling palette; solver tolerances 1e-13 on scaled norms, '
              'comparison tolerance 1e-9; reference evaluator trusted.')
ASSUMPTIONS = ['a model whose solver reports non-convergence under a scaling is counted not_converged',
               'ref == ref0 is excluded (division by zero is rejected by OpenMDAO)',
               'ref = 0 is only used together with an explicit res_ref (res_ref defaults to ref, so '
               'ref = 0 alone requests a division by zero)']
MIN_NONTRIVIAL = {'quick': 2000, 'thorough': 6000}


def _pal(n, k):
    """scaling palette entry k for an output of size n"""
    arr = np.array([2.0, -0.5, 4.0, 0.25, -8.0, 1.5])[:n]
    arr0 = np.array([0.5, 0.25, -1.0, 1.75, 0.125, -0.75])[:n]
    return [
        {},
        {'ref': 2.0},
        {'ref': 0.5, 'ref0': 0.25, 'res_ref': 4.0},
        {'ref': -2.0},
        {'ref': 0.0, 'ref0': 1.0, 'res_ref': 1.0},
        {'ref': arr.tolist(), 'ref0': arr0.tolist()},
        {'ref': 2.0, 'ref0': arr0.tolist()},
        {'ref': arr.tolist(), 'ref0': 0.5},
        {'res_ref': np.abs(arr).tolist()},
    ][k]


NPAL = 9

BASES = [
    {'topo': 'chain', 'wiring': 'conn_list'},
    {'topo': 'cycle_tail', 'kinds': 'mix1', 'ln': 'Direct'},
    {'topo': 'chain', 'hier': 'allG', 'kinds': 'mix2', 'nl': 'Newton', 'ln': 'Direct',
     'units': 'm_cm'},
    {'topo': 'fanin', 'hier': 'nest2', 'kinds': 'allquad', 'wiring': 'prom1', 'units': 'degC_degF'},
    {'topo': 'cycle_tail', 'hier': 'cycG', 'ln': 'Direct', 'rhsck': 'on'},
    {'topo': 'cycle_tail', 'hier': 'cycG', 'nl': 'Newton', 'ln': 'Direct'},
]

DIMS1 = collections.OrderedDict([
    ('ln', ['default', 'Direct', 'LNBGS', 'LNBJ', 'Krylov']),
    ('jac', [None, 'dense', 'csc']),
    ('partials', ['dense', 'rowcol', 'csc', 'matfree', 'cs']),
    ('units', list(models.UNIT_PAIRS)),
    ('wiring', ['plain', 'conn_list', 'conn_dup', 'conn_negstep', 'conn_2d_tuple', 'conn_2d_row',
                'prom2', 'auto_idx']),
    ('nl', ['default', 'Newton', 'NLBGS', 'NLBJ', 'Broyden']),
    ('noasm', [False, True]),
    ('approx_sub', [None, 'cs', 'fd']),
    ('nlopt', [None, 'aitken', 'aitken_apply', 'apply']),
    ('rhsck', [None, 'on', 'opts']),
])

OUTS = ['c1.y', 'c2.y', 'c3.y']


def cases(tier, seed):
    pal = seed % 3
    out = []
    modes = ('fwd', 'rev')
    for bi, b in enumerate(BASES):
        rng = range(NPAL)
        for combo in itertools.product(rng, repeat=3):
            if tier == 'quick' and bi >= 2 and sum(1 for c in combo if c) > 2:
                continue        # bases 3,4: assignments with <= 2 scaled outputs in the quick tier
            for mode in modes:
                if tier == 'quick' and mode == 'fwd' and sum(1 for c in combo if c) == 3 and bi:
                    continue
                c = dict(b)
                c.update(assign=list(combo), mode=mode, ivc=0)
                out.append(c)
    # single-output assignments (and IVC scaling) on the 1-ball of each base
    for b in BASES:
        for var in explore.ball(DIMS1, 1, base={n: b.get(n, DIMS1[n][0]) for n in DIMS1}):
            for oi in range(3):
                for k in range(1, NPAL):
                    for mode in modes:
                        c = dict(b)
                        c.update(var)
                        a = [0, 0, 0]
                        a[oi] = k
                        c.update(assign=a, mode=mode, ivc=0)
                        out.append(c)
            for k in (1, 2, 5, 6, 7):
                c = dict(b)
                c.update(var)
                c.update(assign=[0, 2, 0], mode='rev', ivc=k)
                out.append(c)
    out = explore.dedupe(out)
    for c in out:
        c['palette'] = pal
    return out


def _cls(cfg):
    parts = ['a=%s' % ''.join(str(x) for x in cfg['assign'])]
    if cfg.get('ivc'):
        parts.append('ivc=%d' % cfg['ivc'])
    for n in ('topo', 'hier', 'kinds', 'nl', 'ln', 'jac', 'partials', 'units', 'wiring', 'mode',
              'noasm', 'approx_sub', 'nlopt', 'rhsck'):
        v = cfg.get(n)
        if v not in (None, 'default', 'flat', 'lin', 'dense', 'none', 'plain', 'fwd', False):
            parts.append('%s=%s' % (n, v))
    return ','.join(parts)


def check_case(cfg):
    cfg = dict(cfg)
    topo = cfg.get('topo', 'chain')
    names = [c for c, _ in models.TOPO[topo]]
    sz = models.SIZES
    scal = {}
    for oi, k in enumerate(cfg['assign']):
        cname = OUTS[oi].split('.')[0]
        if cname in names and k:
            scal[OUTS[oi]] = _pal(sz[cname], k)
    w = models.WIRINGS[cfg.get('wiring', 'plain')]
    if cfg.get('ivc'):
        ent = dict(_pal(ir.size_of(w['p_shape']), cfg['ivc']))
        for k in list(ent):
            if isinstance(ent[k], list):     # array scalers take the shape of the variable
                ent[k] = np.asarray(ent[k]).reshape(w['p_shape']).tolist()
        scal['ivc.p'] = ent
    cfg['solver_scaling'] = scal or None
    cls = _cls(cfg)
    if cfg.get('noasm') and cfg.get('ln') not in ('Direct',):
        return {'evals': 0, 'outcome': 'skipped:noasm needs Direct', 'violations': []}

    orig = models.spec_from_config

    def patched(c):
        spec, why = orig(c)
        if spec is not None and cfg.get('noasm'):
            spec['groups'].setdefault(spec['solver_group'], {})['no_assemble'] = True
        if spec is not None and cfg.get('nlopt'):
            g = spec['groups'].get(spec['solver_group'], {})
            if g.get('nl') != 'NLBGS':
                return None, 'nlopt needs NLBGS'
            g['nl_opts'] = {'use_aitken': cfg['nlopt'].startswith('aitken'),
                            'use_apply_nonlinear': cfg['nlopt'].endswith('apply')}
        if spec is not None and cfg.get('approx_sub'):
            # the subgroup approximates its own (semi-total) derivatives
            if not any(cc['path'].startswith('G.') for cc in spec['comps']):
                return None, 'approx_sub needs a subgroup'
            if cfg.get('nl') in ('Newton', 'Broyden') and not spec['solver_group'].startswith('G'):
                return None, 'approx_sub under a root Newton/Broyden solver not generated'
            m = cfg['approx_sub']
            if m == 'cs' and spec['cyclic'] and spec['solver_group'].startswith('G') and \
                    spec['groups'][spec['solver_group']].get('nl') != 'Newton':
                # the imaginary part of a complex step through an iterative nonlinear solver is only
                # converged as far as the solver's real-norm test happens to take it (1e-5 relative
                # error on the unscaled model already): an approximation-accuracy question, not C08
                return None, 'complex step through an iterative solver not generated'
            spec['groups'].setdefault('G', {})['approx'] = (
                {'method': 'cs'} if m == 'cs' else {'method': 'fd', 'form': 'central', 'step': 1e-4})
            spec['force_alloc_complex'] = True
        return spec, why

    def extra(prob, spec, ref, U, V):
        model = prob.model
        # inputs in physical units
        for tgt, want in ref.inputs(U).items():
            got = np.asarray(model.get_val(tgt, from_src=False, flat=True))
            scale = max(1.0, float(np.max(np.abs(want), initial=0.0)))
            if got.shape != want.shape or not np.allclose(got, want, rtol=0, atol=1e-9 * scale):
                V('input_phys', '%s: got %s expected %s' % (tgt, got.tolist(), want.tolist()))
        # residuals in physical units
        model.run_apply_nonlinear()
        R = ref.residual(U)
        for n in ref.outs:
            if ref.tab[n]['kind'] != 'out':
                continue
            got = np.asarray(model._residuals[n]).ravel() if n in model._residuals else None
            if got is None:
                continue
            want = R[ref.sl(n)]
            if not np.allclose(got, want, rtol=0, atol=1e-8):
                V('residual_phys', '%s: got %s expected %s' % (n, got.tolist(), want.tolist()))
        # scaled values inside the scaled context
        with model._scaled_context_all():
            for n in ref.outs:
                t = ref.tab[n]
                meta = t.get('meta') or {}
                if t['kind'] == 'ivc':
                    meta = [v for v in spec['ivcs'] if 'ivc.' + v['name'] == n][0]
                r = meta.get('ref')
                r0 = meta.get('ref0')
                if r is None and r0 is None:
                    continue
                r = 1.0 if r is None else np.asarray(r, dtype=float).ravel()
                r0 = 0.0 if r0 is None else np.asarray(r0, dtype=float).ravel()
                want = (U[ref.sl(n)] - r0) / (r - r0)
                got = np.asarray(model._outputs[n]).ravel()
                if not np.allclose(got, want, rtol=1e-10, atol=1e-10):
                    V('scaled_value', '%s: scaled %s expected %s' % (n, got.tolist(),
                                                                       want.tolist()))

    models.spec_from_config = patched
    try:
        oc, nt, vio = c01_totals.evaluate(cfg, extra=extra, pid='C08', cls=cls)
    finally:
        models.spec_from_config = orig
    if vio:
        for v in vio:
            v['case'] = {k: x for k, x in cfg.items() if k != 'solver_scaling'}
    nontriv = int(oc == 'ok' and bool(scal))
    return {'evals': 1, 'nontrivial': nontriv, 'outcome': oc, 'violations': vio, 'sample': cls}
