"""C09 - iterative solvers honour their termination contract (DESIGN.md section 4, C09; engine E3).

Environment-answer search: a real two-component cycle model carries the solver under test; only
`solver._iter_get_norm` is replaced ON THE INSTANCE by a script that returns the next norm of the
current word (the original method is still called first, for its side effects, and its value is
discarded).  All norm words over an abstract alphabet are explored depth first with prefix
pruning (when the solver stops asking, every extension of the consumed prefix is equivalent), for
every option tuple of the grid, and every finished run is judged by a small reference model of the
termination contract that is written from the property statement and the option descriptions only.

State  = (solver class, option tuple, consumed norm prefix);  transition = one norm answer.
"""
import collections
import contextlib
import io
import itertools
import math
import warnings

ID = 'C09'
LEVEL = 'model_checking'
TECHNIQUE = ('explicit-state search over residual-norm answer sequences (scripted _iter_get_norm seam on '
             'real solvers in a real coupled model) with prefix pruning, judged by a reference model of '
             'the termination contract')
RULE = ('for each (solver class, option tuple): depth-first enumeration of every norm word over the '
        'alphabet {zero, below atol, exactly atol, a hair above atol, below rtol only, exactly rtol*norm0, '
        'a hair above it, three values above both (two decreasing, one increasing), equal to previous, '
        'within stall_tol of previous, within stall_tol only relatively, norm0 squared, NaN, inf} until '
        'the solver stops asking (prefix pruning); symbols whose concrete value coincides with an earlier '
        'symbol of the same node are merged; trees of the deepest maxiter of a tier use the "core" '
        'alphabet (without the second decreasing value, the relative-only stall symbol, and norm0 squared '
        'after the first iterate) and only the <= 2-deviation ball of option tuples; the quick tier adds '
        'maxiter=4 trees over an 8-symbol "mini" alphabet for stall_limit 2 and 3; one trace = one '
        'maximal consumed word; non-trivial = the solver consumed at least two norms (at least one '
        'stop/continue decision after an iteration); distinct outcome = (reported verdict, '
        'AnalysisError, reason admitted by the reference); plus an un-scripted family: 3 real models '
        '(explicit cycle; three coupled implicit states of which one is / is not off its root) x '
        '{NLBGS, NLBJ, Newton, Broyden with every non-empty state_vars subset} x maxiter in '
        '{1,2,3,6,25} x 5 tolerance settings x 3 (err_on_non_converge, iprint) settings, where the '
        'residual norm of the system is measured independently after the solve and compared with '
        'the reported verdict (a factor 10 around each tolerance is left undecided)')
LEVEL_TEXT = ('The termination logic of the shared solver loop only depends on the sequence of residual '
              'norms and a handful of options; all sequences over a 16-symbol abstract alphabet up to '
              'maxiter+1 answers are enumerated for the option grid (maxiter, tolerances, stall_limit, '
              'stall_tol_type, err_on_non_converge, complex step, Aitken, fwd/rev) on six real solver '
              'classes and each run is compared with a reference model of the contract, so every '
              'combination such as "NaN on the last allowed iterate" or "stall coinciding with '
              'convergence" inside the bound is executed.')
LEVEL_NOTE = ('Trusted: the harness seam (instance-level replacement of _iter_get_norm, which still calls '
              'the original for its side effects) and the reference model (about 30 lines).  Norm values '
              'come from 3 fixed palettes; maxiter <= 3 (quick) / 4 (thorough); MPI, Krylov/PETSc solvers, '
              'Brent and the line searches\' own loops are not covered.')
ASSUMPTIONS = [
    'iprint=0 ("disable all printing except for failures"): text on stdout during the solve is the '
    'failure report; with err_on_non_converge an AnalysisError must be raised in addition; with '
    'iprint=-1 nothing may be printed',
    'relative tolerance is relative to the first norm the solver obtains; when that norm is 0 or was '
    'never evaluated before the first iteration (block linear solvers with maxiter=1) the statement '
    'does not define rtol and either verdict is admitted for a norm above atol (unless rtol=0); when '
    'it is NaN/inf and the solver nevertheless continues (forced iteration under complex step) either '
    'verdict is admitted for any later norm above atol',
    'stall detection is a permission, not an obligation: an early stop with failure is admitted when '
    'the last stall_limit iterates are within stall_tol of their predecessor or of a common earlier '
    'iterate (absolute or relative norms according to stall_tol_type); the solver is never required '
    'to detect a stall at a particular time',
    'under complex step one extra request after a converged initial iterate is admitted (forced '
    'iteration) and one iteration beyond maxiter',
    'stopping before maxiter without meeting a tolerance is admitted only for a non-finite norm or a '
    'permitted stall (option texts of maxiter / stall_limit)',
]
MIN_NONTRIVIAL = {'quick': 200000, 'thorough': 1500000}
CHUNK = 1
CAP_S = {'thorough': 1500}

NL_CLASSES = ('NLBJ', 'NLBGS', 'Newton', 'Broyden')
LN_CLASSES = ('LNBJ', 'LNBGS')

# value palettes (seed % 3): atol, rtol, big norm0, small norm0, stall_tol
PALETTES = [
    dict(atol=1e-3, rtol=1e-2, big=8.0, small=0.5, stall_tol=2.0 ** -20),
    dict(atol=2.0 ** -12, rtol=2.0 ** -5, big=4.0, small=0.25, stall_tol=2.0 ** -22),
    dict(atol=3e-4, rtol=2e-2, big=16.0, small=0.5, stall_tol=2.0 ** -21),
]


# ------------------------------------------------------------------ case enumeration

def _option_tuples(cls, tier):
    maxiters = (1, 2, 3) if tier == 'quick' else (1, 2, 3, 4)
    full_upto = 2 if tier == 'quick' else 3     # deeper trees use the 'core' alphabet
    stall_limits = (0, 1, 2, 3) if tier == 'quick' else (0, 1, 2, 3, 4)
    out = []
    for maxiter in maxiters:
        for tol in ('both', 'atol', 'rtol'):
            for err in (False, True):
                if cls in NL_CLASSES:
                    stalls = [(0, 'rel')] + [(sl, tt) for sl in stall_limits[1:]
                                             for tt in ('abs', 'rel')]
                    aitkens = (False, True) if cls == 'NLBGS' else (False,)
                    for (sl, tt), cs, ait in itertools.product(stalls, (False, True), aitkens):
                        out.append(dict(maxiter=maxiter, tol=tol, err=err, stall_limit=sl,
                                        stall_type=tt, cs=cs, aitken=ait, mode='fwd', iprint=0,
                                        alpha='full' if maxiter <= full_upto else 'core'))
                else:
                    aitkens = (False, True) if cls == 'LNBGS' else (False,)
                    for mode, ait in itertools.product(('fwd', 'rev'), aitkens):
                        out.append(dict(maxiter=maxiter, tol=tol, err=err, stall_limit=0,
                                        stall_type='rel', cs=False, aitken=ait, mode=mode, iprint=0,
                                        alpha='full' if maxiter <= full_upto else 'core'))
    # deepest trees of a tier: only the <= 2-deviation ball around the default option tuple
    def ndev(o):
        return ((o['tol'] != 'both') + (o['stall_limit'] != 0) + o['err'] + o['cs'] +
                o['aitken'] + (o['mode'] != 'fwd'))
    out = [o for o in out if o['maxiter'] < maxiters[-1] or ndev(o) <= 2]
    if tier == 'quick' and cls in NL_CLASSES:
        # stall bookkeeping needs stall_limit + 2 iterations to show a non-consecutive stall as an
        # early stop: a few maxiter=4 trees over the 'mini' alphabet
        for sl, tt, tol in itertools.product((2, 3), ('abs', 'rel'), ('both', 'atol')):
            out.append(dict(maxiter=4, tol=tol, err=False, stall_limit=sl, stall_type=tt, cs=False,
                            aitken=False, mode='fwd', iprint=0, alpha='mini'))
    # iprint=-1 ("disable all printing including failures"): small extra ball
    for maxiter in (1, 2):
        for err in (False, True):
            out.append(dict(maxiter=maxiter, tol='both', err=err,
                            stall_limit=1 if cls in NL_CLASSES else 0, stall_type='abs', cs=False,
                            aitken=False, mode='fwd', iprint=-1, alpha='full'))
    return out


def cases(tier, seed):
    pal = seed % len(PALETTES)
    out = []
    for cls in NL_CLASSES + LN_CLASSES:
        for opts in _option_tuples(cls, tier):
            out.append({'kind': 'tree', 'cls': cls, 'opts': opts, 'pal': pal})
    out.sort(key=lambda c: (c['opts']['maxiter'], c['opts']['cs']))     # simplest first
    return _real_cases(tier) + out


# ------------------------------------------------------------------ alphabet (symbols -> values)

def _tols(opts, pal):
    P = PALETTES[pal]
    atol = P['atol'] if opts['tol'] in ('both', 'atol') else 0.0
    rtol = P['rtol'] if opts['tol'] in ('both', 'rtol') else 0.0
    return atol, rtol


_CORE_DROP = frozenset(['M', 'H2'])
_MINI_KEEP = frozenset(['Z', 'H', 'E', 'N', 'H1', 'H3', 'A', 'NaN'])


def alphabet(vals, pal, level='full'):
    """[(symbol, value)] offered after the consumed prefix `vals` (values merged when equal).
    level 'core' drops M and H2 everywhere and Q after the first iterate."""
    P = PALETTES[pal]
    if not vals:
        cand = [('Z', 0.0), ('H', P['big']), ('h', P['small']), ('A', P['atol'] / 2),
                ('NaN', float('nan')), ('Inf', float('inf'))]
    else:
        n0, prev = vals[0], vals[-1]
        base = n0 if (math.isfinite(n0) and n0 > 2.0 ** -6) else 1.0
        cand = [('Z', 0.0)]
        if math.isfinite(prev) and prev > 0.0:
            cand += [('E', prev), ('N', prev * (1 + 2.0 ** -30)), ('M', prev + 3 * P['stall_tol'])]
        cand += [('H1', 0.75 * base), ('H2', 0.3125 * base), ('H3', 1.75 * base),
                 ('Q', base * base), ('R', base * P['rtol'] / 2), ('A', P['atol'] / 2),
                 # boundary symbols: exactly at a tolerance (meets it) / a hair above it
                 ('Ta', P['atol']), ('Ba', P['atol'] * (1 + 2.0 ** -30)),
                 ('Tr', base * P['rtol']), ('Br', base * P['rtol'] * (1 + 2.0 ** -30)),
                 ('NaN', float('nan')), ('Inf', float('inf'))]
    if level == 'core':
        cand = [(s, v) for s, v in cand if s not in _CORE_DROP and not (s == 'Q' and len(vals) > 1)]
    elif level == 'mini':
        cand = [(s, v) for s, v in cand if s in _MINI_KEEP]
    out, seen = [], set()
    for s, v in cand:
        k = repr(v)
        if k not in seen:
            seen.add(k)
            out.append((s, v))
    return out


# ------------------------------------------------------------------ reference model of the contract
# Written from the property statement and the option descriptions (maxiter, atol, rtol,
# err_on_non_converge, iprint, stall_limit, stall_tol, stall_tol_type) only.

def ref_meets(v, norm0, atol, rtol):
    """True / False / None (statement silent) : does norm v meet atol or rtol?"""
    if not math.isfinite(v):
        return False
    if v <= atol:
        return True
    if norm0 is not None and not math.isfinite(norm0):
        return None          # relative to a NaN/inf initial norm: the statement is silent
    if rtol == 0.0:
        return False
    if norm0 is None or norm0 == 0.0:
        return None          # no initial norm to be relative to: the statement is silent
    return v / norm0 <= rtol


def ref_stall_permitted(vals, norm0, limit, tol, typ, q0=None):
    k = len(vals) - 1
    if limit <= 0 or k < limit:
        return False
    d = norm0 if (typ == 'rel' and norm0 and math.isfinite(norm0)) else 1.0
    q = [v / d for v in vals]
    if q0 is not None:      # only used to label a violation, never to admit a run
        q[0] = q0
    consecutive = all(abs(q[i] - q[i - 1]) <= tol for i in range(k - limit + 1, k + 1))
    anchored = any(all(abs(q[i] - q[j]) <= tol for i in range(j + 1, k + 1))
                   for j in range(0, k - limit + 1))
    return consecutive or anchored


def judge(cls, opts, pal, vals, obs):
    """Compare one finished run (consumed norms `vals`, observation `obs`) with the contract.
    Returns (outcome label, [(observable, structural class, message)])."""
    atol, rtol = _tols(opts, pal)
    maxiter, err, cs = opts['maxiter'], opts['err'], opts['cs']
    bad = []
    if obs['exc'] is not None:
        return 'exception', [('exception:' + obs['exc'][0], 'any', obs['exc'][1])]
    if not vals:
        return 'no_norm', [('no_norm_requested', 'any', 'solver finished without asking a norm')]
    norm0 = None if obs['pre_iter'] else vals[0]
    meets = [ref_meets(v, norm0, atol, rtol) for v in vals]
    iters = max(obs['n_single'], obs['iter_count'])
    stall_ok = ref_stall_permitted(vals, norm0, opts['stall_limit'], PALETTES[pal]['stall_tol'],
                                   opts['stall_type'])
    last = meets[-1]
    finite = math.isfinite(vals[-1])
    scls = 'last=%s,stall=%d' % (
        {True: 'conv', False: 'above' if finite else 'nonfinite', None: 'undef'}[last],
        int(stall_ok))
    quiet = opts['iprint'] < 0
    reported = obs['raised'] or obs['printed']

    if iters > maxiter + (1 if cs else 0):
        bad.append(('too_many_iterations', scls, '%d iterations, maxiter=%d' % (iters, maxiter)))
    for k in range(len(vals) - 1):
        if meets[k] is True and not (cs and k == 0):
            bad.append(('iterate_after_converged', scls,
                        'norm %d (%r) meets a tolerance but another iterate was requested' % (
                            k, vals[k])))
            break
    if quiet and obs['printed']:
        bad.append(('printed_with_iprint_-1', scls, obs['text'][:120]))
    if last is True:
        reason = 'converged'
        if obs['raised']:
            bad.append(('failure_on_converged', scls, 'AnalysisError although final norm %r meets '
                        'a tolerance: %s' % (vals[-1], obs['text'][:160])))
        elif obs['printed']:
            bad.append(('failure_on_converged', scls, 'failure message although final norm %r '
                        'meets a tolerance: %s' % (vals[-1], obs['text'][:160])))
    elif last is False:
        reason = ('nonfinite' if not finite else 'maxiter' if iters >= maxiter else
                  'stall' if stall_ok else 'unjustified')
        if err and not obs['raised']:
            bad.append(('missing_AnalysisError', scls, 'stopped at norm %r above both tolerances, '
                        'err_on_non_converge=True, no AnalysisError' % vals[-1]))
        if not err and obs['raised']:
            bad.append(('unexpected_AnalysisError', scls, 'err_on_non_converge=False'))
        if not quiet and not obs['printed']:
            bad.append(('success_above_tolerances' if not obs['raised'] else 'failure_not_printed',
                        scls, 'stopped at norm %r (norm0 %r) above both tolerances without a '
                        'failure message' % (vals[-1], norm0)))
        if reason == 'unjustified':
            # label only: would the stop be a stall if the first reference value were the raw
            # (un-normalised, 0 -> 1) initial norm instead of the quantity stall_tol_type names?
            raw = ref_stall_permitted(vals, norm0, opts['stall_limit'], PALETTES[pal]['stall_tol'],
                                      opts['stall_type'], q0=vals[0] if vals[0] != 0.0 else 1.0)
            bad.append(('early_stop_unjustified', '%s,type=%s,norm0=%s,ref=%s' % (
                scls, opts['stall_type'] if opts['stall_limit'] else 'off',
                'zero' if vals[0] == 0.0 else 'pos', 'raw_norm0' if raw else 'none'),
                        'stopped after %d < maxiter=%d iterations at finite norm %r above both '
                        'tolerances and no stall is visible in %r' % (iters, maxiter, vals[-1],
                                                                      vals)))
    else:
        reason = 'rtol_undefined'
        if not err and obs['raised']:
            bad.append(('unexpected_AnalysisError', scls, 'err_on_non_converge=False'))
    label = '%s:%s%s' % ('fail' if reported else 'ok', reason, '+AE' if obs['raised'] else '')
    return label, bad


# ------------------------------------------------------------------ harness (real model + seam)

class _Runaway(Exception):
    pass


def _make_problem(cls, opts, pal):
    import openmdao.api as om

    class Lin(om.ExplicitComponent):
        def __init__(self, i, o, a, b):
            super().__init__()
            self.i, self.o, self.a, self.b = i, o, a, b

        def setup(self):
            self.add_input(self.i, 1.0)
            self.add_output(self.o, 1.0)
            self.declare_partials(self.o, self.i, val=self.a)

        def compute(self, inputs, outputs):
            outputs[self.o] = self.a * inputs[self.i] + self.b

    p = om.Problem(reports=None)
    m = p.model
    m.add_subsystem('c1', Lin('y2', 'y1', 0.5, 1.0), promotes=['*'])
    m.add_subsystem('c2', Lin('y1', 'y2', 0.25, 1.5), promotes=['*'])
    if cls == 'Newton':
        s = m.nonlinear_solver = om.NewtonSolver(solve_subsystems=False)
        m.linear_solver = om.DirectSolver()
    elif cls == 'Broyden':
        s = m.nonlinear_solver = om.BroydenSolver()
        m.linear_solver = om.DirectSolver()
    elif cls == 'NLBGS':
        s = m.nonlinear_solver = om.NonlinearBlockGS()
    elif cls == 'NLBJ':
        s = m.nonlinear_solver = om.NonlinearBlockJac()
    else:
        m.nonlinear_solver = om.NonlinearBlockGS(maxiter=60, atol=1e-14, rtol=1e-14, iprint=-1)
        s = m.linear_solver = om.LinearBlockGS() if cls == 'LNBGS' else om.LinearBlockJac()
    atol, rtol = _tols(opts, pal)
    s.options['maxiter'] = opts['maxiter']
    s.options['atol'] = atol
    s.options['rtol'] = rtol
    s.options['iprint'] = opts['iprint']
    s.options['err_on_non_converge'] = opts['err']
    if cls in NL_CLASSES:
        s.options['stall_limit'] = opts['stall_limit']
        s.options['stall_tol'] = PALETTES[pal]['stall_tol']
        s.options['stall_tol_type'] = opts['stall_type']
    if opts['aitken']:
        s.options['use_aitken'] = True
    p.setup(force_alloc_complex=bool(opts['cs']), mode=opts['mode'])
    p.final_setup()
    return p, s


class Harness(object):
    def __init__(self, cls, opts, pal):
        self.cls, self.opts = cls, opts
        self.p, self.s = _make_problem(cls, opts, pal)
        s = self.s
        self.word = []
        self.pos = 0
        self.n_single = 0
        self.pre_iter = 0
        self.n_solve = 0
        self.limit = 4 * (opts['maxiter'] + 3)
        orig_norm = s._iter_get_norm
        orig_single = s._single_iteration

        def script():
            orig_norm()                      # keep the side effects (Broyden caches residuals)
            if self.pos == 0:
                self.pre_iter = self.n_single
            i = self.pos
            self.pos += 1
            if self.pos > self.limit:
                raise _Runaway('more than %d norm requests' % self.limit)
            return self.word[i] if i < len(self.word) else 0.0     # pad: zero norm

        def single():
            self.n_single += 1
            orig_single()

        s._iter_get_norm = script
        s._single_iteration = single
        if cls in LN_CLASSES:
            orig_solve = s.solve

            def solve(*a, **k):
                self.n_solve += 1
                return orig_solve(*a, **k)
            s.solve = solve
            with contextlib.redirect_stdout(io.StringIO()):
                self.p.run_model()
        if opts['cs']:
            self.p.set_complex_step_mode(True)

    def run(self, vals):
        from openmdao.core.analysis_error import AnalysisError
        self.word = vals
        self.pos = self.n_single = self.pre_iter = self.n_solve = 0
        buf = io.StringIO()
        raised, exc = False, None
        p = self.p
        try:
            with contextlib.redirect_stdout(buf):
                if self.cls in NL_CLASSES:
                    p.model._outputs.set_val(1.0)
                    p.run_model()
                else:
                    p.compute_totals(of=['y2'], wrt=['y1'])
        except AnalysisError:
            raised = True
        except Exception as e:      # classified by judge
            exc = (type(e).__name__, '%s: %s' % (type(e).__name__, str(e)[:300]))
        if exc is None and self.cls in LN_CLASSES and self.n_solve != 1:
            exc = ('harness', 'expected exactly one linear solve, saw %d' % self.n_solve)
        text = buf.getvalue()
        return {'consumed': self.pos, 'n_single': self.n_single, 'pre_iter': self.pre_iter,
                'iter_count': int(self.s._iter_count), 'raised': raised,
                'printed': bool(text.strip()), 'text': text.strip().replace('\n', ' | '),
                'exc': exc}


# ------------------------------------------------------------------ explorer

def _explore(cls, opts, pal):
    h = Harness(cls, opts, pal)
    outcomes = collections.Counter()
    cnt = collections.Counter(states=1)
    vios, per_sig = [], collections.Counter()
    maxdepth = opts['maxiter'] + 3

    def leaf(syms, vals, res):
        c = res['consumed']
        if c > len(vals):       # only at the depth guard: the run was padded with zero norms
            syms = syms + ['Z'] * (c - len(vals))
            vals = vals + [0.0] * (c - len(vals))
        label, bad = judge(cls, opts, pal, vals[:c], res)
        outcomes[label] += 1
        cnt['traces'] += 1
        cnt['evals'] += 1
        if c >= 2:
            cnt['nontrivial'] += 1
        for what, scls, msg in bad:
            sig = 'C09:%s:%s:%s' % (what, cls, scls)
            per_sig[sig] += 1
            if per_sig[sig] <= 2:
                vios.append({'sig': sig,
                             'msg': '%s opts=%s word=%s norms=%s: %s' % (
                                 cls, _short_opts(opts), '.'.join(syms[:c]), vals[:c], msg),
                             'case': {'kind': 'word', 'cls': cls, 'opts': opts, 'pal': pal,
                                      'word': list(syms[:c])}})

    def dfs(syms, vals, res):
        if res is None:
            res = h.run(vals)
        if res['consumed'] <= len(vals) or res['exc'] is not None or len(vals) >= maxdepth:
            leaf(syms, vals, res)
            return
        for s, v in alphabet(vals, pal, opts.get('alpha', 'full')):
            cnt['states'] += 1
            cnt['transitions'] += 1
            # the run of `vals` was padded with zeros, i.e. it is already the run of vals+[0.0]
            dfs(syms + [s], vals + [v], res if v == 0.0 else None)

    dfs([], [], None)
    return outcomes, cnt, vios


def _short_opts(o):
    return 'maxiter=%d,tol=%s,stall=%d/%s,err=%d,cs=%d,aitken=%d,mode=%s,iprint=%d,alpha=%s' % (
        o['maxiter'], o['tol'], o['stall_limit'], o['stall_type'], o['err'], o['cs'], o['aitken'],
        o['mode'], o['iprint'], o.get('alpha', 'full'))


def _word_values(syms, pal, level='full'):
    vals = []
    for s in syms:
        d = dict(alphabet(vals, pal, level))
        if s not in d:
            # merged symbol: fall back to the unmerged candidate list semantics
            raise ValueError('symbol %s not offered after %r' % (s, vals))
        vals.append(d[s])
    return vals


# ------------------------------------------------------------------ un-scripted family (real norms)
# "A solve that reports success never leaves a residual norm above both tolerances": here nothing is
# scripted.  Real solvers run on small real models with their own norm functions; afterwards the
# residual norm of the solver's system is measured independently (run_apply_nonlinear + the
# residual values of list_outputs) and compared with what the solver reported.

REAL_MAXITER = (1, 2, 3, 6, 25)
REAL_TOLS = (('atol', 1e-3, 0.0), ('atol', 1e-9, 0.0), ('rtol', 0.0, 1e-3), ('rtol', 0.0, 1e-9),
             ('both', 1e-9, 1e-3))
REAL_REPORT = ((True, -1), (True, 0), (False, 0))          # (err_on_non_converge, iprint)
_IMP_STATES = ('st1.x1', 'st2.x2', 'oth.z')


def _real_cases(tier):
    out = []
    for model in ('cyc', 'imp', 'imp_ok'):
        if model == 'cyc':
            solvers = [('NLBGS', None), ('NLBJ', None), ('Newton', None), ('Broyden', None),
                       ('Broyden', ['y1']), ('Broyden', ['y2'])]
        else:
            solvers = [('NLBGS', None), ('NLBJ', None), ('Newton', None)]
            for r in (1, 2, 3):
                for sub in itertools.combinations(_IMP_STATES, r):
                    solvers.append(('Broyden', list(sub)))
        for cls, sv in solvers:
            out.append({'kind': 'real', 'model': model, 'cls': cls, 'state_vars': sv})
    return out


def _real_problem(model, cls, sv, maxiter, atol, rtol, err, iprint):
    import openmdao.api as om

    class Lin(om.ExplicitComponent):
        def __init__(self, i, o, a, b):
            super().__init__()
            self.i, self.o, self.a, self.b = i, o, a, b

        def setup(self):
            self.add_input(self.i, 1.0)
            self.add_output(self.o, 1.0)
            self.declare_partials(self.o, self.i, val=self.a)

        def compute(self, inputs, outputs):
            outputs[self.o] = self.a * inputs[self.i] + self.b

    class ImpLin(om.ImplicitComponent):
        """R = out - a * inp - b ; nobody solves it but the group's solver"""
        def __init__(self, i, o, a, b, o0):
            super().__init__()
            self.i, self.o, self.a, self.b, self.o0 = i, o, a, b, o0

        def setup(self):
            self.add_input(self.i, 1.0)
            self.add_output(self.o, self.o0)
            self.declare_partials(self.o, self.o, val=1.0)
            self.declare_partials(self.o, self.i, val=-self.a)

        def apply_nonlinear(self, inputs, outputs, residuals):
            residuals[self.o] = outputs[self.o] - self.a * inputs[self.i] - self.b

    p = om.Problem(reports=None)
    m = p.model
    if model == 'cyc':
        m.add_subsystem('c1', Lin('y2', 'y1', 0.5, 1.0), promotes=['*'])
        m.add_subsystem('c2', Lin('y1', 'y2', 0.25, 1.5), promotes=['*'])
    else:
        m.add_subsystem('st1', ImpLin('x2', 'x1', 0.5, 1.0, 1.0))
        m.add_subsystem('st2', ImpLin('x1', 'x2', 0.25, 1.5, 1.0))
        # imp: z is off its root; imp_ok: z does not depend on the others and starts at its root
        m.add_subsystem('oth', ImpLin('x1', 'z', 0.5 if model == 'imp' else 0.0, 3.0,
                                      0.0 if model == 'imp' else 3.0))
        m.connect('st1.x1', ['st2.x1', 'oth.x1'])
        m.connect('st2.x2', 'st1.x2')
    if cls == 'Newton':
        nl = m.nonlinear_solver = om.NewtonSolver(solve_subsystems=False)
    elif cls == 'Broyden':
        nl = m.nonlinear_solver = om.BroydenSolver()
        if sv is not None:
            nl.options['state_vars'] = list(sv)
    elif cls == 'NLBGS':
        # by default NLBGS measures the change of the outputs over a sweep, which is the residual
        # only for explicit components; with states nobody solves it is told to use the residuals
        nl = m.nonlinear_solver = om.NonlinearBlockGS(use_apply_nonlinear=(model != 'cyc'))
    else:
        nl = m.nonlinear_solver = om.NonlinearBlockJac()
    m.linear_solver = om.DirectSolver()
    nl.options['maxiter'] = maxiter
    nl.options['atol'] = atol
    nl.options['rtol'] = rtol
    nl.options['iprint'] = iprint
    nl.options['err_on_non_converge'] = err
    p.setup()
    p.final_setup()
    return p


def _resid_norm(p):
    import numpy as np
    p.model.run_apply_nonlinear()
    data = p.model.list_outputs(residuals=True, val=False, return_format='dict', out_stream=None)
    return float(np.sqrt(sum(np.sum(np.asarray(meta['resids'], dtype=float) ** 2)
                             for meta in data.values())))


def _check_real(case):
    from openmdao.core.analysis_error import AnalysisError
    model, cls, sv = case['model'], case['cls'], case['state_vars']
    only = case.get('only')
    outcomes = collections.Counter()
    vios, per_sig = [], collections.Counter()
    evals = nontriv = 0
    svl = 'all' if sv is None else '+'.join(sv)
    for maxiter in REAL_MAXITER:
        for tname, atol, rtol in REAL_TOLS:
            for err, iprint in REAL_REPORT:
                key = [maxiter, tname, atol, rtol, err, iprint]
                if only is not None and key != only:
                    continue
                buf = io.StringIO()
                raised, exc = False, None
                try:
                    with contextlib.redirect_stdout(buf), \
                            contextlib.redirect_stderr(io.StringIO()), warnings.catch_warnings():
                        warnings.simplefilter('ignore')
                        p = _real_problem(model, cls, sv, maxiter, atol, rtol, err, iprint)
                        norm0 = _resid_norm(p)
                        try:
                            p.run_model()
                        except AnalysisError:
                            raised = True
                        text = buf.getvalue()
                        norm = _resid_norm(p)
                except Exception as e:
                    exc = '%s: %s' % (type(e).__name__, str(e)[:200])
                evals += 1
                scls = 'model=%s,%s,state_vars=%s' % (model, cls, svl)

                def V(what, msg):
                    sig = 'C09:real_%s:%s' % (what, scls)
                    per_sig[sig] += 1
                    if per_sig[sig] <= 2:
                        vios.append({'sig': sig, 'case': dict(case, only=key),
                                     'msg': '%s maxiter=%d atol=%g rtol=%g err=%s iprint=%d: %s' % (
                                         scls, maxiter, atol, rtol, err, iprint, msg)})
                if exc is not None:
                    V('raises', exc)
                    outcomes['real_exception'] += 1
                    continue
                reported = raised or ('ailed to' in text) or ('NaN' in text)
                # a factor 10 on either side of a tolerance is left undecided (the norm the solver
                # saw last and the independent measurement agree to rounding only)
                above = (norm > 10 * atol) and (rtol == 0.0 or norm > 10 * rtol * norm0)
                below = (norm <= atol / 10) or (rtol > 0.0 and norm <= rtol * norm0 / 10)
                if above and not reported:
                    V('success_above_tolerances', 'no failure reported but the residual norm of '
                      'the system is %.3e (initial %.3e)' % (norm, norm0))
                if above and err and not raised:
                    V('missing_AnalysisError', 'residual norm %.3e (initial %.3e) and '
                      'err_on_non_converge=True' % (norm, norm0))
                if raised and not err:
                    V('unexpected_AnalysisError', 'err_on_non_converge=False')
                if below and reported:
                    V('failure_though_converged', 'failure reported but the residual norm of the '
                      'system is %.3e (initial %.3e)' % (norm, norm0))
                if iprint < 0 and text.strip():
                    V('printed_with_iprint_-1', text.strip()[:120])
                lab = 'real_%s_%s' % ('fail' if reported else 'ok',
                                      'above' if above else 'below' if below else 'near')
                outcomes[lab] += 1
                nontriv += int(above or below)
    return {'evals': evals, 'nontrivial': nontriv, 'outcome': dict(outcomes), 'violations': vios,
            'counters': {'states': evals, 'transitions': evals, 'traces': evals},
            'sample': {'real': '%s/%s/%s' % (model, cls, svl), 'runs': evals}}


def check_case(case):
    if case['kind'] == 'real':
        return _check_real(case)
    cls, opts, pal = case['cls'], case['opts'], case['pal']
    if case['kind'] == 'word':
        h = Harness(cls, opts, pal)
        vals = _word_values(case['word'], pal, opts.get('alpha', 'full'))
        res = h.run(vals)
        c = res['consumed']
        label, bad = judge(cls, opts, pal, vals[:c] if c <= len(vals) else
                           vals + [0.0] * (c - len(vals)), res)
        vios = [{'sig': 'C09:%s:%s:%s' % (what, cls, scls),
                 'msg': '%s opts=%s word=%s norms=%s: %s' % (cls, _short_opts(opts),
                                                            '.'.join(case['word']), vals, msg),
                 'case': case} for what, scls, msg in bad]
        return {'evals': 1, 'nontrivial': int(c >= 2), 'outcome': label, 'violations': vios,
                'counters': {'states': c + 1, 'transitions': c, 'traces': 1}}
    outcomes, cnt, vios = _explore(cls, opts, pal)
    return {'evals': cnt['evals'], 'nontrivial': cnt['nontrivial'], 'outcome': dict(outcomes),
            'violations': vios,
            'counters': {'states': cnt['states'], 'transitions': cnt['transitions'],
                         'traces': cnt['traces']},
            'sample': {'cls': cls, 'opts': _short_opts(opts), 'traces': cnt['traces'],
                       'states': cnt['states']}}
