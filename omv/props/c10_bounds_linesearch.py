"""C10 - bounds enforcement keeps Newton updates inside bounds and along the step
(DESIGN.md section 4, C10).

Seam: a real Problem with one implicit component R = u - t (Jacobian I; a second family uses
R = (u - t)**3), Newton with maxiter=1 and the line search under test.  One Newton iteration from
u0 therefore proposes exactly du = t - u0 (du = (t - u0)/3 for the cubic family) in physical
units, whatever the ref/ref0 scaling of the outputs.  For ArmijoGoldsteinLS the objective seam
`_line_search_objective` is additionally scripted on the instance (reject ... reject accept words)
so that every number of backtracks 0..maxiter occurs; the "real" families let the true residual
norm drive the search.

Oracle = the property statement, literally, in physical units, for every output entry:
    lower <= u <= upper (bounded entries),  (u - u0) * du >= 0,  |u - u0| <= |du|.
"""
import collections
import itertools

import numpy as np

ID = 'C10'
LEVEL = 'exploration'
TECHNIQUE = ('bounded exhaustive enumeration of (line search class/options, enforcement method, bound '
             'pattern, ref/ref0 scaling, vector layout, start lattice, Newton-step lattice) on a real '
             'Newton solve of R = u - t; oracle = the statement in physical units; scripted '
             'accept/reject words for the Armijo-Goldstein objective')
RULE = ('one case = one Problem (line search configuration x bound_enforcement x per-entry bound pattern '
        '{none, lower, upper, both} given as arrays or scalars x (ref, ref0) of the bounded output '
        'including ref < ref0 and negative ref x layout of a second variable before/after it); inside a '
        'case every (start, target) pair of a per-entry lattice (starts on the lower bound, inside, on the '
        'upper bound; targets = start, inside, beyond either bound, and on the bounds in the thorough tier) '
        'is run; non-trivial = the full Newton step would leave the bounds of at least one bounded entry '
        '(enforcement must act); distinct outcome = (acted/not, result on bound/inside, moved/not)')
LEVEL_TEXT = ('The enforcement kernels are elementwise array arithmetic whose defects are sign, scaling, '
              'mask and offset errors; all of these show up with two or three entries, so every combination '
              'of bound pattern, scaling sign, start position and step direction within that scope is '
              'executed through the real Newton/line-search code and compared with the statement itself.')
LEVEL_NOTE = ('Trusted: the algebra du = t - u0 for R = u - t (checked on every run against the unbounded '
              'entries of scalar/wall runs implicitly through the oracle), NumPy.  Sizes <= 3 entries per '
              'variable, two variables, values from three fixed dyadic palettes; no units, no distributed '
              'vectors, no solve_subsystems.')
ASSUMPTIONS = [
    'the precondition "starting from a point within the declared bounds" is established by construction '
    '(starts on or inside the declared bounds)',
    'a per-entry missing bound inside an array-valued lower/upper is declared as -inf/+inf',
    'the Newton step of R = u - t is t - u0 in physical units for every ref/ref0 (Jacobian = I); '
    '(t - u0)/3 for R = (u - t)**3',
    'tolerance 1e-9 (all palette values and scaling factors are dyadic)',
    'in addition to the statement, for bound_enforcement="wall" the documented option text is checked: an '
    'entry whose trial point u0 + alpha*du violates a bound ends exactly on that bound, however often the '
    'line search backtracks',
    'the "re-setup" cases change the declared bounds between two setup() calls of the same model; the '
    'statement is applied to the bounds declared last',
]
MIN_NONTRIVIAL = {'quick': 130000, 'thorough': 800000}
CAP_S = {'thorough': 1500}

TOL = 1e-9

# palettes (seed % 3): per-entry lower, upper (3 entries), scalar bounds, start fraction, target
# fraction, overshoot below/above (in units of the interval width)
PALETTES = [
    dict(L=[-1.0, 0.5, -2.0], U=[2.0, 3.0, 1.5], Ls=-1.0, Us=2.0, f1=[0.25, 0.625, 0.375],
         f2=[0.75, 0.125, 0.5], gb=[0.75, 1.25, 0.5], ga=[0.5, 1.5, 1.25]),
    dict(L=[0.25, -3.0, 1.0], U=[1.75, -0.5, 5.0], Ls=-0.5, Us=3.5, f1=[0.375, 0.25, 0.75],
         f2=[0.625, 0.875, 0.125], gb=[1.5, 0.5, 0.75], ga=[0.25, 1.0, 2.0]),
    dict(L=[-4.0, -0.25, 2.0], U=[-1.0, 0.75, 2.5], Ls=-2.0, Us=6.0, f1=[0.5, 0.125, 0.25],
         f2=[0.25, 0.375, 0.875], gb=[0.5, 2.0, 1.0], ga=[1.0, 0.75, 0.5]),
]
SCALINGS = [(1.0, 0.0), (2.0, 0.0), (0.5, 0.25), (-1.0, 0.0), (0.0, 1.0)]     # (ref, ref0)
METHODS = ('vector', 'scalar', 'wall')


def _arr_scalings(n):
    """array-valued (ref, ref0): orientation (ref > ref0 or ref < ref0) differs between entries"""
    ref = [2.0, -1.0, 0.5][:n]
    ref0 = [0.0, 1.0, 4.0][:n]
    return [(ref, ref0), ([-0.5, 4.0, -2.0][:n], [0.25, 0.0, 0.0][:n])]


# ------------------------------------------------------------------ enumeration

def _patterns(n, tier):
    """bound patterns of the bounded variable: ('arr', per-entry letters) or scalar forms"""
    out = [('arr', ''.join(t)) for t in itertools.product('NLUB', repeat=n)]
    out += [('scalar', 'L'), ('scalar', 'U'), ('scalar', 'B'), ('mixed', 'B')]
    return out


def _ls_configs(tier):
    cfgs = [dict(cls='BE')]
    if tier == 'quick':
        cfgs += [dict(cls='AG', alpha=1.0, rejects=0, fam='script'),
                 dict(cls='AG', alpha=1.0, rejects=2, fam='script'),
                 dict(cls='AG', alpha=0.5, rejects=1, fam='script'),
                 dict(cls='AG', alpha=0.5, rejects=4, fam='script'),
                 dict(cls='AG', alpha=1.0, c=0.1, fam='linear', method='Armijo'),
                 dict(cls='AG', alpha=1.0, c=0.9, fam='cubic', method='Armijo'),
                 dict(cls='AG', alpha=0.5, c=0.1, fam='cubic', method='Armijo')]
    else:
        for alpha in (1.0, 0.5):
            for r in (0, 1, 2, 3, 4):
                cfgs.append(dict(cls='AG', alpha=alpha, rejects=r, fam='script'))
            for c in (0.1, 0.9):
                for fam in ('linear', 'cubic'):
                    for method in ('Armijo', 'Goldstein'):
                        cfgs.append(dict(cls='AG', alpha=alpha, c=c, fam=fam, method=method))
    return cfgs


def cases(tier, seed):
    pal = seed % len(PALETTES)
    out = []
    for cfg in _ls_configs(tier):
        for meth in METHODS:
            for kind, pat in _patterns(2, tier):
                for sc in SCALINGS + _arr_scalings(2):
                    for layout in ('xy', 'yx'):
                        if tier != 'quick' and layout == 'xy' and cfg.get('fam') in ('linear',
                                                                                      'cubic'):
                            continue      # thorough: real-objective families in one layout only
                        out.append({'kind': 'grid', 'ls': cfg, 'method': meth, 'n': 2,
                                    'bounds': (kind, pat), 'scaling': sc, 'layout': layout,
                                    'pal': pal, 'lattice': 'q' if tier == 'quick' else 't'})
    # stale arrays: bounds changed between two setups of the same model
    for meth in METHODS:
        for pat in ('NB', 'LU', 'UN', 'NN'):
            for cfg in _ls_configs('quick')[:2]:
                out.append({'kind': 'resetup', 'ls': cfg, 'method': meth, 'n': 2,
                            'bounds': ('arr', pat), 'scaling': (1.0, 0.0), 'layout': 'yx',
                            'pal': pal, 'lattice': 'q'})
    if tier == 'thorough':
        for cfg in (dict(cls='BE'), dict(cls='AG', alpha=1.0, rejects=2, fam='script')):
            for meth in METHODS:
                for kind, pat in _patterns(3, tier):
                    for sc in [SCALINGS[0], SCALINGS[2], SCALINGS[3]] + _arr_scalings(3):
                        out.append({'kind': 'grid', 'ls': cfg, 'method': meth, 'n': 3,
                                    'bounds': (kind, pat), 'scaling': sc, 'layout': 'yx',
                                    'pal': pal, 'lattice': 'r'})
    out.sort(key=lambda c: (c['kind'] != 'grid', c['n'], c['ls']['cls'] != 'BE'))
    return out


# ------------------------------------------------------------------ concrete bounds and lattices

def _bounds(case):
    """(lower, upper) arguments for add_output and the effective per-entry arrays"""
    P = PALETTES[case['pal']]
    n = case['n']
    kind, pat = case['bounds']
    L, U = np.array(P['L'][:n]), np.array(P['U'][:n])
    if kind == 'arr':
        lo = np.array([L[i] if pat[i] in 'LB' else -np.inf for i in range(n)])
        up = np.array([U[i] if pat[i] in 'UB' else np.inf for i in range(n)])
        lo_arg = lo if np.isfinite(lo).any() else None
        up_arg = up if np.isfinite(up).any() else None
        return lo_arg, up_arg, lo, up, L, U
    if kind == 'scalar':
        lo_arg = P['Ls'] if pat in 'LB' else None
        up_arg = P['Us'] if pat in 'UB' else None
    else:   # mixed: scalar lower, array upper
        lo_arg = P['Ls']
        up_arg = np.array([P['Us'] + 0.5 * i for i in range(n)])
    lo = np.full(n, -np.inf) if lo_arg is None else np.full(n, lo_arg) * 1.0
    up = np.full(n, np.inf) if up_arg is None else (np.full(n, up_arg) if np.isscalar(up_arg)
                                                    else up_arg.copy())
    # virtual interval used to place the lattice
    Lv = np.where(np.isfinite(lo), lo, P['Ls'])
    Uv = np.where(np.isfinite(up), up, P['Us'] + 0.5 * np.arange(n))
    return lo_arg, up_arg, lo, up, Lv, Uv


def _entry_lattice(case, i, Lv, Uv):
    """[(start, target)] for entry i"""
    P = PALETTES[case['pal']]
    lo, hi = float(Lv[i]), float(Uv[i])
    w = hi - lo
    starts = [lo, lo + P['f1'][i] * w, hi]
    below, above, inside = lo - P['gb'][i] * w, hi + P['ga'][i] * w, lo + P['f2'][i] * w
    lat = case['lattice']
    out = []
    for s in starts:
        if lat == 'r':
            targets = [s, below, above]
        elif lat == 'q':
            targets = [s, inside, below, above]
        else:
            targets = [s, inside, below, above, lo, hi]
        seen = set()
        for t in targets:
            if t not in seen:
                seen.add(t)
                out.append((s, t))
    return out


Y_LO, Y_UP = -3.0, 4.0
Y_START = np.array([0.25, -0.75])
Y_TARGET_IN = np.array([1.25, -1.75])
Y_TARGET_OUT = np.array([6.5, -1.75])


# ------------------------------------------------------------------ harness

def _build(case, x_lower, x_upper):
    import openmdao.api as om
    ls_cfg = case['ls']
    cubic = ls_cfg.get('fam') == 'cubic'

    class Res(om.ImplicitComponent):
        def __init__(self, spec):
            super().__init__()
            self.spec = spec

        def setup(self):
            for name, n, lo, up, ref, ref0 in self.spec:
                self.add_input('t_' + name, np.zeros(n))
                self.add_output(name, np.zeros(n), lower=lo, upper=up, ref=ref, ref0=ref0)
                ar = np.arange(n)
                self.declare_partials(name, name, rows=ar, cols=ar, val=1.0)
                self.declare_partials(name, 't_' + name, rows=ar, cols=ar, val=-1.0)

        def apply_nonlinear(self, inputs, outputs, residuals):
            for name, *_ in self.spec:
                d = outputs[name] - inputs['t_' + name]
                residuals[name] = d ** 3 if cubic else d

        def linearize(self, inputs, outputs, J):
            if cubic:
                for name, *_ in self.spec:
                    d = outputs[name] - inputs['t_' + name]
                    J[name, name] = 3 * d ** 2
                    J[name, 't_' + name] = -3 * d ** 2

    ref, ref0 = case['scaling']
    xspec = ('x', case['n'], x_lower, x_upper, ref, ref0)
    if case['layout'] == 'xy':
        spec = [xspec, ('y', 2, None, None, 2.0, 0.0)]
    else:
        spec = [('y', 2, Y_LO, Y_UP, 0.5, 0.25), xspec]
    comp = Res(spec)
    p = om.Problem(reports=None)
    p.model.add_subsystem('c', comp, promotes=['*'])
    nl = p.model.nonlinear_solver = om.NewtonSolver(solve_subsystems=False, maxiter=1, iprint=-1)
    p.model.linear_solver = om.DirectSolver()
    if ls_cfg['cls'] == 'BE':
        ls = om.BoundsEnforceLS(bound_enforcement=case['method'])
    else:
        ls = om.ArmijoGoldsteinLS(bound_enforcement=case['method'], alpha=ls_cfg['alpha'],
                                  rho=0.5, maxiter=3, iprint=-1)
        if 'c' in ls_cfg:
            ls.options['c'] = ls_cfg['c']
            ls.options['method'] = ls_cfg['method']
    nl.linesearch = ls
    state = {'calls': 0}
    if ls_cfg.get('fam') == 'script':
        rejects = ls_cfg['rejects']

        def objective():
            # call 0 = phi0, call k >= 1 = k-th trial point: reject `rejects` trials, then accept
            k = state['calls']
            state['calls'] += 1
            if k == 0:
                return 1.0
            return 4.0 if k <= rejects else 0.0
        ls._line_search_objective = objective
    return p, comp, ls, state


def _run(p, state, x0, tx, y0, ty):
    state['calls'] = 0
    p.set_val('x', x0)
    p.set_val('t_x', tx)
    p.set_val('y', y0)
    p.set_val('t_y', ty)
    p.run_model()
    return np.array(p.get_val('x'), dtype=float), np.array(p.get_val('y'), dtype=float)


def _judge(u, u0, du, lo, up):
    """the statement, literally; returns list of (observable, entry index)"""
    bad = []
    if not np.all(np.isfinite(u)):
        return [('nonfinite_output', int(np.argmax(~np.isfinite(u))))]
    scale = 1.0 + np.abs(u0) + np.abs(du)
    for i in range(len(u)):
        tol = TOL * scale[i]
        d = u[i] - u0[i]
        if u[i] < lo[i] - tol or u[i] > up[i] + tol:
            bad.append(('out_of_bounds', i))
        if du[i] == 0.0:
            if abs(d) > tol:
                bad.append(('moved_without_step', i))      # |u - u0| <= |du| = 0 violated
        elif d * np.sign(du[i]) < -tol:
            bad.append(('against_step', i))
        elif abs(d) > abs(du[i]) + tol:
            bad.append(('beyond_step', i))
    return bad


def _sig_class(case):
    """structural class of a configuration: line search / method / sign of the output scaling
    (the bound pattern, layout and lattice point are in the message and the replay file)"""
    ls = case['ls']
    ref, ref0 = case['scaling']
    name = 'BoundsEnforceLS' if ls['cls'] == 'BE' else 'ArmijoGoldsteinLS'
    if isinstance(ref, (list, tuple)):
        orient = 'ref<>ref0_per_entry'
    else:
        orient = 'ref<ref0' if ref < ref0 else 'ref>ref0'
    return '%s/%s:%s%s' % (name, case['method'], orient,
                           ':bounds_changed_by_resetup' if case['kind'].startswith('resetup')
                           else '')


def _short(case):
    ls = case['ls']
    return 'ls=%s method=%s bounds=%s/%s scaling=%s layout=%s n=%d' % (
        ','.join('%s=%s' % kv for kv in ls.items()), case['method'], case['bounds'][0],
        case['bounds'][1], case['scaling'], case['layout'], case['n'])


def _check_points(case, points):
    """points: list of (x0, tx, y0, ty).  Returns result dict."""
    lo_arg, up_arg, lo, up, Lv, Uv = _bounds(case)
    cubic = case['ls'].get('fam') == 'cubic'
    vios, outcomes = [], collections.Counter()
    per_sig = collections.Counter()
    evals = nontrivial = 0
    if case['kind'] in ('resetup', 'resetup1'):
        # first set-up: tight two-sided bounds around the interior start on every entry
        P = PALETTES[case['pal']]
        w = Uv - Lv
        mid = Lv + np.array(P['f1'][:case['n']]) * w
        p, comp, ls, state = _build(case, mid - 0.125 * w, mid + 0.0625 * w)
        p.setup()
        p.final_setup()
        comp.spec = [s if s[0] != 'x' else ('x', s[1], lo_arg, up_arg, s[4], s[5])
                     for s in comp.spec]
        p.setup()
        p.final_setup()
    else:
        p, comp, ls, state = _build(case, lo_arg, up_arg)
        p.setup()
        p.final_setup()
    ylo = np.full(2, Y_LO if case['layout'] == 'yx' else -np.inf)
    yup = np.full(2, Y_UP if case['layout'] == 'yx' else np.inf)
    sclass = _sig_class(case)
    for x0, tx, y0, ty in points:
        x0, tx, y0, ty = (np.asarray(a, dtype=float) for a in (x0, tx, y0, ty))
        dux, duy = tx - x0, ty - y0
        if cubic:
            if np.any(dux == 0.0) or np.any(duy == 0.0):
                continue            # singular Jacobian of (u - t)**3: not in the space
            dux, duy = dux / 3.0, duy / 3.0
        evals += 1
        pt = {'kind': 'point', 'base': {k: v for k, v in case.items() if k != 'kind'},
              'setup': 'resetup' if case['kind'] in ('resetup', 'resetup1') else 'once',
              'x0': x0, 'tx': tx, 'y0': y0, 'ty': ty}
        try:
            x, y = _run(p, state, x0, tx, y0, ty)
        except Exception as exc:
            sig = 'C10:exception_%s:%s' % (type(exc).__name__, sclass)
            per_sig[sig] += 1
            outcomes['exception'] += 1
            if per_sig[sig] <= 1:
                vios.append({'sig': sig, 'case': pt, 'msg': '%s x0=%s du=%s: %s: %s' % (
                    _short(case), x0.tolist(), dux.tolist(), type(exc).__name__,
                    str(exc)[:200])})
            # the Problem may be in an undefined state: rebuild
            p, comp, ls, state = _build(case, lo_arg, up_arg)
            p.setup()
            p.final_setup()
            continue
        acts = bool(np.any(x0 + dux < lo - TOL) or np.any(x0 + dux > up + TOL))
        nontrivial += int(acts)
        bad = [('x', w, i) for w, i in _judge(x, x0, dux, lo, up)] + \
              [('y', w, i) for w, i in _judge(y, y0, duy, ylo, yup)]
        if case['method'] == 'wall' and np.all(np.isfinite(x)):
            # option text of bound_enforcement='wall': "the violating entries are set to the bound
            # ... and do not change during the line search"
            trial = x0 + case['ls'].get('alpha', 1.0) * dux
            for i in range(len(x)):
                wall = lo[i] if trial[i] < lo[i] - TOL else up[i] if trial[i] > up[i] + TOL else None
                if wall is not None and abs(x[i] - wall) > TOL * (1 + abs(wall)):
                    bad.append(('x', 'wall_entry_left_the_wall', i))
                    break
        onb = bool(np.any(np.abs(x - lo) <= TOL) or np.any(np.abs(x - up) <= TOL))
        moved = bool(np.any(np.abs(x - x0) > TOL))
        full = bool(np.all(np.abs(x - x0 - dux) <= TOL * (1 + np.abs(dux))))
        outcomes['%s:%s:%s' % ('acts' if acts else 'free', 'on_bound' if onb else 'inside',
                               'full_step' if full else 'partial' if moved else 'no_move')] += 1
        seen = set()
        for var, what, i in bad:
            sig = 'C10:%s:%s' % (what, sclass)
            if sig in seen:
                continue
            seen.add(sig)
            per_sig[sig] += 1
            if per_sig[sig] <= 1:
                vios.append({'sig': sig, 'case': pt, 'msg': (
                    '%s: %s[%d]: start x=%s y=%s, Newton step dx=%s dy=%s, bounds x in [%s, %s]'
                    ' -> x=%s y=%s' % (_short(case), var, i, x0.tolist(), y0.tolist(),
                                       dux.tolist(), duy.tolist(), lo.tolist(), up.tolist(),
                                       x.tolist(), y.tolist()))})
    return {'evals': evals, 'nontrivial': nontrivial, 'outcome': dict(outcomes),
            'violations': vios,
            'sample': {'case': _short(case), 'points': evals, 'enforcement_acted': nontrivial}}


def check_case(case):
    if case['kind'] == 'point':
        base = dict(case['base'])
        base['kind'] = 'resetup1' if case.get('setup') == 'resetup' else 'grid'
        return _check_points(base, [(case['x0'], case['tx'], case['y0'], case['ty'])])
    lo_arg, up_arg, lo, up, Lv, Uv = _bounds(case)
    per_entry = [_entry_lattice(case, i, Lv, Uv) for i in range(case['n'])]
    points = []
    for k, combo in enumerate(itertools.product(*per_entry)):
        x0 = [c[0] for c in combo]
        tx = [c[1] for c in combo]
        # the second variable alternates between a step that stays inside and one that overshoots
        ty = Y_TARGET_OUT if (k % 3 == 1) else Y_TARGET_IN
        points.append((x0, tx, Y_START, ty))
    return _check_points(case, points)
