"""C11 - assembled Jacobian formats represent the same linear operator (DESIGN.md 4, C11)."""
import collections
import contextlib
import io
import itertools

import numpy as np

from omv.core import explore, ir, models
from omv.props.c02_adjoint import _sys_operator

ID = 'C11'
LEVEL = 'exploration'
TECHNIQUE = ('exhaustive enumeration of sub-jacobian declaration formats x wiring x units x hierarchy x '
             'update histories; for each, four real Problems (dictionary, dense, CSC, CSR jacobians) are '
             'walked through the history in lock-step and their root operators, assembled on the full '
             'unit basis in fwd and rev, are compared with each other and with a NumPy assembly')
RULE = ('configurations = full product of the declaration formats of two components {dense, rows/cols, '
        'diagonal, coo, csr, csc} plus matrix-free on the dictionary side, x wiring {plain, permutation, '
        'repeated source entry, 2-D tuple, two-level promotion} x unit pair x hierarchy (1-deviation '
        'ball around 3 bases) x every update history of length <= 2 (quick) / <= 3 (thorough) over {new '
        'values, complex step on, complex step off}; total Jacobian-vector products (fwd and rev) of every '
        'assembled variant are also compared with the dictionary variant; non-trivial = history non-empty or a sparse '
        'format is used; evals = operator columns/rows applied')
LEVEL_TEXT = ('All jacobian types see the same sub-jacobians; after every step of every update history '
              'the fwd operator, the transpose of the rev operator and todense() of each assembled '
              'matrix must equal the NumPy assembly from the IR (duplicates accumulated, columns mapped '
              'through src_indices, unit factor applied) to 1e-12, which decides format equivalence '
              'completely on the unit basis.')
LEVEL_NOTE = ('duplicate (row, col) pairs in rows/cols declarations are rejected by declare_partials, so '
              'duplicates only arise through repeated src_indices; bounded sizes; no MPI.')
ASSUMPTIONS = ['explicit-component rows follow OpenMDAO\'s sign convention d_res = -d_out + J d_in',
               'complex-step mode is toggled through Problem.set_complex_step_mode']
MIN_NONTRIVIAL = {'quick': 250, 'thorough': 1200}

FMTS = ['dense', 'rowcol', 'diag', 'coo', 'csr', 'csc']
JACS = ['dict', 'dense', 'csc', 'csr']
OPS = ['newvals', 'cs_on', 'cs_off']

DIMS = collections.OrderedDict([
    ('wiring', ['plain', 'conn_list', 'conn_dup', 'conn_dup_far', 'conn_negstep', 'conn_2d_tuple',
                'conn_2d_row', 'prom2']),
    ('units', ['none', 'm_cm', 'degC_degF']),
    ('hier', ['flat', 'allG', 'nest2', 'cycG']),
    ('kinds', ['mix1', 'lin', 'allimp']),
    ('topo', ['chain', 'cycle_tail', 'fanin']),
])


def _histories(maxlen):
    out = [()]
    for ln in range(1, maxlen + 1):
        for h in itertools.product(OPS, repeat=ln):
            # cs_off is only meaningful after cs_on; cs_on twice in a row is a no-op history
            ok, on = True, False
            for op in h:
                if op == 'cs_on':
                    if on:
                        ok = False
                    on = True
                elif op == 'cs_off':
                    if not on:
                        ok = False
                    on = False
            if ok:
                out.append(h)
    return out


def cases(tier, seed):
    pal = seed % 3
    maxlen = 2 if tier == 'quick' else 3
    hists = _histories(maxlen)
    out = []
    base = {'wiring': 'conn_dup', 'units': 'm_cm', 'hier': 'allG', 'kinds': 'mix1', 'topo': 'chain'}
    # full product of the two components' formats on the base, with every history
    for f1 in FMTS + ['matfree_dictonly']:
        for f2 in FMTS:
            for h in hists:
                if tier == 'quick' and len(h) == 2 and (FMTS.index(f2) + len(f1)) % 2:
                    continue
                c = dict(base)
                c.update(f1=f1, f2=f2, hist=list(h))
                out.append(c)
            # the same source entry repeated at non-adjacent positions of the input
            for h in hists[:2]:
                c = dict(base)
                c.update(wiring='conn_dup_far', f1=f1, f2=f2, hist=list(h))
                out.append(c)
    # 1-ball around two bases in the model dimensions, formats on the diagonal, short histories
    for b in (base, {'wiring': 'plain', 'units': 'none', 'hier': 'flat', 'kinds': 'mix1',
                     'topo': 'cycle_tail'},
              # assembled jacobian owned by a subgroup and applied under two scopes (its own solver
              # and the parent's block solver): implicit components with inputs from both sides
              {'wiring': 'plain', 'units': 'none', 'hier': 'cycG', 'kinds': 'allimp',
               'topo': 'cycle_tail'}):
        for var in explore.ball(DIMS, 1 if tier == 'quick' else 2, base=b):
            for f in ('rowcol', 'csc', 'coo'):
                for h in hists[:4]:
                    c = dict(var)
                    c.update(f1=f, f2='csr' if f == 'csc' else f, hist=list(h))
                    out.append(c)
    out = explore.dedupe(out)
    for c in out:
        c['palette'] = pal
    return out


def _cls(c):
    return '%s+%s/%s/%s/%s/%s/%s/h=%s' % (c['f1'], c['f2'], c['wiring'], c['units'], c['hier'],
                                          c['kinds'], c['topo'], '>'.join(c['hist']) or '-')


def _spec(c, jac):
    f1 = c['f1']
    dict_only = f1 == 'matfree_dictonly'
    if dict_only:
        f1 = 'matfree' if jac == 'dict' else 'dense'
    cfg = {'topo': c['topo'], 'hier': c['hier'], 'kinds': c['kinds'], 'wiring': c['wiring'],
           'units': c['units'], 'sparse': True, 'palette': c.get('palette', 0),
           'ln': 'Krylov', 'jac': None if jac == 'dict' else jac,
           'partials': 'dense'}
    if c['topo'].startswith('cycle') and c['hier'] in ('nest2',):
        return None, 'cycle split across groups not generated'
    spec, why = models.spec_from_config(cfg)
    if spec is None:
        return None, why
    # per-component formats (sizes made square so that 'diag' is expressible)
    return spec, ''


def _make(c, jac):
    f1 = c['f1']
    if f1 == 'matfree_dictonly':
        f1 = 'matfree' if jac == 'dict' else 'dense'
    w = models.WIRINGS[c['wiring']]
    import copy
    first = copy.deepcopy(w['first'])
    hmap = models.HIER[c['hier']]
    c1depth = 2 if 'c1' in hmap else 1
    if first and first.get('how') == 'promote':
        first['chain'] = first.pop('chain2' if c1depth == 2 else 'chain1')
        first.pop('chain1', None)
        first.pop('chain2', None)
    cyc = c['topo'].startswith('cycle')
    if cyc and c['hier'] == 'nest2':
        return None
    up = models.UNIT_PAIRS[c['units']]
    units = {}
    if up[0]:
        units = {'p': up[0], 'c1.x0': up[1]}
    pos, rshape = ir.apply_chain(tuple(w['p_shape']), [x for x in (first or {}).get('chain', [])
                                                         if x is not None])
    n1 = len(pos)
    sizes = {'c1': n1, 'c2': n1, 'c3': 2}
    spec = models.make(topology=c['topo'], hier=c['hier'], kinds=models.KIND_PROFILES[c['kinds']],
                       partials={'c1': f1, 'c2': c['f2'], 'c3': 'dense'},
                       palette=c.get('palette', 0), nl='Newton' if cyc else 'RunOnce', ln='Krylov',
                       jac=None if jac == 'dict' else jac, units=units, first=first,
                       p_shape=w['p_shape'], sparse=True, sizes=sizes)
    spec['force_alloc_complex'] = True
    g = spec['groups'].setdefault(spec['solver_group'], {})
    g['ln'] = 'Krylov'
    # 1e-14 is at the round-off floor of gmres for these sizes (summation order differs per format)
    g['ln_opts'] = {'atol': 1e-15, 'rtol': 1e-10}
    if jac == 'dict':
        g['no_assemble'] = True
    return spec


def _ref_operator(ref, U):
    J = ref.jacobian(U)
    M = np.zeros((ref.N, ref.N))
    for n in ref.outs:
        t = ref.tab[n]
        sl = ref.sl(n)
        if t['kind'] in ('ivc', 'auto'):
            M[sl, sl] = -np.eye(sl.stop - sl.start)
        elif t['comp']['kind'] == 'imp':
            M[sl, :] = J[sl, :]
        else:
            M[sl, :] = -J[sl, :]
    return M


def check_case(c):
    cls = _cls(c)
    vio = []

    def V(what, msg):
        vio.append({'sig': 'C11:%s:%s' % (what, cls), 'case': c, 'msg': '%s [%s]: %s' % (what, cls, msg)})
    buf = io.StringIO()
    probs = {}
    spec0 = None
    try:
        with contextlib.redirect_stdout(buf), contextlib.redirect_stderr(buf):
            for jac in JACS:
                spec = _make(c, jac)
                if spec is None:
                    return {'evals': 0, 'outcome': 'skipped', 'violations': []}
                if spec0 is None:
                    spec0 = spec
                prob, info = ir.build(spec, mode='rev')
                prob.run_model()
                probs[jac] = prob
    except Exception as exc:
        if type(exc).__name__ == 'AnalysisError':
            return {'evals': 0, 'outcome': 'not_converged', 'violations': []}
        V('build_or_run_raises', '%s: %s' % (type(exc).__name__, str(exc)[:300]))
        return {'evals': 1, 'outcome': 'violation', 'violations': vio}
    ref = ir.Ref(spec0)
    evals = 0
    # permutation from OpenMDAO's root output order to the reference order
    m0 = probs['dict'].model
    perm = np.zeros(ref.N, dtype=int)
    for n in ref.outs:
        a, b = m0._outputs.get_range(ir.src_abs_name(probs['dict'], spec0, n))
        perm[ref.sl(n)] = np.arange(a, b)

    def observe(step, cs=False):
        nonlocal evals
        if cs:
            # under complex step only the jacobians are refreshed (dtype switch); linear operators
            # are applied by the framework only on real vectors
            for prob in probs.values():
                with contextlib.redirect_stdout(buf), contextlib.redirect_stderr(buf):
                    prob.model.run_linearize()
            return
        if step != 'setup':
            for prob in probs.values():
                with contextlib.redirect_stdout(buf), contextlib.redirect_stderr(buf):
                    prob.run_model()
        # the operators as the linear solvers use them (scoped applies from parent solvers):
        # Jacobian-vector products of the totals must not depend on the jacobian type
        of = [r['name'] for r in spec0['responses']]
        wrt = [d['name'] for d in spec0['dvs']]
        jv = {}
        for jac, prob in probs.items():
            with contextlib.redirect_stdout(buf), contextlib.redirect_stderr(buf):
                sf = {n: 0.5 + 0.25 * np.arange(np.size(prob.get_val(n))).reshape(
                    np.shape(prob.get_val(n))) for n in wrt}
                sr = {n: 0.5 + 0.25 * np.arange(np.size(prob.get_val(n))).reshape(
                    np.shape(prob.get_val(n))) for n in of}
                a = prob.compute_jacvec_product(of, wrt, 'fwd', sf, linearize=True)
                b = prob.compute_jacvec_product(of, wrt, 'rev', sr, linearize=True)
            jv[jac] = np.concatenate([np.ravel(a[n]) for n in of] + [np.ravel(b[n]) for n in wrt])
            evals += 2
        for jac in JACS[1:]:
            d = float(np.max(np.abs(jv[jac] - jv['dict']), initial=0.0))
            if not np.isfinite(d) or d > 1e-7 * max(1.0, float(np.max(np.abs(jv['dict']),
                                                                     initial=0.0))):
                V('jacvec_' + jac, 'after %s: total jacobian-vector products differ from the '
                  'dictionary-jacobian model by %.3e' % (step, d))
        U = ir.gather_U(probs['dict'], ref).real
        Mref = _ref_operator(ref, U)
        scale = max(1.0, float(np.max(np.abs(Mref))))
        for jac, prob in probs.items():
            model = prob.model
            with contextlib.redirect_stdout(buf), contextlib.redirect_stderr(buf):
                model.run_linearize()
                none = np.zeros(0, dtype=int)
                Mf = _sys_operator(model, model, 'fwd', none)
                Mr = _sys_operator(model, model, 'rev', none)
            evals += 2 * Mf.shape[0]
            Mf = np.real(Mf)[np.ix_(perm, perm)]
            Mr = np.real(Mr)[np.ix_(perm, perm)]
            for name, M in (('fwd', Mf), ('rev', Mr)):
                err = float(np.max(np.abs(M - Mref)))
                if not np.isfinite(err) or err > 1e-11 * scale:
                    i, j = np.unravel_index(np.argmax(np.abs(M - Mref)), M.shape)
                    V('operator_%s_%s' % (jac, name), 'after %s: max err %.3e at (%d,%d): got %.10g '
                      'expected %.10g' % (step, err, i, j, M[i, j], Mref[i, j]))
            if jac != 'dict' and spec0.get('solver_group', '') == '':
                aj = model._get_assembled_jac()
                if aj is None:
                    V('no_assembled_jac_' + jac, 'assembled jacobian missing')
                else:
                    mtx = aj.get_dr_do_matrix()
                    D = mtx.toarray() if hasattr(mtx, 'toarray') else np.asarray(mtx)
                    D = np.real(D)[np.ix_(perm, perm)]
                    err = float(np.max(np.abs(D - Mref)))
                    if err > 1e-11 * scale:
                        i, j = np.unravel_index(np.argmax(np.abs(D - Mref)), D.shape)
                        V('todense_' + jac, 'after %s: max err %.3e at (%d,%d): got %.10g expected '
                          '%.10g' % (step, err, i, j, D[i, j], Mref[i, j]))

    try:
        observe('setup')
        k = 0
        cs_state = False
        for op in c['hist']:
            k += 1
            if vio:
                break
            for jac, prob in probs.items():
                with contextlib.redirect_stdout(buf), contextlib.redirect_stderr(buf):
                    if op == 'newvals':
                        for n in ref.outs:
                            t = ref.tab[n]
                            if t['kind'] in ('ivc', 'auto'):
                                v = t['val'] * (0.5 + 0.25 * k) + 0.375 * k
                                prob.set_val(ir.om_name(spec0, n) if t['kind'] == 'auto' else n, v)
                        if not cs_state:
                            prob.run_model()
                    elif op == 'cs_on':
                        prob.set_complex_step_mode(True)
                    elif op == 'cs_off':
                        prob.set_complex_step_mode(False)
            if op == 'cs_on':
                cs_state = True
            elif op == 'cs_off':
                cs_state = False
            observe('%d:%s' % (k, op), cs=cs_state)
    except Exception as exc:
        if type(exc).__name__ == 'AnalysisError':
            return {'evals': evals, 'outcome': 'not_converged', 'violations': []}
        import traceback
        V('history_raises', '%s: %s | %s' % (type(exc).__name__, str(exc)[:200],
                                            traceback.format_exc()[-300:]))
    finally:
        for prob in probs.values():
            try:
                prob.set_complex_step_mode(False)
            except Exception:
                pass
    nontriv = int(bool(c['hist']) or c['f1'] != 'dense' or c['f2'] != 'dense')
    return {'evals': evals, 'nontrivial': nontriv if not vio else 0,
            'outcome': 'violation' if vio else 'ok', 'violations': vio, 'sample': cls}
