"""C12 - FD and complex-step approximations are faithful and side-effect free (DESIGN.md 4, C12)."""
import collections
import contextlib
import io

import numpy as np

from omv.core import explore, ir, models

ID = 'C12'
LEVEL = 'exploration'
TECHNIQUE = ('exhaustive enumeration of approximation settings (method, form, step, step_calc, level, '
             'colouring) x small real models; oracle: the finite-difference formula applied to the '
             'exact NumPy reference function (so the truncation error is known exactly), colored vs '
             'uncolored equality, byte-equality of the model vectors before and after')
RULE = ('settings = {fd forward, fd backward, fd central, cs} x step {1e-2, 1e-4} x step_calc {abs, rel, '
        'rel_avg, rel_element, rel_legacy} x level {component partials, group approx_totals} x colored '
        '{no, yes}; models = 1-deviation ball (quick) / 2 (thorough) over topology, component kinds, '
        'wiring, units, a zero entry in the perturbed variable, mode, coupled cycle under NLBGS/Newton; '
        'non-trivial = a finite-difference '
        'setting whose truncation error is non-zero, or a colored approximation, or a non-abs '
        'step_calc; each configuration is enumerated once')
LEVEL_TEXT = ('The IR functions are polynomials, so applying the documented difference formula with the '
              'documented step to the independent NumPy reference function gives the value the '
              'approximation must return up to round-off (this is "within the truncation error" made '
              'exact); complex step must equal the analytic derivative; colored and uncolored '
              'approximations must agree; inputs, outputs and residuals must be bit-identical after '
              'the derivative computation.')
LEVEL_NOTE = ('step semantics as documented in declare_partials/approx_totals (abs; rel_avg = mean '
              'absolute value; rel_element = elementwise; rel_legacy = norm; minimum_step floor); bounded '
              'model sizes; round-off allowance 200*eps*max|f|/h.')
ASSUMPTIONS = ['complex step through a NonlinearBlockGS iteration is not compared: the solver only '
               're-converges the imaginary part as far as its real-norm test takes it (design of '
               'cs_reconverge), which is not "complex-safe code"; Newton (exact for the linear imaginary '
               'part) is compared',
               'the bound form of the property (|error| <= truncation bound) is replaced by equality with '
               'the difference quotient of the exact function, which is tighter and equivalent for '
               'polynomials when the documented step is used']
MIN_NONTRIVIAL = {'quick': 400, 'thorough': 2000}

METHODS = [('fd', 'forward'), ('fd', 'backward'), ('fd', 'central'), ('cs', None)]
STEPS = [1e-2, 1e-4]
STEP_CALCS = ['abs', 'rel', 'rel_avg', 'rel_element', 'rel_legacy']

DIMS = collections.OrderedDict([
    ('topo', ['two', 'single', 'chain', 'fanin', 'cycle_tail', 'cycle2']),
    ('kinds', ['allquad', 'lin', 'quadimp']),
    ('wiring', ['plain', 'conn_list', 'conn_dup', 'conn_2d_tuple', 'prom2', 'auto']),
    ('units', ['none', 'm_cm', 'degC_degF']),
    ('zero', [False, True]),
    ('mode', ['fwd', 'rev']),
    ('hier', ['flat', 'allG']),
    ('nl', ['NLBGS', 'Newton']),       # solver of the cycle (cyclic topologies only)
])


def cases(tier, seed):
    pal = seed % 3
    out = []
    k = 1 if tier == 'quick' else 2
    models_ = explore.ball(DIMS, k)
    i = 0
    for mi, m in enumerate(models_):
        for level in ('comp', 'group'):
            for fi, (method, form) in enumerate(METHODS):
                for step in (STEPS if method == 'fd' else [None]):
                    for si, sc in enumerate(STEP_CALCS if method == 'fd' else ['abs']):
                        for colored in (False, True):
                            # quick: the three scalar relative step rules on alternating
                            # (model, form) pairs; colored and uncolored always both kept
                            if tier == 'quick' and sc not in ('abs', 'rel_element') and \
                                    (mi + fi + si) % 2:
                                continue
                            c = dict(m)
                            c.update(level=level, method=method, form=form, step=step, step_calc=sc,
                                     colored=colored, palette=pal)
                            out.append(c)
    return out


def _cls(c):
    parts = ['%s/%s%s/%s/%s%s' % (c['level'], c['method'], '-' + c['form'] if c['form'] else '',
                                   c['step'], c['step_calc'], '/colored' if c['colored'] else '')]
    for n in DIMS:
        if c.get(n, DIMS[n][0]) != DIMS[n][0]:
            parts.append('%s=%s' % (n, c[n]))
    return ','.join(parts)


def _h(step, sc, x, minimum_step=1e-12):
    """documented step size per entry of the perturbed variable x"""
    x = np.asarray(x, dtype=float).ravel()
    if sc == 'abs':
        return np.full(x.size, step)
    if sc in ('rel', 'rel_avg'):
        h = step * np.sum(np.abs(x)) / x.size
        return np.full(x.size, max(h, minimum_step))
    if sc == 'rel_legacy':
        h = step * np.linalg.norm(x)
        return np.full(x.size, max(h, minimum_step))
    h = step * np.abs(x)
    h[h < minimum_step] = minimum_step
    return h


def _quot(func, x, h, form):
    """difference quotient matrix of func at x with per-entry steps h"""
    x = np.asarray(x, dtype=float)
    f0 = func(x)
    J = np.zeros((f0.size, x.size))
    for j in range(x.size):
        e = np.zeros(x.size)
        e[j] = h[j]
        if form == 'forward':
            J[:, j] = (func(x + e) - f0) / h[j]
        elif form == 'backward':
            J[:, j] = (f0 - func(x - e)) / h[j]
        else:
            J[:, j] = (func(x + e) - func(x - e)) / (2 * h[j])
    return J


def check_case(c):
    import openmdao.api as om
    cls = _cls(c)
    vio = []

    def V(what, msg):
        vio.append({'sig': 'C12:%s:%s' % (what, cls), 'case': c, 'msg': '%s [%s]: %s' % (what, cls, msg)})
    kinds = {'allquad': models.KIND_PROFILES['allquad'], 'lin': {},
             'quadimp': {'c1': 'quad', 'c2': 'imp', 'c3': 'quad'}}[c['kinds']]
    cyc = c['topo'].startswith('cycle')
    if not cyc and c.get('nl', 'NLBGS') != 'NLBGS':
        return {'evals': 0, 'outcome': 'skipped:solver choice only matters for a cycle', 'violations': []}
    if cyc and c['level'] == 'group' and c['method'] == 'cs' and c.get('nl', 'NLBGS') == 'NLBGS':
        # NLBGS 'reconverges' a complex step from a 1e-10 nudge of the outputs: the imaginary part is
        # only reduced by the same factor as the real residual (measured 1e-5 relative error at solver
        # tolerance 1e-13).  A truncated fixed-point iteration is not complex-safe code in the sense
        # of the statement, so the round-off oracle does not apply.
        return {'evals': 0, 'outcome': 'skipped:complex step through a block Gauss-Seidel iteration',
                'violations': []}
    cfg = {'topo': c['topo'], 'hier': c['hier'], 'wiring': c['wiring'], 'units': c['units'],
           'palette': c.get('palette', 0), 'sparse': bool(c['colored']), 'mode': c['mode']}
    if cyc:
        cfg.update(nl=c.get('nl', 'NLBGS'), ln='Direct')
    spec, why = models.spec_from_config(cfg)
    if spec is None:
        return {'evals': 0, 'outcome': 'skipped:' + why, 'violations': []}
    # component kinds (spec_from_config only knows the named profiles)
    spec2, _ = models.spec_from_config(cfg)
    w = models.WIRINGS[c['wiring']]
    import copy
    hmap = models.HIER[c['hier']]
    first = copy.deepcopy(w['first'])
    if first and first.get('how') == 'promote':
        first['chain'] = first.pop('chain2' if 'c1' in hmap else 'chain1')
        first.pop('chain1', None)
        first.pop('chain2', None)
        if first.get('src_shape_at') is not None and first['chain'] and first['chain'][0] is None:
            first['src_shape_at'] = 1
    up = models.UNIT_PAIRS[c['units']]
    units = {'p': up[0], 'c1.x0': up[1]} if up[0] else {}
    opts = {'method': c['method']}
    if c['method'] == 'fd':
        opts.update(form=c['form'], step=c['step'], step_calc=c['step_calc'])
    partials = 'dense'
    if c['level'] == 'comp':
        partials = {'c1': dict(opts)}
    spec = models.make(topology=c['topo'], hier=c['hier'], kinds=kinds, partials=partials,
                       palette=c.get('palette', 0), units=units, first=first, p_shape=w['p_shape'],
                       sparse=bool(c['colored']), nl=c.get('nl', 'NLBGS') if cyc else 'RunOnce',
                       ln='Direct' if cyc else 'RunOnce')
    spec['force_alloc_complex'] = True
    if c['zero']:
        src = (spec['ivcs'] or spec['autos'])
        v = np.asarray(src[0]['val'], dtype=float)
        # choose p so that the converted first entry of c1.x0 (or p itself for totals) is zero
        v[0] = 0.0 if c['level'] == 'group' else (-ir.unit_map(up[0], up[1])[1] if up[0] else 0.0)
        src[0]['val'] = v.tolist()
    comp1 = [cc for cc in spec['comps'] if cc['name'] == 'c1'][0]
    if c['level'] == 'comp' and c['colored']:
        comp1['coloring'] = dict(wrt='*', method=c['method'], show_summary=False,
                                 show_sparsity=False, num_full_jacs=2)
        if c['method'] == 'fd':
            comp1['coloring'].update(form=c['form'], step=c['step'])
    if c['level'] == 'group':
        spec['groups'].setdefault('', {})['approx'] = dict(opts)
    ref = ir.Ref(spec)
    buf = io.StringIO()
    try:
        with contextlib.redirect_stdout(buf), contextlib.redirect_stderr(buf):
            np.random.seed(11)

            def before(prob, groups, insts):
                if c['level'] == 'group' and c['colored']:
                    kw = dict(wrt='*', method=c['method'], show_summary=False, show_sparsity=False,
                              num_full_jacs=2)
                    if c['method'] == 'fd':
                        kw.update(form=c['form'], step=c['step'])
                    prob.model.declare_coloring(**kw)
            prob, info = ir.build(spec, mode=c['mode'], before_setup=before)
            prob.run_model()
            model = prob.model
            snap = [model._inputs.asarray().tobytes(), model._outputs.asarray().tobytes(),
                    model._residuals.asarray().tobytes()]
            of = [r['name'] for r in spec['responses']]
            wrt = [d['name'] for d in spec['dvs']]
            J = prob.compute_totals(of=of, wrt=wrt, return_format='flat_dict')
            first_zero = False
            if c['level'] == 'group' and c['colored']:
                # the call that computes the dynamic coloring is observed separately
                first_zero = all(not np.any(v) for v in J.values())
                J = prob.compute_totals(of=of, wrt=wrt, return_format='flat_dict')
            snap2 = [model._inputs.asarray().tobytes(), model._outputs.asarray().tobytes(),
                     model._residuals.asarray().tobytes()]
    except Exception as exc:
        V('raises', '%s: %s' % (type(exc).__name__, str(exc)[:300]))
        return {'evals': 1, 'outcome': 'violation', 'violations': vio}
    if first_zero:
        V('colored_first_call_zero', 'the first compute_totals after model.declare_coloring() on an '
          'approx_totals model returned an all-zero jacobian (the second call is compared below)')
    for name, a, b in zip(('inputs', 'outputs', 'residuals'), snap, snap2):
        if a != b:
            V('state_changed_' + name, 'root %s vector differs after compute_totals' % name)
    U = ir.gather_U(prob, ref)
    R = ref.residual(U)
    if float(np.max(np.abs(R[~ref.free]), initial=0.0)) > 1e-9:
        V('state_not_solution', 'reference residual %.3e' % float(np.max(np.abs(R[~ref.free]))))
        return {'evals': 1, 'outcome': 'violation', 'violations': vio}
    form = c['form']
    fmax = 1.0
    if c['level'] == 'comp':
        # component partial replaced by the difference quotient of the exact component function
        path = comp1['path']
        for iv in comp1['inputs']:
            x = ref.input_val(U, path + '.' + iv['name'])
            if comp1['kind'] == 'imp':
                continue
            A = np.asarray(comp1['A']['y|' + iv['name']])
            Q = np.asarray(comp1.get('Q', {}).get('y|' + iv['name'], np.zeros_like(A)))

            def f(xx, A=A, Q=Q):
                return A @ xx + Q @ (xx * xx)
            fmax = max(fmax, float(np.max(np.abs(f(x)))))
            if c['method'] == 'fd':
                h = _h(c['step'], c['step_calc'], x)
                ref.override[(path, 'y', iv['name'])] = _quot(f, x, h, form)
        Jr = ref.totals(U, [(r['_ref'], None) for r in spec['responses']],
                        [(d['_ref'], None) for d in spec['dvs']])
        hmin = c['step'] * 1e-3 if c['method'] == 'fd' else 1.0
    else:
        # total approximation: difference quotient of the exact response function of the sources
        free = np.where(ref.free)[0]

        def F(pvals, name):
            U0 = U.copy()
            U0[free] = pvals
            Us, ok = ref.solve(U0)
            return Us[ref.sl(name)]
        Jr = {}
        for d in spec['dvs']:
            sl = ref.sl(d['_ref'])
            cols = [int(np.where(free == k)[0][0]) for k in range(sl.start, sl.stop)]
            p0 = U[free].copy()
            for r in spec['responses']:
                if c['method'] == 'fd':
                    h = _h(c['step'], c['step_calc'], U[sl])

                    def g(xx, r=r, cols=cols, p0=p0):
                        pv = p0.copy()
                        pv[cols] = xx
                        return F(pv, r['_ref'])
                    Jr[(r['_ref'], d['_ref'])] = _quot(g, U[sl], h, form)
                    fmax = max(fmax, float(np.max(np.abs(g(U[sl])))))
                else:
                    Jr[(r['_ref'], d['_ref'])] = ref.totals(U, [(r['_ref'], None)],
                                                           [(d['_ref'], None)])[(r['_ref'],
                                                                                 d['_ref'])]
        hmin = c['step'] * 1e-3 if c['method'] == 'fd' else 1.0
    if c['method'] == 'fd':
        hs = []
        for d in spec['dvs']:
            hs.append(np.min(_h(c['step'], c['step_calc'], U[ref.sl(d['_ref'])])))
        hmin = max(min(hs + [c['step']]), 1e-12)
        if c['level'] == 'comp':
            x = ref.input_val(U, comp1['path'] + '.x0')
            hmin = max(np.min(_h(c['step'], c['step_calc'], x)), 1e-12)
        tol = 400 * 2.3e-16 * fmax / hmin * 50 + 1e-11
    else:
        tol = 1e-10
    nz = 0
    for r in spec['responses']:
        for d in spec['dvs']:
            want = Jr[(r['_ref'], d['_ref'])]
            got = np.asarray(J[(r['name'], d['name'])])
            if got.shape != want.shape:
                V('shape', 'd %s/d %s: %s vs %s' % (r['name'], d['name'], got.shape, want.shape))
                continue
            err = float(np.max(np.abs(got - want), initial=0.0))
            scale = max(1.0, float(np.max(np.abs(want), initial=0.0)))
            if hmin <= 1e-11:
                continue      # minimum_step sized perturbation: round-off dominated, not compared
            if not np.isfinite(err) or err > tol * scale:
                i, j = np.unravel_index(np.argmax(np.abs(got - want)), want.shape)
                V('colored_rel_step' if (c['colored'] and c['step_calc'] != 'abs')
                  else 'approx_value', 'd %s/d %s: max err %.3e (tol %.1e) at (%d,%d): got %.12g expected '
                  '%.12g' % (r['name'], d['name'], err, tol * scale, i, j, got[i, j], want[i, j]))
            nz += int(np.count_nonzero(np.abs(want) > 1e-12) >= 2)
    nontriv = int(bool(nz) and ((c['method'] == 'fd' and c['form'] != 'central') or c['colored'] or
                                c['step_calc'] != 'abs'))
    return {'evals': 1, 'nontrivial': nontriv if not vio else 0,
            'outcome': 'violation' if vio else 'ok', 'violations': vio, 'sample': cls}
