"""C13 - check_partials / check_totals report exactly what they compare (DESIGN.md section 4, C13).

A linear component y = Tv x with true Jacobian pattern T is given a declared sparsity pattern D
(equal to T, T minus one or two entries, T plus entries / full), a declaration format (dense,
rows/cols, diagonal, scipy coo/csr/csc), analytic values (correct, wrong at one entry, wrong by a
factor) and is run through Problem.check_partials (central difference with a dyadic step, or complex
step: both exact on a linear map).  The returned dictionary is compared with an independent NumPy
reference: J_fwd (and J_rev for matrix-free components) = the analytic values through D; J_fd = the
true Jacobian (through D for sparse declarations); 'tol violation', 'abs error', 'rel error',
'vals_at_max_error' from the formula in get_tol_violation's docstring; 'magnitude' = max |J|; and
'uncovered_nz' = exactly the set T minus D (every column, every format, no duplicates).
check_totals is run on three small linear models with one wrong partial.
"""
import collections
import contextlib
import io
import itertools
import os
import re
import warnings

import numpy as np

ID = 'C13'
LEVEL = 'exploration'
TECHNIQUE = ('exhaustive enumeration of (true pattern, declared pattern, declaration format) with '
             'bounded deviations in analytic error, method, steps, tolerances, directional and '
             'print options, against a NumPy reference of the check_partials/check_totals report')
RULE = ('every true pattern T of the bounded shapes x every declared pattern D in {T, T minus one '
        'entry, T minus two entries, T plus one entry, full} x every declaration format that can '
        'express D, with correct analytic values (base), plus one- and two-dimension deviations '
        '(analytic error kind, fd/cs, two steps, tolerances, directional, printing, variable split, '
        'matrix-free) on D = T and on the single-removal D; one evaluation = one check_partials / '
        'check_totals call whose whole report is compared; non-trivial = the report must contain a '
        'non-zero error or a non-empty uncovered_nz; each tuple is enumerated once')
LEVEL_TEXT = ('The set of (T, D, format) triples is enumerated completely for 2x3 and 3x3 maps (a '
              'stated 128-pattern subset of the 3x3 patterns in the quick tier); the bookkeeping '
              'under test (which column a nonzero is attributed to, which entries a sparse format '
              'covers, which entry carries the maximal error) is discrete and shows at these sizes.')
LEVEL_NOTE = ('Trusted: NumPy, SciPy sparse constructors, the harness component.  Values are dyadic '
              'and the maps linear so that central differences and complex step are exact and the '
              'comparison tolerances can be tight (1e-9 relative).')
ASSUMPTIONS = [
    'true patterns: all 2x3 and (quick) the 3x3 patterns whose bit code is 3 mod 4, (thorough) all '
    '3x3 patterns; the all-zero pattern is left out',
    'J_fd of a sparsely declared pair is only required to carry the approximated values inside D '
    '(outside D the entries must be flagged through uncovered_nz; there J_fd may hold 0 or the value)',
    'rel error is only defined when the reference value at the maximal violation is non-zero',
    'ties of the maximal tolerance violation: abs error / vals_at_max_error may come from any tied '
    'entry',
    'with directional=True the sparsity audit is not applicable (nothing is demanded of '
    'uncovered_nz)',
    'a (of, wrt) pair whose declared block is empty is undeclared: only J_fd and the presence of '
    'the pair are checked when its true block is non-zero',
    'every approximated value is generic (|value| >= 0.25), far above the 1e-16 uncovered threshold',
]
MIN_NONTRIVIAL = {'quick': 18000, 'thorough': 60000}
CHUNK = 1
CAP_S = {'thorough': int(os.environ.get('OMV_CAP_S', '1500'))}   # wall-clock cap

_FD_STEP = 2.0 ** -20
_FD_STEP2 = 2.0 ** -18
_FMTS = ('rowscols', 'coo', 'csr', 'csc')


def _pat(r, c, bits):
    return np.array([(bits >> k) & 1 for k in range(r * c)], dtype=bool).reshape(r, c)


def _bits(P):
    return sum(1 << k for k, v in enumerate(np.asarray(P, dtype=bool).ravel()) if v)


# --------------------------------------------------------------------------- enumeration

def _d_variants(T):
    """(class, D) for the declared patterns of the base enumeration."""
    r, c = T.shape
    nz = [tuple(x) for x in np.argwhere(T)]
    zs = [tuple(x) for x in np.argwhere(~T)]
    out = [('eq', T.copy())]
    for a in nz:
        D = T.copy()
        D[a] = False
        if D.any():
            out.append(('under1', D))
    for a, b in itertools.combinations(nz, 2):
        D = T.copy()
        D[a] = False
        D[b] = False
        if D.any():
            out.append(('under2', D))
    for a in zs:
        D = T.copy()
        D[a] = True
        out.append(('super1', D))
    if len(zs) > 1:
        out.append(('full', np.ones_like(T)))
    # mixed: one entry removed and one added
    if nz and zs:
        D = T.copy()
        D[nz[-1]] = False
        D[zs[0]] = True
        out.append(('mixed', D))
    return out


def _t_list(tier):
    out = [((2, 3), b) for b in range(1, 64)]
    if tier == 'quick':
        out += [((3, 3), b) for b in range(1, 512) if b % 4 == 3]
    else:
        out += [((3, 3), b) for b in range(1, 512)]
    return out


def cases(tier, seed):
    pal = seed % 4
    out = []
    tl = _t_list(tier)
    by_shape = collections.OrderedDict()
    for shape, b in tl:
        by_shape.setdefault(shape, []).append(b)
    for kind, n in (('base', 4), ('dev', 2)):
        for shape, bl in by_shape.items():
            for k in range(0, len(bl), n):
                out.append({'kind': kind, 'shape': shape, 'Ts': bl[k:k + n], 'pal': pal,
                            'tier': tier})
    # diagonal declarations: D = I, every square true pattern
    out.append({'kind': 'diag', 'shape': (2, 2), 'Ts': list(range(1, 16)), 'pal': pal})
    d3 = [b for b in range(1, 512) if tier == 'thorough' or b % 2 == 1]
    for k in range(0, len(d3), 16):
        out.append({'kind': 'diag', 'shape': (3, 3), 'Ts': d3[k:k + 16], 'pal': pal})
    for m in range(3):
        out.append({'kind': 'totals', 'model': m, 'pal': pal})
    return out


# --------------------------------------------------------------------------- values

def _tvals(T, pal):
    r, c = T.shape
    idx = np.arange(r * c).reshape(r, c)
    sign = np.where((np.add.outer(np.arange(r), 2 * np.arange(c)) + pal) % 3 == 0, -1.0, 1.0)
    V = sign * (0.5 + 0.25 * ((idx * (3 + 2 * pal) + pal) % (r * c + 5)) + 0.125 * idx)
    return np.where(T, V, 0.0)


def _analytic(Tv, D, kind, pal):
    """Analytic matrix (values the component's compute_partials will produce on D)."""
    A = Tv.copy()
    pos = [tuple(x) for x in np.argwhere(D)]
    if kind == 'correct' or not pos:
        return A
    if kind.startswith('wrong1'):
        delta = {'wrong1': 0.5, 'wrong1_neg': -0.25, 'wrong1_tiny': 2.0 ** -30,
                 'wrong1_last': 0.375}[kind]
        k = pos[-1] if kind == 'wrong1_last' else pos[(pal + 1) % len(pos)]
        A[k] += delta
        return A
    if kind == 'factor':
        return A * 2.0
    if kind == 'sign':
        return -A
    raise ValueError(kind)


# --------------------------------------------------------------------------- harness component

def _blocks(rs, cs):
    ro = np.concatenate([[0], np.cumsum(rs)]).astype(int)
    co = np.concatenate([[0], np.cumsum(cs)]).astype(int)
    return ro, co


def _sparse(fmt, vals, rows, cols, shape):
    import scipy.sparse as sp
    m = sp.coo_matrix((np.asarray(vals, dtype=float), (rows, cols)), shape=shape)
    return m if fmt == 'coo' else getattr(m, 'to' + fmt)()


def _make_comp(Tv, A, D, fmt, rs, cs, directional=False, mfree=None, curv=0.0, const=False):
    import openmdao.api as om
    ro, co = _blocks(rs, cs)
    r, c = Tv.shape

    def x0(j, s):
        return 0.5 + 0.25 * (np.arange(s) + co[j])

    if mfree is not None:
        Af, Ar = mfree

        class MFree(om.ExplicitComponent):
            def setup(self):
                for j, s in enumerate(cs):
                    self.add_input('x%d' % j, x0(j, s))
                for i, s in enumerate(rs):
                    self.add_output('y%d' % i, np.zeros(s))
                if directional:
                    self.set_check_partial_options('*', directional=True)

            def compute(self, inputs, outputs):
                x = np.concatenate([inputs['x%d' % j] for j in range(len(cs))])
                y = Tv.dot(x)
                for i in range(len(rs)):
                    outputs['y%d' % i] = y[ro[i]:ro[i + 1]]

            def compute_jacvec_product(self, inputs, d_inputs, d_outputs, mode):
                for i in range(len(rs)):
                    oi = 'y%d' % i
                    if oi not in d_outputs:
                        continue
                    for j in range(len(cs)):
                        ij = 'x%d' % j
                        if ij not in d_inputs:
                            continue
                        if mode == 'fwd':
                            d_outputs[oi] += Af[ro[i]:ro[i + 1], co[j]:co[j + 1]].dot(d_inputs[ij])
                        else:
                            d_inputs[ij] += Ar[ro[i]:ro[i + 1], co[j]:co[j + 1]].T.dot(d_outputs[oi])
        return MFree()

    class PatComp(om.ExplicitComponent):
        def setup(self):
            for j, s in enumerate(cs):
                self.add_input('x%d' % j, x0(j, s))
            for i, s in enumerate(rs):
                self.add_output('y%d' % i, np.zeros(s))
            for i in range(len(rs)):
                for j in range(len(cs)):
                    Db = D[ro[i]:ro[i + 1], co[j]:co[j + 1]]
                    if not Db.any():
                        continue
                    of, wrt = 'y%d' % i, 'x%d' % j
                    Ab = A[ro[i]:ro[i + 1], co[j]:co[j + 1]]
                    if const:
                        # constant partials: the (possibly wrong) analytic values are given at
                        # declaration and never written again by compute_partials
                        rr, cc = np.nonzero(Db)
                        if fmt == 'dense':
                            self.declare_partials(of, wrt, val=Ab.copy())
                        elif fmt == 'diagonal':
                            self.declare_partials(of, wrt, diagonal=True, val=np.diag(Ab).copy())
                        elif fmt == 'rowscols':
                            self.declare_partials(of, wrt, rows=rr, cols=cc, val=Ab[rr, cc])
                        else:
                            self.declare_partials(of, wrt, val=_sparse(fmt, Ab[rr, cc], rr, cc,
                                                                       Db.shape))
                    elif fmt == 'dense':
                        self.declare_partials(of, wrt)
                    elif fmt == 'diagonal':
                        self.declare_partials(of, wrt, diagonal=True)
                    elif fmt == 'rowscols':
                        rr, cc = np.nonzero(Db)
                        self.declare_partials(of, wrt, rows=rr, cols=cc)
                    else:
                        rr, cc = np.nonzero(Db)
                        self.declare_partials(of, wrt, val=_sparse(fmt, np.ones(rr.size), rr, cc,
                                                                   Db.shape))
            if directional:
                self.set_check_partial_options('*', directional=True)

        def compute(self, inputs, outputs):
            x = np.concatenate([inputs['x%d' % j] for j in range(len(cs))])
            y = Tv.dot(x + curv * x * x)
            for i in range(len(rs)):
                outputs['y%d' % i] = y[ro[i]:ro[i + 1]]

        def compute_partials(self, inputs, partials):
            if const:
                return
            for i in range(len(rs)):
                for j in range(len(cs)):
                    Db = D[ro[i]:ro[i + 1], co[j]:co[j + 1]]
                    if not Db.any():
                        continue
                    Ab = A[ro[i]:ro[i + 1], co[j]:co[j + 1]]
                    of, wrt = 'y%d' % i, 'x%d' % j
                    if fmt == 'dense':
                        partials[of, wrt] = Ab.copy()
                    elif fmt == 'diagonal':
                        partials[of, wrt] = np.diag(Ab).copy()
                    else:
                        rr, cc = np.nonzero(Db)
                        if fmt == 'rowscols':
                            partials[of, wrt] = Ab[rr, cc]
                        else:
                            partials[of, wrt] = _sparse(fmt, Ab[rr, cc], rr, cc, Db.shape)
    return PatComp()


# --------------------------------------------------------------------------- reference

def _tolviol(x, ref, atol, rtol):
    """abs(x - ref) - (atol + rtol * abs(ref)), from the docstring of get_tol_violation."""
    err = np.abs(x - ref)
    return err - (atol + rtol * np.abs(ref)), err


def _num_close(a, b, tol=1e-9, scale=1.0):
    try:
        a = float(a)
        b = float(b)
    except (TypeError, ValueError):
        return False
    if np.isinf(a) or np.isinf(b):
        return a == b
    return abs(a - b) <= tol * max(scale, abs(b), 1e-300)


def _mat_close(a, b, tol=1e-9):
    a = np.asarray(a, dtype=float)
    b = np.asarray(b, dtype=float)
    if a.shape != b.shape:
        return False
    if not b.size:
        return True
    return bool(np.max(np.abs(a - b)) <= tol * max(1.0, float(np.max(np.abs(b)))))


def _get(obj, slot):
    """slot of an _ErrorData/_MagnitudeData or tuple"""
    if hasattr(obj, slot):
        return getattr(obj, slot)
    return obj[{'forward': 0, 'reverse': 1, 'fwd_rev': 2, 'fd': 2}[slot]]


def _check_errors(V, cls, d, k, slot, X, REF, atol, rtol, nsteps):
    """Compare the reported error entries of step k / slot with the definition on (X, REF)."""
    def item(name):
        v = d[name]
        if nsteps > 1 or isinstance(v, list):
            v = v[k]
        return _get(v, slot)
    diff, err = _tolviol(X, REF, atol, rtol)
    if not diff.size:
        return 0.0
    mx = float(diff.max())
    scale = max(1.0, float(np.abs(REF).max()), float(np.abs(X).max()))
    tv = item('tol violation')
    if tv is None or not _num_close(tv, mx, 1e-9, scale):
        V('tol_violation', cls, '%s[%d].%s = %r expected %r' % ('tol violation', k, slot, tv, mx))
    tied = [tuple(ix) for ix in np.argwhere(diff >= mx - 1e-9 * scale)]
    ae = item('abs error')
    if ae is None or not any(_num_close(ae, err[t], 1e-9, scale) for t in tied):
        V('abs_error', cls, 'abs error[%d].%s = %r expected one of %s' % (
            k, slot, ae, [float(err[t]) for t in tied]))
    vm = item('vals_at_max_error')
    ok = False
    try:
        ok = any(_num_close(vm[0], X[t], 1e-9, scale) and _num_close(vm[1], REF[t], 1e-9, scale)
                 for t in tied)
    except Exception:
        ok = False
    if not ok:
        V('vals_at_max_error', cls, 'vals_at_max_error[%d].%s = %r expected one of %s' % (
            k, slot, vm, [(float(X[t]), float(REF[t])) for t in tied]))
    re_ = item('rel error')
    cands = [float(err[t] / abs(REF[t])) for t in tied if REF[t] != 0.0]
    if cands and len(cands) == len(tied):
        if re_ is None or not any(_num_close(re_, cnd, 1e-9, 1e-300) or
                                  abs(float(re_) - cnd) <= 1e-9 for cnd in cands):
            V('rel_error', cls, 'rel error[%d].%s = %r expected one of %s' % (k, slot, re_, cands))
    return float(err.max())


def run_partials(cfg):
    """Run one check_partials call; returns (outcome, nontrivial, violations)."""
    import openmdao.api as om
    r, c = cfg['shape']
    pal = cfg['pal']
    T = _pat(r, c, cfg['T'])
    D = _pat(r, c, cfg['D'])
    fmt = cfg['fmt']
    dcls = cfg.get('dcls', '?')
    akind = cfg.get('akind', 'correct')
    method = cfg.get('method', 'fd')
    nsteps = cfg.get('nsteps', 1)
    atol, rtol = cfg.get('tols', (0.0, 1e-6))
    directional = cfg.get('directional', False)
    printing = cfg.get('print', None)            # None | 'full' | 'compact'
    rs, cs = cfg.get('split', ((r,), (c,)))
    rs, cs = tuple(rs), tuple(cs)
    mfree = cfg.get('mfree', None)               # None | 'ok' | 'fwd_wrong' | 'rev_wrong'
    Tv = _tvals(T, pal)
    # 'curv': a quadratic term makes the forward difference depend on the step, so every entry
    # of a multi-step report can be told apart: y = Tv (x + curv x^2), J = Tv diag(1 + 2 curv x),
    # forward quotient with step h = Tv diag(1 + curv (2 x + h))
    curv = float(cfg.get('curv', 0.0))
    xg = 0.5 + 0.25 * np.arange(c)
    Tlin = Tv
    if curv:
        Tv = Tlin * (1.0 + 2.0 * curv * xg)[None, :]
    A = _analytic(Tv, D, akind, pal)
    # structural class used in signatures; the directional audit does not depend on D
    cls = ('%s+dir' % (fmt if mfree is None else 'mfree')) if directional else \
        ('%s/%s' % (fmt if mfree is None else 'mfree', dcls))
    case = dict(cfg)
    case['kind'] = 'partials1'
    vio = []

    def V(what, cl, msg):
        vio.append({'sig': 'C13:%s:%s' % (what, cl), 'case': case,
                    'msg': '%s T=%s D=%s fmt=%s analytic=%s method=%s steps=%d tols=%s dir=%s '
                           'print=%s split=%s/%s mfree=%s: %s' % (
                               what, T.astype(int).tolist(), D.astype(int).tolist(), fmt, akind,
                               method, nsteps, (atol, rtol), directional, printing, rs, cs, mfree,
                               msg)})

    mf = None
    if mfree is not None:
        Af = Tv.copy()
        Ar = Tv.copy()
        pos = [tuple(x) for x in np.argwhere(T)]
        if mfree == 'fwd_wrong':
            Af[pos[pal % len(pos)]] += 0.5
        elif mfree == 'rev_wrong':
            Ar[pos[-1]] -= 0.75
        mf = (Af, Ar)
    comp = _make_comp(Tlin, A, D, fmt, rs, cs, directional=directional, mfree=mf, curv=curv,
                      const=bool(cfg.get('const')) and not curv)
    p = om.Problem(reports=None)
    p.model.add_subsystem('c', comp)
    steps_used = None
    if method == 'fd':
        step = _FD_STEP if nsteps == 1 else [_FD_STEP, _FD_STEP2]
        kw = {'method': 'fd', 'form': 'forward' if curv else 'central', 'step': step}
        steps_used = [step] if nsteps == 1 else list(step)
    else:
        kw = {'method': 'cs'}
        if nsteps == 2:
            kw['step'] = [1e-40, 1e-30]
    stream = io.StringIO() if printing else None
    np.random.seed(4321)
    try:
        with warnings.catch_warnings(), contextlib.redirect_stdout(io.StringIO()), \
                contextlib.redirect_stderr(io.StringIO()):
            warnings.simplefilter('ignore')
            p.setup(force_alloc_complex=True)
            p.run_model()
            data = p.check_partials(out_stream=stream, compact_print=(printing == 'compact'),
                                    abs_err_tol=atol, rel_err_tol=rtol, **kw)
            for _ in range(int(cfg.get('calls', 1)) - 1):
                # a second identical call must report the same thing (the first one must not have
                # written its approximation into the component's own sub-jacobians)
                if stream is not None:
                    stream.seek(0)
                    stream.truncate()
                data = p.check_partials(out_stream=stream, compact_print=(printing == 'compact'),
                                        abs_err_tol=atol, rel_err_tol=rtol, **kw)
    except Exception as exc:
        import traceback
        loc = traceback.extract_tb(exc.__traceback__)[-1]
        V('raises', ('%s/%s' % (cls, type(exc).__name__)) if directional else
          ('%s/%s@%s' % (cls, type(exc).__name__, loc.name)),
          '%s: %s' % (type(exc).__name__, str(exc)[:300]))
        return 'raises', 0, vio
    data = data.get('c', {})
    ro, co = _blocks(rs, cs)
    nontriv = 0
    tol = 1e-9
    n_unc_total = 0
    for i in range(len(rs)):
        for j in range(len(cs)):
            key = ('y%d' % i, 'x%d' % j)
            sl = (slice(ro[i], ro[i + 1]), slice(co[j], co[j + 1]))
            Tb, Db, Tvb, Ab = T[sl], D[sl], Tv[sl], A[sl]
            declared = bool(Db.any()) or mfree is not None
            d = data.get(key)
            if d is None:
                if Tb.any() or declared:
                    V('pair_missing', cls, 'pair %s not reported' % (key,))
                continue
            Jfd = d.get('J_fd')
            if nsteps == 1 and not isinstance(Jfd, list):
                Jfd_list = [Jfd]
            else:
                Jfd_list = list(Jfd)
            if len(Jfd_list) != nsteps:
                V('J_fd', cls, '%d J_fd entries for %d steps' % (len(Jfd_list), nsteps))
                continue
            # ---- expected matrices
            if mfree is not None:
                expF, expR = mf[0][sl], mf[1][sl]
                expFD = Tvb
                inD = np.ones_like(Tb)
            else:
                inD = Db if fmt != 'dense' else np.ones_like(Db)
                expF = np.where(inD, Ab, 0.0) if declared else None
                expR = None
                expFD = Tvb
            if directional:
                ones = np.ones((Tb.shape[1], 1))
                if mfree is None:
                    expF = expF.dot(ones) if expF is not None else None
                    expFD = Tvb.dot(ones)
                    inD = np.ones((Tb.shape[0], 1), dtype=bool)
            expFDs = [expFD] * nsteps
            if curv and steps_used is not None and not directional:
                expFDs = [(Tlin * (1.0 + curv * (2.0 * xg + h))[None, :])[sl] for h in steps_used]
            # ---- J_fwd / J_rev
            if mfree is not None and directional:
                pass      # random directions: covered by the fwd/rev consistency numbers only
            else:
                if expF is not None:
                    Jf = d.get('J_fwd')
                    if Jf is None or not _mat_close(np.asarray(Jf), expF, tol):
                        V('J_fwd', cls, 'pair %s J_fwd=%s expected %s' % (
                            key, None if Jf is None else np.asarray(Jf).tolist(), expF.tolist()))
                        continue
                elif d.get('J_fwd') is not None and np.any(np.asarray(d.get('J_fwd')) != 0):
                    V('J_fwd', cls, 'undeclared pair %s reports J_fwd=%s' % (
                        key, np.asarray(d.get('J_fwd')).tolist()))
                if expR is not None:
                    Jr = d.get('J_rev')
                    if Jr is None or not _mat_close(np.asarray(Jr), expR, tol):
                        V('J_rev', cls, 'pair %s J_rev=%s expected %s' % (
                            key, None if Jr is None else np.asarray(Jr).tolist(), expR.tolist()))
                        continue
            if mfree is not None and directional:
                continue
            # ---- J_fd
            bad_fd = False
            fds = []
            for k, Jk in enumerate(Jfd_list):
                Jk = np.asarray(Jk, dtype=float)
                expFD = expFDs[k]
                if Jk.shape != expFD.shape:
                    V('J_fd', cls, 'pair %s J_fd[%d] shape %s expected %s' % (key, k, Jk.shape,
                                                                               expFD.shape))
                    bad_fd = True
                    break
                okin = np.abs(Jk - expFD) <= tol * max(1.0, np.abs(expFD).max())
                okout = okin | (Jk == 0.0)
                if not np.all(np.where(inD, okin, okout)):
                    V('J_fd', cls, 'pair %s J_fd[%d]=%s expected %s (inside D; 0 or the value '
                      'outside)' % (key, k, Jk.tolist(), expFD.tolist()))
                    bad_fd = True
                    break
                fds.append(Jk)
            if bad_fd:
                continue
            # ---- errors / magnitudes, from the definition, on the reference matrices.  Outside D
            # the reported J_fd may be 0 or the value: use the reported J_fd there.
            maxerr = 0.0
            for k, Jk in enumerate(fds):
                expFD = expFDs[k]
                REF = np.where(inD, expFD, Jk)
                if expF is not None:
                    maxerr = max(maxerr, _check_errors(V, cls, d, k, 'forward', expF, REF, atol,
                                                       rtol, nsteps))
                if expR is not None:
                    maxerr = max(maxerr, _check_errors(V, cls, d, k, 'reverse', expR, REF, atol,
                                                       rtol, nsteps))
                    if k == 0:
                        maxerr = max(maxerr, _check_errors(V, cls, d, k, 'fwd_rev', expF, expR,
                                                           atol, rtol, nsteps))
                mg = d.get('magnitude')
                if nsteps > 1 or isinstance(mg, list):
                    mg = mg[k]
                wantfd = float(np.abs(np.where(inD, expFDs[k], Jk)).max())
                want = (float(np.abs(expF).max()) if expF is not None else 0.0,
                        float(np.abs(expR).max()) if expR is not None else 0.0, wantfd)
                try:
                    got = (float(_get(mg, 'forward')), float(_get(mg, 'reverse')),
                           float(_get(mg, 'fd')))
                    okm = all(_num_close(g, w, 1e-9, 1.0) for g, w in zip(got, want))
                except Exception:
                    got, okm = mg, False
                if not okm:
                    V('magnitude', cls, 'pair %s magnitude[%d]=%r expected %r' % (key, k, got, want))
            if maxerr > 0:
                nontriv = 1
            # ---- uncovered_nz
            if mfree is None and declared and not directional and fmt != 'dense':
                want = sorted((int(a), int(b)) for a, b in np.argwhere(Tb & ~Db))
                got = sorted((int(a), int(b)) for a, b in d.get('uncovered_nz', []) or [])
                n_unc_total += len(want)
                if got != want:
                    ncol = len(set(b for _, b in want))
                    kindv = 'dup' if len(set(got)) != len(got) else (
                        'missing' if set(got) < set(want) else (
                            'extra' if set(got) > set(want) else 'wrong'))
                    V('uncovered_nz', '%s/%s/%s' % (fmt, kindv, '1col' if ncol == 1 else 'multicol'),
                      'pair %s uncovered_nz=%s expected %s (T minus D)' % (key, got, want))
                elif want:
                    nontriv = 1
                    thr = d.get('uncovered_threshold')
                    if thr is None or not (0 < float(thr) < 0.25):
                        V('uncovered_threshold', cls, 'uncovered_threshold=%r' % (thr,))
    if printing == 'full' and mfree is None and not directional and fmt != 'dense' and not vio:
        txt = stream.getvalue()
        counts = [int(x) for x in re.findall(r'Sparsity excludes (\d+) entries', txt)]
        if sum(counts) != n_unc_total:
            V('text_uncovered_count', cls, 'report text says "Sparsity excludes" %s entries, '
              'expected a total of %d' % (counts, n_unc_total))
    if vio:
        return 'violation', 0, vio
    oc = '%s:%s:%s' % (cls, akind if mfree is None else mfree, method)
    return oc, nontriv, vio


# --------------------------------------------------------------------------- check_totals

def run_totals(cfg):
    import openmdao.api as om
    m = cfg['model']
    pal = cfg['pal']
    mode = cfg['mode']
    method = cfg['method']
    wrong = cfg['wrong']
    nsteps = cfg.get('nsteps', 1)
    atol, rtol = cfg.get('tols', (0.0, 1e-6))
    case = dict(cfg)
    case['kind'] = 'totals1'
    vio = []
    cls = 'm%d/%s/%s' % (m, mode, method)

    def V(what, cl, msg):
        vio.append({'sig': 'C13:totals_%s:%s' % (what, cl), 'case': case,
                    'msg': 'check_totals %s model=%d mode=%s method=%s wrong=%s steps=%d: %s' % (
                        what, m, mode, method, wrong, nsteps, msg)})

    T1 = _tvals(_pat(3, 3, 0b110101111), pal)
    T2 = _tvals(_pat(2, 3, 0b101110), pal + 1)
    T3 = _tvals(_pat(3, 2, 0b011011), pal + 2)
    A1 = T1.copy()
    if wrong:
        A1[1, 0] += 0.5

    def lin(Tv, A):
        return _make_comp(Tv, A, np.ones_like(Tv, dtype=bool), 'dense', (Tv.shape[0],),
                          (Tv.shape[1],))
    p = om.Problem(reports=None)
    if m == 0:
        p.model.add_subsystem('a', lin(T1, A1))
        of, wrt = ['a.y0'], ['a.x0']
        true = {('a.y0', 'a.x0'): T1}
        ana = {('a.y0', 'a.x0'): A1}
    elif m == 1:
        p.model.add_subsystem('a', lin(T1, A1))
        p.model.add_subsystem('b', lin(T2, T2))
        p.model.connect('a.y0', 'b.x0')
        of, wrt = ['b.y0', 'a.y0'], ['a.x0']
        true = {('b.y0', 'a.x0'): T2.dot(T1), ('a.y0', 'a.x0'): T1}
        ana = {('b.y0', 'a.x0'): T2.dot(A1), ('a.y0', 'a.x0'): A1}
    else:
        p.model.add_subsystem('a', lin(T1, A1))
        p.model.add_subsystem('d', lin(T3, T3))
        p.model.add_subsystem('s', om.ExecComp('z = 2.0*u + 0.5*v', z=np.zeros(3), u=np.zeros(3),
                                               v=np.zeros(3)))
        p.model.connect('a.y0', 's.u')
        p.model.connect('d.y0', 's.v')
        of, wrt = ['s.z'], ['a.x0', 'd.x0']
        true = {('s.z', 'a.x0'): 2.0 * T1, ('s.z', 'd.x0'): 0.5 * T3}
        ana = {('s.z', 'a.x0'): 2.0 * A1, ('s.z', 'd.x0'): 0.5 * T3}
    if method == 'fd':
        kw = {'method': 'fd', 'form': 'central',
              'step': _FD_STEP if nsteps == 1 else [_FD_STEP, _FD_STEP2]}
    else:
        kw = {'method': 'cs'}
        if nsteps == 2:
            kw['step'] = [1e-40, 1e-30]
    try:
        with warnings.catch_warnings(), contextlib.redirect_stdout(io.StringIO()), \
                contextlib.redirect_stderr(io.StringIO()):
            warnings.simplefilter('ignore')
            p.setup(mode=mode, force_alloc_complex=True)
            p.run_model()
            data = p.check_totals(of=of, wrt=wrt, out_stream=None, abs_err_tol=atol,
                                  rel_err_tol=rtol, **kw)
    except Exception as exc:
        V('raises', cls + '/' + type(exc).__name__, '%s: %s' % (type(exc).__name__, str(exc)[:300]))
        return 'raises', 0, vio
    slot = 'forward' if mode == 'fwd' else 'reverse'
    jkey = 'J_fwd' if mode == 'fwd' else 'J_rev'
    nontriv = 0
    for key, Tt in true.items():
        d = data.get(key)
        if d is None:
            V('pair_missing', cls, 'pair %s not reported (keys %s)' % (key, list(data)))
            continue
        Ja = d.get(jkey)
        if Ja is None or not _mat_close(np.asarray(Ja), ana[key], 1e-9):
            V(jkey, cls, 'pair %s %s=%s expected %s' % (
                key, jkey, None if Ja is None else np.asarray(Ja).tolist(), ana[key].tolist()))
            continue
        Jfd = d.get('J_fd')
        Jfd_list = [Jfd] if (nsteps == 1 and not isinstance(Jfd, list)) else list(Jfd)
        if len(Jfd_list) != nsteps:
            V('J_fd', cls, '%d J_fd entries for %d steps' % (len(Jfd_list), nsteps))
            continue
        bad = False
        for k, Jk in enumerate(Jfd_list):
            if not _mat_close(np.asarray(Jk), Tt, 1e-9):
                V('J_fd', cls, 'pair %s J_fd[%d]=%s expected %s' % (key, k, np.asarray(Jk).tolist(),
                                                                     Tt.tolist()))
                bad = True
        if bad:
            continue
        for k in range(nsteps):
            e = _check_errors(V, cls, d, k, slot, ana[key], Tt, atol, rtol, nsteps)
            if e > 0:
                nontriv = 1
            mg = d.get('magnitude')
            if nsteps > 1 or isinstance(mg, list):
                mg = mg[k]
            want = {slot: float(np.abs(ana[key]).max()), 'fd': float(np.abs(Tt).max())}
            try:
                okm = all(_num_close(float(_get(mg, s)), w, 1e-9, 1.0) for s, w in want.items())
            except Exception:
                okm = False
            if not okm:
                V('magnitude', cls, 'pair %s magnitude[%d]=%r expected %r' % (key, k, mg, want))
    if vio:
        return 'violation', 0, vio
    return 'totals:%s:%s' % (cls, 'wrong' if wrong else 'correct'), nontriv, vio


# --------------------------------------------------------------------------- driver

def _fmts_for(D):
    f = list(_FMTS)
    if D.all():
        f.append('dense')
    return f


def _one_T(kind, shape, tb, pal, tier, add):
    r, c = shape
    T = _pat(r, c, tb)
    base = {'shape': shape, 'T': tb, 'pal': pal}
    case = {'T': tb}
    if kind == 'base':
        for dcls, D in _d_variants(T):
            for fmt in _fmts_for(D):
                cfg = dict(base, D=_bits(D), dcls=dcls, fmt=fmt)
                add(run_partials(cfg))
    elif kind == 'diag':
        D = np.eye(r, dtype=bool)
        dcls = 'eq' if np.array_equal(T, D) else ('super' if not (T & ~D).any() else 'under')
        for akind in ('correct', 'wrong1'):
            for method in ('fd', 'cs'):
                add(run_partials(dict(base, D=_bits(D), dcls=dcls, fmt='diagonal', akind=akind,
                                      method=method)))
    elif kind == 'dev':
        nz = [tuple(x) for x in np.argwhere(T)]
        Ds = [('eq', T.copy())]
        if len(nz) > 1:
            D1 = T.copy()
            D1[nz[(pal + case['T']) % len(nz)]] = False
            Ds.append(('under1', D1))
        if len(nz) > 2:
            D2 = T.copy()
            D2[nz[0]] = False
            D2[nz[-1]] = False
            Ds.append(('under2', D2))
        if not T.all():
            Ds.append(('full', np.ones_like(T)))
        akinds = ('wrong1', 'wrong1_neg', 'wrong1_tiny', 'wrong1_last', 'factor', 'sign')
        splits = [((r,), (c,)), ((r,), (1, c - 1)), ((1, r - 1), (c - 1, 1))]
        for dcls, D in Ds:
            fmts = _fmts_for(D)
            b0 = dict(base, D=_bits(D), dcls=dcls)
            for fmt in fmts:
                # one-dimension deviations from the base configuration
                for ak in akinds:
                    add(run_partials(dict(b0, fmt=fmt, akind=ak)))
                add(run_partials(dict(b0, fmt=fmt, method='cs')))
                add(run_partials(dict(b0, fmt=fmt, nsteps=2)))
                # step-dependent forward differences (quadratic term): one and two steps
                add(run_partials(dict(b0, fmt=fmt, curv=0.5)))
                add(run_partials(dict(b0, fmt=fmt, curv=0.5, nsteps=2)))
                add(run_partials(dict(b0, fmt=fmt, curv=0.5, nsteps=2, akind='wrong1')))
                add(run_partials(dict(b0, fmt=fmt, calls=2)))
                add(run_partials(dict(b0, fmt=fmt, calls=2, akind='wrong1')))
                add(run_partials(dict(b0, fmt=fmt, calls=2, akind='factor', method='cs')))
                add(run_partials(dict(b0, fmt=fmt, const=True)))
                add(run_partials(dict(b0, fmt=fmt, const=True, calls=2, akind='wrong1')))
                add(run_partials(dict(b0, fmt=fmt, const=True, calls=2, akind='sign', method='cs')))
                add(run_partials(dict(b0, fmt=fmt, tols=(2.0 ** -6, 0.125))))
                add(run_partials(dict(b0, fmt=fmt, directional=True)))
                add(run_partials(dict(b0, fmt=fmt, print='full')))
                add(run_partials(dict(b0, fmt=fmt, print='compact')))
                for sp in splits[1:]:
                    add(run_partials(dict(b0, fmt=fmt, split=sp)))
                # two-dimension deviations
                add(run_partials(dict(b0, fmt=fmt, akind='wrong1', method='cs')))
                add(run_partials(dict(b0, fmt=fmt, akind='wrong1', nsteps=2)))
                add(run_partials(dict(b0, fmt=fmt, akind='factor', tols=(2.0 ** -6, 0.125))))
                add(run_partials(dict(b0, fmt=fmt, akind='wrong1', directional=True)))
                add(run_partials(dict(b0, fmt=fmt, akind='wrong1_last', split=splits[1])))
                add(run_partials(dict(b0, fmt=fmt, method='cs', nsteps=2)))
                add(run_partials(dict(b0, fmt=fmt, akind='wrong1', print='full')))
                if tier == 'thorough':
                    add(run_partials(dict(b0, fmt=fmt, akind='sign', split=splits[2],
                                          method='cs')))
                    add(run_partials(dict(b0, fmt=fmt, akind='wrong1_neg', split=splits[2],
                                          nsteps=2)))
                    add(run_partials(dict(b0, fmt=fmt, method='cs', print='full',
                                          split=splits[1])))
        # matrix-free components (J_fwd, J_rev and their mutual error)
        for mfk in ('ok', 'fwd_wrong', 'rev_wrong'):
            for method in ('fd', 'cs'):
                add(run_partials(dict(base, D=case['T'], dcls='eq', fmt='dense', mfree=mfk,
                                      method=method)))
            add(run_partials(dict(base, D=case['T'], dcls='eq', fmt='dense', mfree=mfk,
                                  split=splits[1], nsteps=2)))
        add(run_partials(dict(base, D=case['T'], dcls='eq', fmt='dense', mfree='ok',
                              directional=True)))


def check_case(case):
    kind = case['kind']
    if kind == 'partials1':
        oc, nt, vio = run_partials(case)
        return {'evals': 1, 'nontrivial': nt, 'outcome': oc, 'violations': vio}
    if kind == 'totals1':
        oc, nt, vio = run_totals(case)
        return {'evals': 1, 'nontrivial': nt, 'outcome': oc, 'violations': vio}

    outcomes = collections.Counter()
    seen = collections.Counter()
    evals = nontriv = 0
    vios = []

    def add(res):
        nonlocal evals, nontriv
        oc, nt, vio = res
        evals += 1
        nontriv += nt
        outcomes[oc] += 1
        for v in vio:
            seen[v['sig']] += 1
            if seen[v['sig']] <= 2:
                vios.append(v)

    pal = case['pal']
    if kind in ('base', 'dev', 'diag'):
        shape = tuple(case['shape'])
        r, c = shape
        for tb in case['Ts']:
            _one_T(kind, shape, tb, pal, case.get('tier', 'quick'), add)
        sample = dict(case, n=evals)
    elif kind == 'totals':
        for mode in ('fwd', 'rev'):
            for method in ('fd', 'cs'):
                for wrong in (False, True):
                    for nsteps in (1, 2):
                        for tols in ((0.0, 1e-6), (2.0 ** -6, 0.125)):
                            add(run_totals({'model': case['model'], 'pal': pal, 'mode': mode,
                                            'method': method, 'wrong': wrong, 'nsteps': nsteps,
                                            'tols': tols}))
        sample = dict(case, n=evals)
    else:
        raise ValueError(kind)
    return {'evals': evals, 'nontrivial': nontriv, 'outcome': dict(outcomes), 'violations': vios,
            'sample': sample}
