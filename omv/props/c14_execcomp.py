"""C14 - ExecComp evaluates its expressions and their exact partials (DESIGN.md section 4, C14).

Complete enumeration of expression trees over ExecComp's function table x variable shapes x option
sets; oracle = the harness' own NumPy interpreter and forward-mode AD over the tree
(omv/lib_exprtree.py: every primitive carries f and f', nothing is shared with ExecComp, which uses
complex step).  Well-definedness of a tree at a point (safe domains, shape compatibility) and the
admissibility of an option for a tree (has_diag_partials needs diagonal array/array partials ...) are
decided by the reference model, never by "ExecComp raised".
"""
import collections
import contextlib
import io
import itertools
import os

import numpy as np

from omv import lib_exprtree as L

ID = 'C14'
LEVEL = 'exploration'
TECHNIQUE = ('bounded exhaustive enumeration of expression trees x variable shapes x ExecComp options '
             'against an independent tree interpreter with forward-mode AD')
RULE = ('every expression tree with <= 2 operator nodes (quick; <= 3 over class representatives in '
        'thorough) over ExecComp\'s function table (all elementwise unary functions and their aliases, '
        '+ - * / **, arctan2 power maximum minimum fmax fmin, dot inner outer matmul kron tensordot, '
        'sum prod max min diff, .T, indexing, named constants, literals) x shapes {(1,) default, (), '
        '(3,), (2,2) [, (2,3)]} of 1-2 inputs x option sets within Hamming distance 1 (+ selected '
        'pairs) of the default {has_diag_partials, do_coloring off, declare_coloring cs, '
        'declare_partials cs, shape_by_conn (component / per variable + copy_shape), units (component '
        '/ per variable with offset), shape declaration form, rev mode, explicit IVC} and all pairs of '
        'a 1-operator tree list as two-expression components; each admissible (tree, shapes, option) '
        'is built once and run at two palette points; non-trivial = the reference Jacobian has >= 2 '
        'entries that are not all equal')
LEVEL_TEXT = ('Small-scope exhaustiveness: every tree of the bounded grammar is compiled into a real '
              'ExecComp for every shape/option combination in the bound and outputs and total '
              'derivatives (= the component partials times the unit factor) are compared with an '
              'independent interpreter + AD.  Bookkeeping defects of ExecComp (scalar/array handling, '
              'diagonal declaration, colored column recovery, view dictionaries) are combinations of '
              'tree class, shape class and option, all of which occur inside the bound.')
LEVEL_NOTE = ('Trusted: NumPy, math.erf, the tree interpreter/AD (self-tested against central '
              'differences in every run), OpenMDAO\'s linear solve of the one-component model '
              '(compute_totals is the observation channel).  Values are probes from fixed generic '
              'dyadic palettes, at least 0.25 away from kinks and singularities.')
ASSUMPTIONS = [
    'an expression is "well-defined" at a point iff every node argument lies in the safe domain of '
    'its primitive (>= 0.25 from kinks/poles/branch cuts, |value| <= 1e4); trees with no safe palette '
    'point are not executed (counted as no_safe_point)',
    'has_diag_partials=True is only demanded where it is a true statement: all array/array partials '
    'diagonal (elementwise tree over one common shape, or a size-1 output) and all arrays of equal '
    'size; declare_partials/declare_coloring are not combined with it (documented rejection)',
    'shape_by_conn at component level is only demanded when every output shape can be obtained from '
    'a downstream connection (a sink component is attached)',
    'method=fd declarations are not exact and are left out; isinf/isnan/array-creation functions are '
    'not differentiable building blocks and are left out',
    'tolerance 1e-11 (1e-10 with the non-dyadic unit conversions) relative to max(1, |block|max): '
    'complex step is exact to round-off; calibrated on the whole quick tier, where the largest '
    'deviation without unit conversion is below 1e-12',
    'the sparsity used by a coloring is measured numerically by OpenMDAO at the first point; a '
    'second point is only demanded where the exact Jacobian has the same nonzero pattern '
    '(maximum/minimum/max/min select different entries at different points - documented limitation '
    'of dynamic coloring, reported as an observation, not as a violation)',
    'zero_first: the first linearization happens with every input exactly 0.0 and the second point '
    'is demanded regardless of the value-dependent pattern at zero, except for expressions with '
    'selection functions and for entries that are below 1e-21 when all inputs are 2.5e-10 '
    '(not resolvable with the documented perturb_size=1e-9 / tol=1e-25 of the sparsity measurement)',
    '.T is only used on operands with ndim >= 2 (0-d ExecComp variables are passed to the '
    'expression as Python scalars, which have no .T; attribute access is outside the function table)',
]
MIN_NONTRIVIAL = {'quick': 18000, 'thorough': 150000}
CAP_S = {'thorough': 1500}

TOL = float(os.environ.get('OMV_C14_TOL', '1.0e-11'))

X, A, K = ('v', 'x'), ('v', 'a'), ('k', 'k')
N2, NH, N3, NM = ('n', 2.0), ('n', 0.5), ('n', 3), ('n', -1.5)

U_ALL = sorted(n for n in L.UNARY if n != 'square')
U_CORE = [n for n in U_ALL if n not in L.ALIASES]
U_REP = ['sin', 'exp', 'abs', 'neg', 'log', 'arccos', 'tanh']
ELEM2 = [('b', o) for o in L.BINOPS] + [('f2', f) for f in L.F2_ELEM]
ELEM2_REP = [('b', '*'), ('b', '-'), ('b', '/'), ('b', '**'), ('f2', 'arctan2'), ('f2', 'maximum')]
BIL = [('f2', f) for f in L.F2_BILINEAR]
BIL_REP = [('f2', 'dot'), ('f2', 'outer'), ('f2', 'matmul')]
RED = ['sum', 'prod', 'max', 'min', 'diff', 'T']
RED_REP = ['sum', 'prod', 'T']
IDX = [1, -1, slice(None, None, -1), slice(0, 2), slice(None, None, 2), [2, 0], (0, 1),
       (slice(None), 0), (1, slice(None, None, -1)), (slice(None), slice(None, None, -1))]
IDX_REP = [1, slice(None, None, -1), (slice(None), 0)]


def _unary_like(t, us, rs, ixs):
    for u in us:
        yield ('u', u, t)
    for r in rs:
        yield ('r', r, t)
    for s in ixs:
        yield ('i', s, t)


def _bin(op, p, q):
    return (op[0], op[1], p, q)


def one_op_trees():
    out = list(_unary_like(X, U_ALL, RED, IDX))
    for op in ELEM2 + BIL:
        for p, q in ((X, A), (A, X), (X, X), (X, K), (K, X), (X, N2), (N2, X)):
            if op in BIL and (p == N2 or q == N2) and op[1] not in ('dot', 'inner', 'outer', 'kron'):
                continue
            out.append(_bin(op, p, q))
    out.append(_bin(('b', '**'), X, N3))
    out.append(_bin(('b', '**'), X, NM))
    out.append(_bin(('b', '*'), X, NM))
    out.append(_bin(('b', '**'), X, NH))
    return out


def two_op_trees(full):
    us, rs, ixs = (U_CORE, RED, IDX) if full else (U_CORE, RED_REP, IDX_REP)
    inner = one_op_trees()
    out = []
    for t in inner:
        out.extend(_unary_like(t, us, rs, ixs))
    ops = (ELEM2 + BIL) if full else (ELEM2_REP + BIL_REP)
    inner2 = list(_unary_like(X, U_CORE if full else U_REP, rs, ixs))
    inner2 += [_bin(op, X, A) for op in ops] + [_bin(op, A, X) for op in ops if op[1] in
                                                   ('-', '/', '**', 'arctan2', 'outer', 'matmul')]
    for op in ops:
        for t in inner2:
            for leaf in (X, A, N2):
                if leaf == N2 and op in BIL:
                    continue
                out.append(_bin(op, t, leaf))
                out.append(_bin(op, leaf, t))
    return out


def three_op_trees():
    """class representatives only (thorough)"""
    out = []
    two = []
    one = list(_unary_like(X, U_REP, RED_REP, IDX_REP)) + \
        [_bin(op, X, A) for op in ELEM2_REP + BIL_REP]
    for t in one:
        two.extend(_unary_like(t, U_REP, RED_REP, IDX_REP))
    for op in ELEM2_REP + BIL_REP:
        for t in one:
            two.append(_bin(op, t, A))
            two.append(_bin(op, X, t))
    for t in two:
        out.extend(_unary_like(t, U_REP[:4], RED_REP[:2], IDX_REP[:2]))
    for op in ELEM2_REP[:4] + BIL_REP[:2]:
        for t in two:
            out.append(_bin(op, t, X))
            out.append(_bin(op, A, t))
    # u(x) op u'(a): both operands transformed
    for op in ELEM2_REP + BIL_REP:
        for u1 in U_REP:
            for u2 in U_REP:
                out.append(_bin(op, ('u', u1, X), ('u', u2, A)))
    return out


PAIR_LIST = [('u', 'sin', X), ('u', 'abs', X), ('b', '*', X, A), ('b', '/', A, X), ('b', '**', X, N2),
             ('r', 'sum', X), ('r', 'prod', A), ('i', 1, X), ('i', slice(None, None, -1), X),
             ('f2', 'dot', X, A), ('f2', 'outer', X, A), ('f2', 'arctan2', X, A),
             ('r', 'sum', ('b', '*', X, A)), ('b', '*', X, ('r', 'sum', A)),
             ('b', '+', ('i', slice(None, None, -1), X), A), ('b', '*', X, K), ('r', 'T', X),
             ('f2', 'matmul', X, A), ('r', 'diff', X), ('u', 'exp', A)]

SHAPES_Q = [(1,), (3,), (2, 2), ()]
SHAPES_T = [(1,), (3,), (2, 2), (), (2, 3)]
SHAPES_MAIN = [(1,), (3,), (2, 2)]

OPTS_SINGLE = [{}, {'resetup': 'noderiv_first'}, {'resetup': 'noderiv_first', 'diag': True},
               {'zero_first': True}, {'zero_first': True, 'mode': 'rev'}, {'color': 'off'}, {'color': 'declared'}, {'color': 'partials_cs'}, {'diag': True},
               {'sbc': 'comp'}, {'sbc': 'var'}, {'units': 'comp'}, {'units': 'var'},
               {'decl': 'shape'}, {'decl': 'compshape'}, {'mode': 'rev'}, {'ivc': True}]
OPTS_PAIRS = [{'diag': True, 'sbc': 'var'}, {'diag': True, 'units': 'comp'},
              {'diag': True, 'decl': 'compshape'}, {'diag': True, 'color': 'off'},
              {'diag': True, 'mode': 'rev'}, {'color': 'declared', 'mode': 'rev'},
              {'color': 'off', 'mode': 'rev'}, {'sbc': 'comp', 'units': 'comp'},
              {'color': 'declared', 'sbc': 'var'}, {'color': 'declared', 'units': 'var'},
              {'diag': True, 'decl': 'shape'}, {'sbc': 'comp', 'mode': 'rev'},
              {'color': 'declared', 'decl': 'shape'}, {'color': 'partials_cs', 'decl': 'shape'}]
OPTS_TWO_EXPR = [{}, {'zero_first': True}, {'color': 'off'}, {'color': 'declared'}, {'diag': True}, {'mode': 'rev'},
                 {'sbc': 'var'}, {'units': 'comp'}]


COMBOS_Q2 = [((3,), (3,)), ((2, 2), (2, 2)), ((3,), (1,)), ((1,), (3,)), ((2, 2), (3,)), ((1,), (1,)),
             ((3,), (2, 2))]


COMBOS_T2 = COMBOS_Q2 + [((2, 3), (3,)), ((2, 3), (2, 3)), ((), (3,)), ((3,), ()), ((), ()),
                         ((2, 3), (3, 2))]


def _shape_combos(tree_list, shapes):
    """all assignments of shapes to the variables (and the named constant) of the trees; `shapes`
    is a list of shapes (full product) or a list of explicit 2-variable combinations"""
    names = []
    for t in tree_list:
        for n in L.variables(t):
            if n not in names:
                names.append(n)
    names.sort(key=lambda n: 0 if n == 'x' else 1)
    has_k = any(L.variables(t, 'k') for t in tree_list)
    if shapes and isinstance(shapes[0], tuple) and shapes[0] and isinstance(shapes[0][0], tuple):
        if len(names) == 1:
            combos = []
            for c in shapes:
                if (c[0],) not in combos:
                    combos.append((c[0],))
        else:
            combos = list(shapes)
    else:
        combos = list(itertools.product(shapes, repeat=len(names)))
    for combo in combos:
        shp = dict(zip(names, combo))
        if has_k:
            kshapes = [combo[0]] if combo[0] == (1,) else [combo[0], (1,)]
            for ks in kshapes:
                yield shp, ks
        else:
            yield shp, None


def _specs(trees_lists, shapes, opts):
    for tl in trees_lists:
        for shp, ks in _shape_combos(tl, shapes):
            for opt in opts:
                yield {'exprs': list(tl), 'shapes': shp, 'kshape': ks, 'opt': opt}


def cases(tier, seed):
    """list of batches of specs (a batch is just a chunk of work; every spec is replayable alone)"""
    rot = seed % 4
    specs = []
    _selftest_oracle()      # guards the reference model itself (f versus f'), once per run
    one = one_op_trees()
    if tier == 'quick':
        specs.extend(_specs([[t] for t in one], SHAPES_Q, OPTS_SINGLE + OPTS_PAIRS))
        two = two_op_trees(False)
        specs.extend(_specs([[t] for t in two], COMBOS_Q2, [{}]))
        specs.extend(_specs([[t] for t in two[::23]], COMBOS_Q2, OPTS_SINGLE[1:]))
        pairs = [[p, q] for p in PAIR_LIST[:12] for q in PAIR_LIST[:12]]
        specs.extend(_specs(pairs, [(3,), (2, 2)], OPTS_TWO_EXPR[:5]))
    else:
        specs.extend(_specs([[t] for t in one], SHAPES_T, OPTS_SINGLE + OPTS_PAIRS))
        two = two_op_trees(True)
        specs.extend(_specs([[t] for t in two], COMBOS_T2, [{}]))
        specs.extend(_specs([[t] for t in two[::9]], COMBOS_Q2, OPTS_SINGLE[1:] + OPTS_PAIRS[:6]))
        specs.extend(_specs([[t] for t in three_op_trees()], COMBOS_Q2[:4],
                            [{}, {'color': 'declared'}]))
        pairs = [[p, q] for p in PAIR_LIST for q in PAIR_LIST]
        specs.extend(_specs(pairs, [(3,), (2, 2), (1,)], OPTS_TWO_EXPR))
    for s in specs:
        s['rot'] = rot
    n = 150
    return [{'kind': 'batch', 'specs': specs[i:i + n]} for i in range(0, len(specs), n)]


# ------------------------------------------------------------------ reference side

def _kvalue(kshape, rot):
    return L.family_values('posB', 4, kshape, rot + 3)


_SELECT = ('maximum', 'minimum', 'fmax', 'fmin', 'max', 'min', 'abs')


def _has_selection(t):
    if isinstance(t, str):
        return t in _SELECT
    if isinstance(t, (tuple, list)):
        return any(_has_selection(x) for x in t)
    return False


def reference(spec):
    """returns dict(status=..., points=[(label, env, [val per expr], [jac per expr])], ...)"""
    exprs, shapes, rot = spec['exprs'], spec['shapes'], spec.get('rot', 0)
    names = list(shapes)
    consts = {}
    if spec.get('kshape') is not None:
        consts['k'] = _kvalue(tuple(spec['kshape']), rot)
    pts = []
    zero_first = bool(spec.get('opt', {}).get('zero_first'))
    selects = any(_has_selection(t) for t in exprs)
    if zero_first:
        # first linearization with every input exactly 0.0: the sparsity OpenMDAO measures there
        # (on randomly perturbed inputs) must still be the structural one, so the second point is
        # demanded whatever the value-dependent pattern at zero is
        env0 = {n: np.zeros(tuple(shapes[n])) for n in names}
        full = dict(consts)
        full.update(env0)
        try:
            res = [L.jacobian(t, full, names) for t in exprs]
        except L.Unsafe:
            return {'status': 'no_safe_point'}
        except L.Inadmissible:
            return {'status': 'inadmissible'}
        if selects:
            return {'status': 'no_safe_point'}
        # OpenMDAO measures sparsity on inputs perturbed by perturb_size (1e-9) with tolerance 1e-25
        # (documented coloring defaults): an entry whose magnitude at that scale is below the
        # tolerance (a product of >= 3 vanishing factors) cannot be resolved by design
        envp = {n: np.full(tuple(shapes[n]), 2.5e-10) for n in names}
        fullp = dict(consts)
        fullp.update(envp)
        try:
            resp = [L.jacobian(t, fullp, names) for t in exprs]
        except (L.Unsafe, L.Inadmissible):
            return {'status': 'no_safe_point'}
        zero_probe = resp
        pts.append(('zeros', env0, [r[0] for r in res], [r[1] for r in res]))
    for label, env in L.palette_points(names, {n: tuple(s) for n, s in shapes.items()}, rot):
        full = dict(consts)
        full.update(env)
        try:
            res = [L.jacobian(t, full, names) for t in exprs]
        except L.Unsafe:
            continue
        except L.Inadmissible:
            return {'status': 'inadmissible'}
        if pts:
            # the sparsity used by a coloring is determined numerically at the first point: a second
            # point is only demanded if the exact Jacobian has the same nonzero pattern there
            # (max/min/maximum/... select different entries at different points)
            def _nz(J):
                # entries that cancel to round-off (1/(x a) - 1/(x a)) are structural zeros for
                # a numerical sparsity measurement
                J = np.abs(np.asarray(J, dtype=float))
                return J > 1e-10 * max(1.0, float(J.max(initial=0.0)))
            same = all(np.array_equal(_nz(r[1][n]), _nz(q[n]))
                       for r, q in zip(res, pts[0][3]) for n in names)
            if not same and not zero_first:
                continue
            if zero_first and any(np.any((r[1][n] != 0) & (np.abs(q[1][n]) < 1e-21))
                                  for r, q in zip(res, zero_probe) for n in names):
                return {'status': 'no_safe_point'}
        pts.append((label, env, [r[0] for r in res], [r[1] for r in res]))
        if len(pts) >= 2:
            break
    if not pts:
        return {'status': 'no_safe_point'}
    return {'status': 'ok', 'points': pts, 'consts': consts, 'names': names,
            'outshapes': [tuple(np.shape(v)) for v in pts[0][2]]}


def _size(shape):
    return int(np.prod(shape, dtype=int))


def option_admissible(spec, ref):
    """None if the option set is a valid request for these trees/shapes (decided by the reference),
    else the reason it is left out"""
    opt = spec['opt']
    shapes = {n: tuple(s) for n, s in spec['shapes'].items()}
    names = ref['names']
    outshapes = ref['outshapes']
    env = dict(ref['consts'])
    env.update(ref['points'][0][1])
    if opt.get('diag'):
        if opt.get('color') in ('declared', 'partials_cs'):
            return 'diag_with_manual_declaration'
        arr_sizes = set(_size(s) for s in list(shapes.values()) + outshapes if _size(s) > 1)
        if len(arr_sizes) > 1:
            return 'diag_needs_equal_sizes'
        for t, osh in zip(spec['exprs'], outshapes):
            if _size(osh) > 1 and not L.is_elementwise(t, env):
                return 'diag_not_diagonal'
            if _size(osh) > 1 and tuple(osh) not in [s for s in shapes.values() if _size(s) > 1]:
                return 'diag_not_diagonal'
    if opt.get('decl') == 'compshape':
        allshapes = set(list(shapes.values()) + outshapes)
        if len(allshapes) != 1 or opt.get('sbc'):
            return 'compshape_needs_one_shape'
    if opt.get('sbc') and opt.get('decl'):
        return 'sbc_with_decl'
    if opt.get('sbc') == 'var':
        if _size(shapes[names[0]]) == 1 and shapes[names[0]] == (1,):
            return 'sbc_var_trivial'
    for t in spec['exprs']:
        if not L.variables(t):
            return 'no_inputs'
    return None


# ------------------------------------------------------------------ implementation side

_OM = None


def init_worker():
    global _OM
    import warnings
    import openmdao.api as om
    warnings.simplefilter('ignore')     # OpenMDAO re-enables its own warning categories on import
    _OM = om


def _scls(shape):
    shape = tuple(shape)
    if shape == ():
        return '0'
    if shape == (1,):
        return '1'
    return 'a'


def _root(t):
    k = t[0]
    if k in ('u', 'b'):
        return 'elem'
    if k == 'f2':
        return 'elem' if t[1] in L.F2_ELEM else t[1]
    if k == 'r':
        return t[1]
    if k == 'i':
        return 'index'
    return k


def _optlabel(opt):
    return '+'.join('%s=%s' % (k, opt[k]) for k in sorted(opt)) or 'base'


def sig_class(spec, ref):
    ins = ','.join(_scls(spec['shapes'][n]) for n in ref['names'])
    outs = ','.join(_scls(s) for s in ref['outshapes'])
    return '%s|%s|in=%s|out=%s' % (_optlabel(spec['opt']), '&'.join(_root(t) for t in spec['exprs']),
                                   ins, outs)


_UNITS = {'comp': ('cm', 'm', 0.01, 0.0), 'var': ('degF', 'degC', 1.0 / 1.8, -32.0 / 1.8)}


def build(spec, ref):
    """real Problem for the spec; returns (problem, of names, wrt names, unit map)"""
    om = _OM
    opt = spec['opt']
    names = ref['names']
    shapes = {n: tuple(s) for n, s in spec['shapes'].items()}
    outnames = ['y', 'z'][:len(spec['exprs'])]
    outshapes = dict(zip(outnames, ref['outshapes']))
    sbc, units, decl = opt.get('sbc'), opt.get('units'), opt.get('decl', 'val')
    explicit_ivc = bool(opt.get('ivc') or sbc or units)

    compkw = {}
    if opt.get('diag'):
        compkw['has_diag_partials'] = True
    if opt.get('color') == 'off':
        compkw['do_coloring'] = False
    if sbc == 'comp':
        compkw['shape_by_conn'] = True
    if units == 'comp':
        compkw['units'] = 'm'
    if decl == 'compshape':
        compkw['shape'] = shapes[names[0]]

    varkw = {}
    for n in names + outnames:
        isout = n in outshapes
        shp = outshapes[n] if isout else shapes[n]
        meta = {}
        if sbc == 'comp' or decl == 'compshape':
            pass
        elif sbc == 'var' and n == names[0]:
            meta['shape_by_conn'] = True
        elif sbc == 'var' and isout and shp == shapes[names[0]]:
            meta['copy_shape'] = names[0]
        elif decl == 'shape':
            meta['shape'] = shp
        elif isout and shp == ():
            pass    # default scalar output receives a 0-d result
        elif shp == (1,):
            pass    # ExecComp's default variable
        elif shp == ():
            meta['shape'] = ()
        else:
            meta['val'] = np.ones(shp)
        if units == 'var':
            if n == names[0]:
                meta['units'] = 'degC'
            elif isout:
                meta['units'] = 's'
        if meta:
            varkw[n] = meta['val'] if list(meta) == ['val'] else meta
    for cname, cval in ref['consts'].items():
        varkw[cname] = {'val': cval if np.ndim(cval) else float(cval), 'constant': True}
        if np.shape(cval) == (1,):
            varkw[cname]['val'] = np.array(cval)

    exprs = ['%s = %s' % (o, L.render(t)) for o, t in zip(outnames, spec['exprs'])]
    p = om.Problem(reports=None)
    conv = {}
    if explicit_ivc:
        ivc = p.model.add_subsystem('ivc', om.IndepVarComp())
        for n in names:
            u = None
            if units == 'comp' or (units == 'var' and n == names[0]):
                u = _UNITS[units][0]
                conv[n] = _UNITS[units][2:]
            ivc.add_output(n, shape=shapes[n], units=u)
    comp = p.model.add_subsystem('c', om.ExecComp(exprs if len(exprs) > 1 else exprs[0],
                                                   **compkw, **varkw))
    if opt.get('color') == 'declared':
        comp.declare_coloring('*', method='cs', show_summary=False)
    elif opt.get('color') == 'partials_cs':
        comp.declare_partials('*', '*', method='cs')
    if explicit_ivc:
        for n in names:
            p.model.connect('ivc.' + n, 'c.' + n)
        wrt = ['ivc.' + n for n in names]
    else:
        wrt = ['c.' + n for n in names]
    if sbc == 'comp':
        for o in outnames:
            osh = outshapes[o]
            kw = {'x': {'shape': osh}, 'y': {'shape': osh}}
            p.model.add_subsystem('sink_' + o, om.ExecComp('y = 2.0*x', **kw))
            p.model.connect('c.' + o, 'sink_%s.x' % o)
    return p, comp, ['c.' + o for o in outnames], wrt, conv


def _reseed():
    """own the nondeterminism: ExecComp's sparsity detection perturbs the inputs with random
    numbers (module generator of openmdao.utils.array_utils and np.random); every execution of a
    spec starts from the same generator state so that a failure replays identically"""
    np.random.seed(20260921)
    try:
        import openmdao.utils.array_utils as au
        if hasattr(au, '_randgen'):
            au._randgen = np.random.default_rng(20260921)
    except Exception:
        pass


def _maxabs(a):
    a = np.asarray(a)
    return float(np.max(np.abs(a))) if a.size else 0.0


def _slug(msg):
    last = [ln for ln in str(msg).strip().splitlines() if ln.strip()][-1:] or ['']
    import re
    return re.sub(r'[^A-Za-z]+', '_', last[0])[:48].strip('_')


def check_one(spec):
    """run the spec; a violating spec is minimised greedily (drop options / expressions while the
    same observable still fails) so that signature and replay describe the smallest failing input"""
    oc, ev, nt, vio = _run(spec)
    if not vio:
        return oc, ev, nt, vio
    out, seen = [], set()
    for what in sorted(set(v['what'] for v in vio)):
        cur = dict(spec)
        changed = True
        while changed:
            changed = False
            trials = []
            for k in sorted(cur.get('opt', {})):
                t = dict(cur)
                t['opt'] = {kk: vv for kk, vv in cur['opt'].items() if kk != k}
                trials.append(t)
            if len(cur['exprs']) > 1:
                for i in range(len(cur['exprs'])):
                    t = dict(cur)
                    t['exprs'] = [cur['exprs'][i]]
                    used = [n for n in cur['shapes'] if n in L.variables(t['exprs'][0])]
                    t['shapes'] = {n: cur['shapes'][n] for n in used}
                    if not L.variables(t['exprs'][0], 'k'):
                        t['kshape'] = None
                    if used:
                        trials.append(t)
            for t in trials:
                v2 = _run(t)[3]
                if any(v['what'] == what for v in v2):
                    cur = t
                    changed = True
                    break
        for v in _run(cur)[3]:
            if v['what'] == what and v['sig'] not in seen:
                seen.add(v['sig'])
                out.append(v)
    return 'violation', ev, 0, out


def _run(spec):
    """-> (outcome, evals, nontrivial, violations)"""
    spec = dict(spec)
    spec.setdefault('opt', {})
    spec.setdefault('rot', 0)
    spec.setdefault('kshape', None)
    ref = reference(spec)
    if ref['status'] != 'ok':
        return ref['status'], 0, 0, []
    why = option_admissible(spec, ref)
    if why:
        return 'left_out:' + why, 0, 0, []
    cls = sig_class(spec, ref)
    case = {'kind': 'one', 'exprs': spec['exprs'], 'shapes': spec['shapes'],
            'kshape': spec['kshape'], 'opt': spec['opt'], 'rot': spec['rot']}
    src = '; '.join(L.render(t) for t in spec['exprs'])
    vio = []

    def V(what, msg, blk=None, **kw):
        c = cls if blk is None else cls.split('|in=')[0] + '|blk=' + blk
        if what.startswith('raises_'):
            # the exception slug pins the root cause: keep only option set and output classes
            c = cls.split('|')[0] + '|out=' + cls.split('|out=')[1]
        d = {'sig': 'C14:%s:%s' % (what, c), 'case': case, 'what': what,
             'msg': '%s [%s] shapes=%s k=%s opt=%s: %s' % (what, src, spec['shapes'], spec['kshape'],
                                                            spec['opt'], msg)}
        d.update(kw)
        vio.append(d)

    names = ref['names']
    # the degF/cm conversions of the units options are not dyadic: one more digit of slack
    tol = TOL * 10.0 if spec['opt'].get('units') else TOL
    buf = io.StringIO()
    _reseed()
    stage = 'build'
    evals = 0
    colored = False
    try:
        with contextlib.redirect_stdout(buf):
            p, comp, of, wrt, conv = build(spec, ref)
            stage = 'setup'
            if spec['opt'].get('resetup') == 'noderiv_first':
                # an earlier setup without derivatives (e.g. a cheap first analysis) must not
                # influence the partials of the next setup
                p.setup(derivatives=False)
                p.run_model()
            p.setup(mode=spec['opt'].get('mode', 'fwd'))
            for ipt, (label, env, vals, jacs) in enumerate(ref['points']):
                stage = 'set_val'
                for n, w in zip(names, wrt):
                    v = env[n]
                    if n in conv:
                        f, off = conv[n]
                        v = (v - off) / f
                    p.set_val(w, v)
                stage = 'run_model'
                p.run_model()
                evals += 1
                for o, want, osh in zip(of, vals, ref['outshapes']):
                    got = np.asarray(p.get_val(o))
                    if got.size != want.size:
                        V('output_size', 'point %s: %s has shape %s, expression value has shape %s'
                          % (label, o, got.shape, want.shape))
                        continue
                    if osh not in ((), (1,)) and got.shape != osh:
                        V('output_shape', 'point %s: %s has shape %s, declared %s' % (
                            label, o, got.shape, osh))
                    err = _maxabs(got.ravel() - want.ravel())
                    if not err <= tol * max(1.0, _maxabs(want)):
                        V('output', 'point %s (#%d): %s = %s, NumPy value %s' % (
                            label, ipt, o, got.ravel().tolist(), want.ravel().tolist()),
                          observed=got, expected=want)
                stage = 'compute_totals'
                J = p.compute_totals(of=of, wrt=wrt)
                for o, jac, osh, tr in zip(of, jacs, ref['outshapes'], spec['exprs']):
                    for n, w in zip(names, wrt):
                        blk = '%s:%sx%s' % (_root(tr), _scls(osh), _scls(spec['shapes'][n]))
                        want = jac[n] * (conv[n][0] if n in conv else 1.0)
                        got = np.asarray(J[o, w])
                        if got.shape != want.shape:
                            V('partials_shape', 'point %s: d%s/d%s has shape %s, expected %s' % (
                                label, o, w, got.shape, want.shape), blk=blk)
                            continue
                        err = _maxabs(got - want)
                        if not err <= tol * max(1.0, _maxabs(want)):
                            V('partials', 'point %s (#%d): d%s/d%s = %s, exact %s' % (
                                label, ipt, o, w, np.round(got, 10).tolist(),
                                np.round(want, 10).tolist()), blk=blk, observed=got,
                              expected=want)
            try:
                colored = comp._coloring_info.coloring is not None
            except Exception:
                colored = False
    except Exception as exc:
        if os.environ.get('OMV_DEBUG_RAISE'):
            raise
        V('raises_%s:%s:%s' % (stage, type(exc).__name__, _slug(exc)),
          '%s: %s' % (type(exc).__name__, str(exc)[:300]))
    if vio:
        # one violation per signature is enough for a single spec
        seen, out = set(), []
        for v in vio:
            if v['sig'] not in seen:
                seen.add(v['sig'])
                out.append(v)
        return 'violation', max(evals, 1), 0, out
    nontriv = 0
    for jac in ref['points'][0][3]:
        allv = np.concatenate([jac[n].ravel() for n in names]) if names else np.zeros(0)
        if allv.size >= 2 and np.ptp(allv) > 0:
            nontriv = 1
    outcome = 'ok:%s:%s' % (_optlabel(spec['opt']), 'colored' if colored else 'plain')
    return outcome, evals, nontriv, []


def _selftest_oracle():
    trees = one_op_trees() + two_op_trees(False)[::97]
    bad = L.selftest(trees, [((3,), (3,)), ((2, 2), (2, 2)), ((1,), (3,))])
    if bad:
        raise RuntimeError('reference model self-test failed (f vs f\'): %s' % (bad[:3],))


def check_case(case):
    if _OM is None:
        init_worker()
    if case.get('kind') == 'batch':
        outcomes = collections.Counter()
        evals = nontriv = 0
        vios = []
        per_sig = collections.Counter()
        sample = None
        for spec in case['specs']:
            oc, ev, nt, vio = check_one(spec)
            outcomes[oc] += 1
            evals += ev
            nontriv += nt
            for v in vio:
                per_sig[v['sig']] += 1
                if per_sig[v['sig']] <= 2:
                    vios.append(v)
            if sample is None and ev:
                sample = {'exprs': [L.render(t) for t in spec['exprs']], 'shapes': spec['shapes'],
                          'opt': spec['opt']}
        return {'evals': evals, 'nontrivial': nontriv, 'outcome': dict(outcomes),
                'violations': vios, 'sample': sample or {'batch': len(case['specs'])}}
    oc, ev, nt, vio = check_one(case)
    return {'evals': ev, 'nontrivial': nt, 'outcome': oc, 'violations': vio}
