"""C15 - table interpolation: exact on nodes, reproduces its polynomial class, fixed-dimension
variants agree with the general ones, errors exactly out of bounds (DESIGN.md section 4, C15).

Complete enumeration of (method, grid tuple, extrapolate flag, table, call pattern, query point) over
the coordinate lattice; oracle = the table itself on nodes, a NumPy tensor polynomial of the class
the method is exact for, the general method for a fixed-dimension variant, and the interval test
grid[0] <= x <= grid[-1] for the out-of-bounds behaviour.
"""
import collections
import itertools
import os
import warnings

import numpy as np

ID = 'C15'
LEVEL = 'exploration'
TECHNIQUE = ('bounded exhaustive enumeration of strictly increasing grids from a 7-point signed '
             'lattice x methods x query-point classes x extrapolate flag x call pattern, against '
             'tensor-polynomial and table oracles')
RULE = ('every strictly increasing subset of the lattice {-3,-2,-0.5,0,0.75,2,3.5} of the sizes a '
        'method accepts (1-D: k..5 points, 2-D: all pairs of grids, 3-D: all triples of a grid '
        'family) x 18 table methods x {nodes, cell mid/quarter points, both boundaries, near and far '
        'outside, NaN} per axis x extrapolate on/off x {polynomial-class table, generic table} x '
        '{one batched call, sequence of single calls, batch-then-single} through InterpND.interpolate,'
        ' MetaModelStructuredComp (vec_size 1 and 3) and MetaModelSemiStructuredComp; one evaluation '
        '= one query point evaluated (or required to raise) in one configuration; non-trivial = the '
        'point is not a grid node in every axis (interpolation, extrapolation or rejection actually '
        'happens)')
LEVEL_TEXT = ('All grids that can be drawn from a signed 7-point lattice (all-negative, ending at zero, '
              'starting at zero, sign-crossing, positive) are combined with every table method, every '
              'class of query point and both extrapolation settings, and each returned value (or '
              'raised error) is compared with an independent oracle. Exhaustive small-scope '
              'exploration is the right level: the defects of this code are bookkeeping errors '
              '(stencil selection at the table ends, sign of a tolerance, cache keys, fixed-dimension '
              'coefficient formulas) that show up on grids with <= 5 points per axis.')
LEVEL_NOTE = ('Continuous coordinates are probed on a lattice, not covered; tables larger than 5 points '
              'per axis, more than 3 dimensions and complex-valued tables are outside the bound. '
              'NumPy polynomial evaluation is the trusted reference.')
ASSUMPTIONS = [
    'exactness classes demanded: multilinear for slinear, akima, cubic (natural spline) and the '
    'scipy_* methods (the statement names no class for scipy_*; any interpolating spline of degree '
    '>= 1 reproduces multilinear data); tensor quadratics for lagrange2, tensor cubics for lagrange3',
    'with extrapolate=False an OutOfBoundsError/ValueError (InterpND) or AnalysisError/ValueError '
    '(components) must be raised iff a coordinate is < grid[0] or > grid[-1] or is NaN; outside '
    'probes are at least 1/1024 of the end cell away from the table, so the implementation\'s '
    '1e-14 relative tolerance band is never probed',
    'NaN with extrapolate=True is not in the alphabet (statement silent)',
    'fixed-dimension variant == general method is demanded on a generic (non-polynomial) table at '
    'every in-bounds point and, with extrapolate=True, at the outside probes',
    'a scipy_* configuration is inadmissible when scipy.interpolate.make_interp_spline itself '
    'rejects the (grid size, reduced order) combination (decided by calling scipy directly)',
    'one InterpND object may be queried repeatedly with one or many points in any order; results '
    'must not depend on the call history',
]
MIN_NONTRIVIAL = {'quick': 350000, 'thorough': 4000000}
CHUNK = 1

LATTICE = (-3.0, -2.0, -0.5, 0.0, 0.75, 2.0, 3.5)
_EXT = (-4.5,) + LATTICE + (5.0,)

# method -> (min points per axis, polynomial degree per axis that must be reproduced)
GENERAL = collections.OrderedDict([
    ('slinear', (2, 1)), ('lagrange2', (3, 2)), ('lagrange3', (4, 3)), ('akima', (4, 1)),
    ('cubic', (4, 1)), ('scipy_slinear', (2, 1)), ('scipy_cubic', (2, 1)),
    ('scipy_quintic', (2, 1)),
])
FIXED = collections.OrderedDict([
    ('1D-slinear', ('slinear', 1)), ('2D-slinear', ('slinear', 2)), ('3D-slinear', ('slinear', 3)),
    ('1D-lagrange2', ('lagrange2', 1)), ('2D-lagrange2', ('lagrange2', 2)),
    ('3D-lagrange2', ('lagrange2', 3)),
    ('1D-lagrange3', ('lagrange3', 1)), ('2D-lagrange3', ('lagrange3', 2)),
    ('3D-lagrange3', ('lagrange3', 3)),
    ('1D-akima', ('akima', 1)),
])
SEMI = ('slinear', 'lagrange2', 'lagrange3', 'akima')
SCIPY_K = {'scipy_slinear': 1, 'scipy_cubic': 3, 'scipy_quintic': 5}


def method_info(method):
    """(general method name, min points, degree, fixed dim or None)"""
    if method in FIXED:
        gen, dim = FIXED[method]
        return gen, GENERAL[gen][0], GENERAL[gen][1], dim
    return method, GENERAL[method][0], GENERAL[method][1], None


# ------------------------------------------------------------------ grids and points

def all_grids(sizes):
    out = []
    for n in sizes:
        out.extend([list(c) for c in itertools.combinations(LATTICE, n)])
    return out


def signclass(g):
    if g[-1] < 0:
        return 'neg'
    if g[-1] == 0:
        return 'zero_end'
    if g[0] == 0:
        return 'zero_start'
    if g[0] < 0:
        return 'cross'
    return 'pos'


def family(sizes, per_class):
    """deterministic sub-family: per (size, sign class) the first/last/middle grids"""
    out = []
    for n in sizes:
        bycls = collections.OrderedDict()
        for g in all_grids([n]):
            bycls.setdefault(signclass(g), []).append(g)
        for cls, gs in bycls.items():
            pick = [gs[0], gs[-1], gs[len(gs) // 2], gs[len(gs) // 3]][:per_class]
            for g in pick:
                if g not in out:
                    out.append(g)
    return out


def axis_points(g, level):
    """in-bounds and eventful probe coordinates of one axis"""
    n = len(g)
    inb = []
    for i in range(n):
        inb.append(g[i])
    for c in range(n - 1):
        w = g[c + 1] - g[c]
        if level == 'full':
            fr = (0.25, 0.5, 0.75)
        elif level == 'mid':
            fr = (0.5,)
            if c == 0:
                fr = (0.25, 0.5)
            if c == n - 2:
                fr = fr + (0.75,)
        else:
            fr = (0.5,)
        for f in fr:
            inb.append(g[c] + f * w)
    lo_far = _EXT[_EXT.index(g[0]) - 1]
    hi_far = _EXT[_EXT.index(g[-1]) + 1]
    lo_near = g[0] - (g[1] - g[0]) / 1024.0
    hi_near = g[-1] + (g[-1] - g[-2]) / 1024.0
    if level == 'low':
        ev = [lo_far, hi_far, float('nan')]
    else:
        ev = [lo_far, lo_near, hi_near, hi_far, float('nan')]
    small = [g[0], g[0] + 0.5 * (g[1] - g[0]), g[-1]]
    return inb, ev, small


def point_set(grids, level):
    axes = [axis_points(g, level) for g in grids]
    d = len(grids)
    pts = [list(p) for p in itertools.product(*[a[0] for a in axes])]
    for a in range(d):
        others = [axes[b][2] for b in range(d) if b != a]
        for e in axes[a][1]:
            for o in itertools.product(*others):
                o = list(o)
                o.insert(a, e)
                pts.append(o)
    if d > 1:
        pts.append([axes[a][1][0] for a in range(d)])
        pts.append([axes[a][1][-2] for a in range(d)])
    return pts


def coord_class(g, x):
    """(ptclass, detail) of coordinate x on grid g"""
    n = len(g)
    if x != x:
        return 'nan', 'nan'
    if x < g[0]:
        return 'outside', 'outside_lo'
    if x > g[-1]:
        return 'outside', 'outside_hi'
    if x == g[0]:
        return 'node', 'boundary_lo'
    if x == g[-1]:
        return 'node', 'boundary_hi'
    for i in range(1, n - 1):
        if x == g[i]:
            return 'node', 'node@n%di%d' % (n, i)
    for c in range(n - 1):
        if g[c] < x < g[c + 1]:
            return 'interior', 'interior@n%dc%d' % (n, c)
    raise AssertionError


# ------------------------------------------------------------------ palettes and oracle

_ROOT = (3, 5, 6, 7)      # primitive roots modulo the Fermat prime 257


def pal_seq(n, pal, kind):
    """n pairwise distinct dyadic values in [-4, 4) in a scrambled (non-arithmetic) order: the powers
    of a primitive root modulo 257 (kind separates the coefficient and the table streams)"""
    root = _ROOT[pal % 4]
    start = 1 + 17 * kind + 5 * (pal // 4) + 3 * pal
    out = []
    for i in range(n):
        v = (pow(root, start + i, 257) - 128) / 32.0
        if v == 0.0:
            v = 4.03125
        out.append(v)
    return np.array(out)


def vander(x, deg):
    x = np.asarray(x, dtype=float)
    return np.stack([x ** k for k in range(deg + 1)], axis=-1)


def poly_eval(C, X):
    """tensor polynomial with coefficient array C at points X (N, d); returns values and scale"""
    d = C.ndim
    deg = C.shape[0] - 1
    letters = 'abc'[:d]
    V = [vander(X[:, i], deg) for i in range(d)]
    spec = letters + ',' + ','.join('n' + c for c in letters) + '->n'
    val = np.einsum(spec, C, *V)
    scale = np.einsum(spec, np.abs(C), *[np.abs(v) for v in V])
    return val, scale


def make_table(grids, kind, deg, pal):
    shape = tuple(len(g) for g in grids)
    d = len(grids)
    if kind == 'poly':
        C = pal_seq((deg + 1) ** d, pal, 0).reshape((deg + 1,) * d)
        # damp by 2**-(total degree): keeps the table's dynamic range (and so the attainable
        # accuracy of any floating-point interpolation) moderate; dyadic, so still exact
        for ix in itertools.product(range(deg + 1), repeat=d):
            C[ix] *= 0.5 ** sum(ix)
        mesh = np.array(list(itertools.product(*grids)), dtype=float)
        val, _ = poly_eval(C, mesh)
        return val.reshape(shape), C
    G = pal_seq(int(np.prod(shape)), pal, 1).reshape(shape)
    return G, None


FVG_TOL = 1e-10     # fixed-dimension variant vs general method, relative to max |table|
# the fixed-dimension Lagrange variants expand the interpolant in monomials of the cell offsets and
# lose up to 5 digits on these grids (measured 4e-11 at nodes of a table with |v| <= 4); that is
# conditioning, not bookkeeping, so they get a wider band (calibrated: 100x above the worst seen)
TOL_MULT = {'3D-lagrange3': 500.0, '2D-lagrange3': 20.0, '3D-lagrange2': 20.0}
VAL_TOL = 2e-11     # relative to sum |c| |x|^a (polynomial tables) or to max |table| (generic)


# ------------------------------------------------------------------ driving the implementation

class _Raised(object):
    def __init__(self, exc):
        import traceback
        self.type = type(exc).__name__
        self.msg = str(exc)[:160]
        loc = None
        for fr in traceback.extract_tb(exc.__traceback__):
            if '/openmdao/' in fr.filename:
                loc = fr
        if loc is None:
            loc = traceback.extract_tb(exc.__traceback__)[-1]
        tname = self.type
        if isinstance(exc, (UnboundLocalError, NameError)):
            import re
            mt = re.search(r"variable '(\w+)'|name '(\w+)'", str(exc))
            if mt:
                tname += '(%s)' % (mt.group(1) or mt.group(2))
        self.where = '%s@%s:%s' % (tname, os.path.basename(loc.filename), loc.name)
        self.oob = False


def _is_oob_exc(exc, api):
    from openmdao.components.interp_util.outofbounds_error import OutOfBoundsError
    from openmdao.core.analysis_error import AnalysisError
    if api == 'interp':
        return isinstance(exc, (OutOfBoundsError, ValueError))
    return isinstance(exc, (AnalysisError, ValueError, OutOfBoundsError))


class Driver(object):
    """One object under test (InterpND or a Problem around a meta-model component)."""

    def __init__(self, api, method, grids, table, extrap, vec=1, resetup=False):
        self.api = api
        self.d = len(grids)
        self.vec = vec
        garr = [np.array(g, dtype=float) for g in grids]
        if api == 'interp':
            from openmdao.components.interp_util.interp import InterpND
            self.obj = InterpND(method=method, points=garr, values=np.array(table),
                                extrapolate=extrap)
        else:
            import openmdao.api as om
            p = om.Problem(reports=None)
            names = ['x%d' % i for i in range(self.d)]
            if api == 'comp':
                m0, e0 = method, extrap
                if resetup:
                    # first set up (and run) with other options, then change them and set up again
                    m0 = 'slinear' if method != 'slinear' else 'lagrange2'
                    if min(len(g) for g in garr) < 3:
                        m0 = 'slinear'
                    e0 = not extrap
                comp = om.MetaModelStructuredComp(method=m0, extrapolate=e0, vec_size=vec)
                for nm, g in zip(names, garr):
                    comp.add_input(nm, float(g[0]), training_data=g)
                comp.add_output('f', 1.0, training_data=np.array(table))
            else:
                comp = om.MetaModelSemiStructuredComp(method=method, extrapolate=extrap,
                                                      vec_size=vec,
                                                      training_data_gradients=(api == 'semi_tdg'))
                mesh = np.array(list(itertools.product(*garr)), dtype=float)
                for i, nm in enumerate(names):
                    comp.add_input(nm, training_data=mesh[:, i].copy())
                comp.add_output('f', training_data=np.array(table).ravel().copy())
            p.model.add_subsystem('c', comp, promotes=['*'])
            p.setup()
            p.final_setup()
            if resetup and api == 'comp':
                p.run_model()
                comp.options['method'] = method
                comp.options['extrapolate'] = extrap
                p.setup()
                p.final_setup()
            self.obj = p
            self.names = names

    def call(self, X, spelling=0):
        """evaluate the rows of X in one call; returns ndarray of values or _Raised"""
        X = np.asarray(X, dtype=float)
        try:
            if self.api == 'interp':
                if spelling and X.shape[0] == 1:
                    arg = X[0].copy()      # 1-D spelling of one point / one 1-D table location
                else:
                    arg = X.copy()
                r = self.obj.interpolate(arg)
                return np.asarray(r, dtype=float).ravel().copy()
            p = self.obj
            for i, nm in enumerate(self.names):
                p.set_val(nm, X[:, i])
            p.run_model()
            return np.asarray(p.get_val('f'), dtype=float).ravel().copy()
        except Exception as exc:
            r = _Raised(exc)
            r.oob = _is_oob_exc(exc, self.api)
            return r


def scipy_admissible(method, grids):
    """scipy_* is only admissible if make_interp_spline accepts every (axis, reduced order)"""
    from scipy.interpolate import make_interp_spline
    k0 = SCIPY_K[method]
    for g in grids:
        n = len(g)
        k = k0 if n > k0 else n - 1
        try:
            make_interp_spline(np.array(g), np.arange(n, dtype=float), k=k)
        except Exception:
            return False
    return True


# ------------------------------------------------------------------ one configuration

def run_config(cfg, pts):
    """Evaluate the points of one configuration.  Returns (evals, nontrivial, outcomes, failures);
    failure = dict(i=point index or None, obs=..., who=..., msg=...)"""
    api, method, grids = cfg['api'], cfg['method'], cfg['grids']
    extrap, tkind, pal, mode = cfg['extrap'], cfg['table'], cfg['pal'], cfg['mode']
    gen, kmin, deg, fdim = method_info(method)
    d = len(grids)
    outcomes = collections.Counter()
    fails = []
    P = np.array(pts, dtype=float).reshape(len(pts), d)
    N = len(P)

    table, C = make_table(grids, tkind, deg, pal)
    tscale = float(np.max(np.abs(table)))
    vtol = VAL_TOL * TOL_MULT.get(method, 1.0)
    ftol = FVG_TOL * TOL_MULT.get(method, 1.0)

    # ---- reference classification of every point
    cls = [[coord_class(grids[a], P[i, a])[0] for a in range(d)] for i in range(N)]
    has_nan = np.array([('nan' in c) for c in cls])
    outside = np.array([('outside' in c) or ('nan' in c) for c in cls])
    allnode = np.array([all(x == 'node' for x in c) for c in cls])
    must_raise = outside if not extrap else np.zeros(N, dtype=bool)
    skip = has_nan & extrap            # NaN with extrapolate=True: not in the alphabet
    nontriv = ~allnode

    # ---- expected values
    exp = np.full(N, np.nan)
    tol = np.full(N, np.inf)
    kindexp = [''] * N
    ok = ~has_nan
    if tkind == 'poly':
        v, s = poly_eval(C, np.where(ok[:, None], P, 0.0))
        exp[ok] = v[ok]
        tol[ok] = vtol * np.maximum(s[ok], max(tscale, 1.0))
        for i in range(N):
            kindexp[i] = 'poly_value'
    else:
        for i in range(N):
            if allnode[i]:
                idx = tuple(grids[a].index(P[i, a]) for a in range(d))
                exp[i] = table[idx]
                tol[i] = vtol * max(tscale, 1.0)
                kindexp[i] = 'node_value'
        if fdim is not None:
            # the general method (fresh object per point) is the reference for the fixed variant
            key = (gen, repr(grids), pal, P.tobytes())
            ref = _REFCACHE.get(key)
            if ref is None:
                ref = general_reference(gen, grids, table, P, ok)
                if len(_REFCACHE) > 8:
                    _REFCACHE.clear()
                _REFCACHE[key] = ref
            for i in range(N):
                if not allnode[i] and ok[i] and ref[i] == ref[i]:
                    exp[i] = ref[i]
                    tol[i] = ftol * max(tscale, 1.0)
                    kindexp[i] = 'fixed_vs_general'

    def judge(i, r, how):
        """r: float value or _Raised for point i"""
        if skip[i]:
            return
        if isinstance(r, _Raised):
            if must_raise[i]:
                if r.oob:
                    outcomes['nan_rejected' if has_nan[i] else 'oob_rejected'] += 1
                else:
                    outcomes['violation'] += 1
                    fails.append({'i': i, 'obs': 'oob_wrong_error', 'who': r.where,
                                  'msg': '%s: %s' % (r.type, r.msg), 'how': how})
            else:
                outcomes['violation'] += 1
                fails.append({'i': i, 'obs': 'inbounds_raises' if not outside[i] else
                              'extrapolation_raises', 'who': r.where,
                              'msg': '%s: %s' % (r.type, r.msg), 'how': how})
            return
        if must_raise[i]:
            outcomes['violation'] += 1
            fails.append({'i': i, 'obs': 'nan_not_rejected' if has_nan[i] else 'oob_not_rejected',
                          'who': 'bounds', 'msg': 'returned %r' % float(r), 'how': how})
            return
        if not kindexp[i]:
            outcomes['evaluated_unconstrained'] += 1
            return
        if _CAL is not None:
            k = (kindexp[i], method)
            _CAL[k] = max(_CAL.get(k, 0.0), abs(r - exp[i]) / tol[i])
        if not (abs(r - exp[i]) <= tol[i]):
            outcomes['violation'] += 1
            fails.append({'i': i, 'obs': kindexp[i], 'who': method,
                          'msg': 'got %r expected %r (tol %.1e)' % (float(r), float(exp[i]),
                                                                   tol[i]), 'how': how})
            return
        if outside[i]:
            outcomes['extrapolated_' + kindexp[i]] += 1
        elif allnode[i]:
            outcomes['node_exact'] += 1
        else:
            outcomes['interior_' + kindexp[i]] += 1

    evals = 0
    nt = 0
    vec = 3 if mode == 'vec3' else 1

    def fresh():
        return Driver(api, method, grids, table, extrap, vec=vec,
                      resetup=mode.endswith('_resetup'))

    try:
        drv = fresh()
    except Exception as exc:
        r = _Raised(exc)
        return 1, 0, collections.Counter({'violation': 1}), [
            {'i': None, 'obs': 'setup_raises', 'who': r.where, 'msg': '%s: %s' % (r.type, r.msg),
             'how': 'setup'}]

    if mode in ('batch', 'vec3'):
        # all points that must evaluate, in one call (vec3: in groups of three)
        idx = [i for i in range(N) if not must_raise[i] and not skip[i]]
        if mode == 'batch':
            groups = [idx] if idx else []
        else:
            groups = [idx[j:j + 3] for j in range(0, len(idx), 3)]
        for grp in groups:
            rows = list(grp)
            while len(rows) < (3 if mode == 'vec3' else 2):
                rows.append(rows[-1])       # a one-point batch is duplicated (vectorised path)
            r = drv.call(P[rows])
            evals += len(grp)
            nt += int(np.sum(nontriv[grp]))
            if isinstance(r, _Raised) and len(grp) > 1:
                # some point of the group is refused: evaluate the points one per call (each row
                # duplicated so that the vectorised path is still the one exercised)
                for i in grp:
                    drv = fresh()
                    r1 = drv.call(P[[i] * (3 if mode == 'vec3' else 2)])
                    judge(i, r1 if isinstance(r1, _Raised) else r1[0], mode)
                drv = fresh()
            elif isinstance(r, _Raised):
                judge(grp[0], r, mode)
                drv = fresh()
            elif len(r) != len(rows):
                outcomes['violation'] += 1
                fails.append({'i': grp[0], 'obs': 'result_shape', 'who': method,
                              'msg': 'len %d for %d points' % (len(r), len(rows)), 'how': mode})
            else:
                for j, i in enumerate(grp):
                    judge(i, r[j], mode)
        # every point that must be refused, alone in a call (row duplicated: vectorised path)
        bad = [i for i in range(N) if must_raise[i]]
        for i in bad:
            r = drv.call(P[[i] * (3 if mode == 'vec3' else 2)])
            evals += 1
            nt += 1
            judge(i, r if isinstance(r, _Raised) else r[0], mode)
            if isinstance(r, _Raised) and not r.oob:
                drv = fresh()
        # a call containing one offending point must be rejected as a whole
        if bad and idx:
            rows = (idx[:2] + [bad[0]]) if mode == 'batch' else [idx[0], bad[0], idx[-1]]
            r = drv.call(P[rows])
            evals += 1
            nt += 1
            judge(bad[0], r if isinstance(r, _Raised) else r[rows.index(bad[0])], mode + '_mixed')
            if isinstance(r, _Raised):
                drv = fresh()
        # history: a single-point call on the object that has served a batch
        failed = set(f['i'] for f in fails)
        idx = [i for i in idx if i not in failed]
        if idx and mode == 'batch':
            i = idx[len(idx) // 2]
            r = drv.call(P[[i]])
            evals += 1
            nt += int(nontriv[i])
            if isinstance(r, _Raised):
                outcomes['violation'] += 1
                fails.append({'i': i, 'obs': 'single_after_batch_raises', 'who': r.where,
                              'msg': '%s: %s' % (r.type, r.msg), 'how': 'batch_then_single'})
            else:
                judge(i, r[0], 'batch_then_single')
    else:
        # sequence of single-point calls on one object, in enumeration order
        for i in range(N):
            if skip[i]:
                continue
            r = drv.call(P[[i]], spelling=i % 2)
            evals += 1
            nt += int(nontriv[i])
            if isinstance(r, _Raised):
                judge(i, r, 'single')
            elif len(r) != 1:
                outcomes['violation'] += 1
                fails.append({'i': i, 'obs': 'result_shape', 'who': method,
                              'msg': 'len %d for 1 point' % len(r), 'how': 'single'})
            else:
                judge(i, r[0], 'single')
        # history: every ordered pair of single-point calls on a fresh object (1-D tables): the
        # result for the second point must not depend on where the first one was (cached bracket
        # indices and coefficients)
        failed = set(f['i'] for f in fails)
        if len(grids) == 1 and api == 'interp' and not failed:
            ok = [i for i in range(N) if not must_raise[i] and not skip[i]]
            for i in ok:
                for j in ok:
                    if i == j:
                        continue
                    d2 = fresh()
                    r1 = d2.call(P[[i]])
                    if isinstance(r1, _Raised):
                        continue
                    r = d2.call(P[[j]])
                    evals += 1
                    if isinstance(r, _Raised) or len(r) != 1:
                        judge(j, r if isinstance(r, _Raised) else r, 'pair_history')
                    else:
                        judge(j, r[0], 'pair_history')
                    if fails:
                        fails[-1]['prev'] = i      # the replay needs the predecessor
                        break
                if fails:
                    break
        # history: one batched call on the object that has served single calls
        failed = set(f['i'] for f in fails)
        idx = [i for i in range(N) if not must_raise[i] and not skip[i] and i not in failed]
        if len(idx) >= 2 and api == 'interp':
            r = drv.call(P[idx])
            evals += 1
            nt += 1
            if isinstance(r, _Raised):
                outcomes['violation'] += 1
                fails.append({'i': None, 'grp': idx, 'obs': 'batch_after_single_raises',
                              'who': r.where, 'msg': '%s: %s' % (r.type, r.msg),
                              'how': 'single_then_batch'})
            elif len(r) == len(idx):
                for j, i in enumerate(idx):
                    if kindexp[i] and not (abs(r[j] - exp[i]) <= tol[i]):
                        outcomes['violation'] += 1
                        fails.append({'i': i, 'obs': kindexp[i], 'who': method,
                                      'msg': 'got %r expected %r' % (float(r[j]), float(exp[i])),
                                      'how': 'single_then_batch'})
                        break
    return evals, nt, outcomes, fails


_REFCACHE = {}
_EMITTED = collections.Counter()
_CAL = {} if os.environ.get('OMV_C15_CAL') else None


def general_reference(gen, grids, table, P, ok):
    """values of the general method at the rows of P, each from a fresh extrapolating InterpND
    (NaN where it raises: those points are not compared)"""
    from openmdao.components.interp_util.interp import InterpND
    garr = [np.array(g, dtype=float) for g in grids]
    ref = np.full(len(P), np.nan)
    for i in range(len(P)):
        if not ok[i]:
            continue
        try:
            t = InterpND(method=gen, points=garr, values=np.array(table), extrapolate=True)
            ref[i] = float(np.asarray(t.interpolate(P[i].reshape(1, -1))).ravel()[0])
        except Exception:
            pass
    return ref


# ------------------------------------------------------------------ signatures / minimisation

_RAISE_OBS = ('inbounds_raises', 'extrapolation_raises', 'oob_wrong_error')


def first_report(sig):
    """True for the first worker of this run that reports `sig` (marker file in the run's scratch
    directory): the runner replays every reported case twice, so a signature that thousands of
    cases share is reported once per run, not once per case and worker"""
    import hashlib
    d = os.environ.get('OMV_SCRATCH')
    if not d or not os.path.isdir(d):
        return True
    path = os.path.join(d, 'sig_' + hashlib.sha1(sig.encode()).hexdigest())
    try:
        os.close(os.open(path, os.O_CREAT | os.O_EXCL | os.O_WRONLY))
        return True
    except FileExistsError:
        return False
    except OSError:
        return True


def _fails_like(cfg, pts, f):
    ev, nt, oc, fl = run_config(cfg, pts)
    for g in fl:
        if g['who'] == f['who'] and (g['obs'] == f['obs'] or
                                     (g['obs'] in _RAISE_OBS and f['obs'] in _RAISE_OBS)):
            return True
    return False


_VALUE_OBS = ('poly_value', 'node_value', 'fixed_vs_general')


def _axis_desc(g, x, obs):
    """structural class of one coordinate: position class, plus the sign class of the axis for the
    accept/reject observables (value mismatches do not depend on it: fewer, coarser signatures)"""
    if obs in _VALUE_OBS:
        return coord_class(g, x)[1]
    return '%s:%s' % (signclass(g), coord_class(g, x)[1])


def describe(cfg, p, f):
    """structural class of a failing point: sign class and position class of the implicated axes.
    Greedy minimisation: an axis whose coordinate can be replaced by a benign one (a point inside
    the first cell) without losing the failure is not implicated."""
    grids = cfg['grids']
    d = len(grids)
    descs = [_axis_desc(grids[a], p[a], f['obs']) for a in range(d)]
    q = list(p)
    impl = []
    for a in range(d):
        g = grids[a]
        keep = q[a]
        q[a] = g[0] + 0.5 * (g[1] - g[0])
        if q[a] == keep:
            q[a] = g[0] + 0.25 * (g[1] - g[0])
        if not _fails_like(cfg, [list(q)], f):
            q[a] = keep
            impl.append(a)
    if not impl:
        return 'any'
    return '+'.join(sorted(set(descs[a] for a in impl)))


def make_violation(cfg, pts, f):
    """minimise a failure to a replayable case and give it a stable signature"""
    cfgc = {k: v for k, v in cfg.items() if not k.startswith('_')}
    if f['i'] is None:
        grp = f.get('grp')
        sub = [pts[i] for i in grp] if grp else []
        # find a single offending point of the group, if there is one
        for i in (grp or []):
            if _fails_like(cfgc, [pts[i]], f):
                f = dict(f, i=i)
                break
        if f['i'] is None:
            case = dict(cfgc, kind='one', pts=[list(map(float, q)) for q in sub])
            sig = 'C15:%s:%s:%s/%s:%s' % (f['obs'], f['who'], cfg['api'], cfg['mode'],
                                          'group' if sub else 'setup')
            return {'sig': sig, 'case': case,
                    'msg': '%s method=%s grids=%s extrapolate=%s table=%s: %s' % (
                        f['obs'], cfg['method'], cfg['grids'], cfg['extrap'], cfg['table'],
                        f['msg'])}
    i = f['i']
    p = [float(x) for x in pts[i]]
    if _fails_like(cfgc, [p], f):
        seq = [p]
    elif f.get('prev') is not None:
        seq = [[float(x) for x in pts[f['prev']]], p]
    else:
        seq = [list(map(float, q)) for q in pts[:i + 1]]
    desc = describe(cfgc, p, f) if len(seq) == 1 else 'history:' + '+'.join(sorted(set(
        _axis_desc(g, x, f['obs']) for g, x in zip(cfg['grids'], p))))
    sig = 'C15:%s:%s:%s/%s:%s' % (f['obs'], f['who'], cfg['api'], cfg['mode'], desc)
    case = dict(cfgc, kind='one', pts=seq)
    return {'sig': sig, 'case': case,
            'msg': '%s method=%s grids=%s extrapolate=%s table=%s mode=%s point=%s: %s' % (
                f['obs'], cfg['method'], cfg['grids'], cfg['extrap'], cfg['table'], cfg['mode'],
                p, f['msg'])}


# ------------------------------------------------------------------ enumeration

def _modes(api):
    if api == 'interp':
        return ('batch', 'single')
    if api == 'comp':
        # '_resetup': the component is first set up and run with other options (method, extrapolate)
        return ('vec1', 'vec3', 'vec1_resetup')
    return ('vec1', 'vec3')


def _level(d, api):
    if d == 1:
        return 'full'
    if d == 2:
        return 'mid' if api == 'interp' else 'low'
    return 'low'


def check_group(case):
    api, method, pal = case['api'], case['method'], case['pal']
    outcomes = collections.Counter()
    evals = nt = 0
    vios = []
    suppressed = 0
    ncfg = 0
    for rest in case['rest']:
        grids = [list(case['g0'])] + [list(g) for g in rest]
        d = len(grids)
        if method.startswith('scipy') and not scipy_admissible(method, grids):
            outcomes['inadmissible_scipy_rejects'] += 1
            continue
        pts_all = point_set(grids, _level(d, api))
        fixed = method in FIXED
        # on the generic table a general method is only constrained on nodes and outside the table
        pts_gen = pts_all if fixed else [
            q for q in pts_all if all(coord_class(g, x)[0] != 'interior' for g, x in zip(grids, q))]
        for extrap in (True, False):
            for tkind in ('poly', 'gen'):
                pts = pts_all if tkind == 'poly' else pts_gen
                for mode in _modes(api):
                    cfg = {'api': api, 'method': method, 'grids': grids, 'extrap': extrap,
                           'table': tkind, 'pal': pal, 'mode': mode}
                    ncfg += 1
                    ev, n, oc, fl = run_config(cfg, pts)
                    evals += ev
                    nt += n
                    outcomes.update(oc)
                    for f in fl:
                        # one replayable violation per structural class and worker process is
                        # enough for the triage by signature (minimisation re-runs the code under
                        # test several times, so it is not repeated for thousands of equal cases)
                        raw = '+'.join(sorted(set(
                            _axis_desc(g, x, f['obs'])
                            for g, x in zip(grids, pts[f['i']])))) if f['i'] is not None else 'grp'
                        key = (f['obs'], f['who'], api, mode, raw)
                        _EMITTED[key] += 1
                        if _EMITTED[key] > 1:
                            suppressed += 1
                            continue
                        v = make_violation(cfg, pts, f)
                        if not first_report(v['sig']):
                            suppressed += 1
                            continue
                        vios.append(v)
    return {'evals': evals, 'nontrivial': nt, 'outcome': dict(outcomes), 'violations': vios,
            'counters': {'violating_evaluations_not_minimised_again': suppressed},
            'sample': {'api': api, 'method': method, 'g0': case['g0'], 'n_rest': len(case['rest']),
                       'configs': ncfg, 'e.g. rest': case['rest'][-1] if case['rest'] else None}}


def check_one(case):
    cfg = {k: case[k] for k in ('api', 'method', 'grids', 'extrap', 'table', 'pal', 'mode')}
    pts = [list(p) for p in case['pts']]
    if not pts:
        pts = point_set(cfg['grids'], 'low')[:1]
    ev, n, oc, fl = run_config(cfg, pts)
    vios = []
    for f in fl:
        v = make_violation(cfg, pts, f)
        if not any(w['sig'] == v['sig'] for w in vios):
            vios.append(v)
    return {'evals': ev, 'nontrivial': n, 'outcome': dict(oc), 'violations': vios}


def check_case(case):
    # warnings and NumPy floating-point flags of the code under test are silenced once per case
    with warnings.catch_warnings():
        warnings.simplefilter('ignore')
        old = np.seterr(all='ignore')
        try:
            if case['kind'] == 'one':
                return check_one(case)
            return check_group(case)
        finally:
            np.seterr(**old)


def _chunks(lst, n):
    return [lst[i:i + n] for i in range(0, len(lst), n)]


def cases(tier, seed):
    pal = seed % 4
    quick = tier == 'quick'
    out = []

    def add(api, method, g0, rest):
        if rest:
            out.append({'kind': 'grp', 'api': api, 'method': method, 'g0': g0, 'rest': rest,
                        'pal': pal})

    methods1 = list(GENERAL) + [m for m, (g, dd) in FIXED.items() if dd == 1]
    # ---- 1-D: every grid of every admissible size, InterpND and the structured component
    # (the components cost a Problem set-up per configuration: quick tier uses one grid per
    # size and sign class for them, thorough all grids)
    for api in ('interp', 'comp'):
        for m in methods1:
            kmin = method_info(m)[1]
            gs = all_grids(range(kmin, 6)) if (api == 'interp' or not quick) else \
                family(range(kmin, 6), 1)
            for g in gs:
                add(api, m, g, [[]])
    for api in ('semi', 'semi_tdg'):
        for m in SEMI:
            kmin = GENERAL[m][0]
            gs = family(range(kmin, 6), 2) if quick else all_grids(range(kmin, 6))
            for g in gs:
                add(api, m, g, [[]])

    # ---- 2-D
    methods2 = list(GENERAL) + [m for m, (g, dd) in FIXED.items() if dd == 2]
    for m in methods2:
        kmin = method_info(m)[1]
        if quick or m.startswith('scipy'):
            fam = family(range(kmin, 5), 1 if quick else 2)
        else:
            fam = all_grids(range(kmin, 5))
        for g0 in fam:
            for part in _chunks([[g1] for g1 in fam], 48):
                add('interp', m, g0, part)
        famc = family(range(kmin, 5), 1)
        if quick:
            famc = famc[::3]
        for g0 in famc:
            add('comp', m, g0, [[g1] for g1 in famc])
    for m in SEMI:
        kmin = GENERAL[m][0]
        fams = family(range(kmin, 5), 1)
        if quick:
            fams = fams[::3]
        for api in ('semi', 'semi_tdg'):
            for g0 in fams:
                add(api, m, g0, [[g1] for g1 in fams])

    # ---- 3-D
    methods3 = list(GENERAL) + [m for m, (g, dd) in FIXED.items() if dd == 3]
    for m in methods3:
        kmin = method_info(m)[1]
        fam = family(range(max(kmin, 3), 5), 1)
        if kmin == 2:
            fam = family([2], 1)[:2] + fam
        if quick:
            # eight triples: a rotating diagonal through the family
            k = len(fam)
            trip = [[fam[i % k], fam[(i + 1) % k], fam[(2 * i + 3) % k]] for i in range(8)]
            for t in trip:
                add('interp', m, t[0], [[t[1], t[2]]])
            add('comp', m, trip[0][0], [[trip[0][1], trip[0][2]]])
        else:
            if m.startswith('scipy') or m in ('akima', 'cubic'):
                fam = fam[::2]
            for g0 in fam:
                for g1 in fam:
                    add('interp', m, g0, [[g1, g2] for g2 in fam])
            for i in range(min(6, len(fam))):
                add('comp', m, fam[i], [[fam[(i + 1) % len(fam)], fam[(i + 2) % len(fam)]]])
    for m in SEMI:
        kmin = GENERAL[m][0]
        fam = family(range(max(kmin, 3), 5), 1)
        for i in range(1 if quick else 5):
            add('semi', m, fam[i % len(fam)], [[fam[(i + 1) % len(fam)], fam[(i + 3) % len(fam)]]])
    return out
