"""C16 - interpolation derivatives are exact derivatives of the interpolant (DESIGN.md section 4,
C16).

(a) d/dx: the gradient returned with respect to the query point is compared with the analytic
    gradient of the tensor polynomial (tables of the method's exactness class, where the interpolant
    *is* that polynomial) and with a Richardson-extrapolated 4th-order central difference of the
    values the implementation itself returns (generic tables, points >= 1/8 of a cell away from
    every knot); complex step tightens the band where it is available and agrees with the
    differences.
(b) d/dvalues: for the methods that are linear in the table, the coefficient vector c(x) is obtained
    by evaluating the unit tables e_j (exhaustive over the basis, hence complete for a linear map);
    interp(V)(x) = sum_j V_j c_j(x) and every returned value-gradient (training_gradients,
    MetaModelStructuredComp(training_data_gradients=True) partials, evaluate_spline, SplineComp
    partials) must equal c(x).  Akima is not linear in the table: its value-gradients are compared
    with central differences over the table entries instead.  B-splines additionally against an
    independent Cox-de Boor basis.
"""
import collections
import itertools
import warnings

import numpy as np

SPLINE_APIS = ('spline', 'splinecomp', 'spline_moved', 'splinecomp_moved')

from omv.props.c15_interp_values import (LATTICE, GENERAL, FIXED, all_grids, family, method_info,
                                         make_table, pal_seq, vander, _Raised,
                                         first_report)

ID = 'C16'
LEVEL = 'exploration'
TECHNIQUE = ('bounded exhaustive enumeration of grids x methods x query points; gradients compared '
             'with analytic polynomial gradients, Richardson central differences of the returned '
             'values, and the unit-table basis (complete for a linear map)')
RULE = ('grids: every strictly increasing subset of the lattice {-3,-2,-0.5,0,0.75,2,3.5} of the sizes '
        'a method accepts in 1-D, pairs/triples of a per-size-and-sign-class family in 2-D/3-D; methods:'
        ' all 18 table methods for d/dx, the 8 general methods for d/dvalues, bsplines with num_cp '
        '4..7 x order 2..4; query points at cell fractions 1/8, 1/2, 13/16 of every cell, one lattice '
        'step outside each end, and (polynomial tables) the nodes; one evaluation = one gradient entry'
        ' or one coefficient vector compared; non-trivial = reference derivative / coefficient vector '
        'has at least one entry that is neither 0 nor 1 (so an identity or zero answer cannot pass)')
LEVEL_TEXT = ('Every gradient entry returned for every enumerated (method, grid, point) is compared with '
              'an independent derivative of the values the same object returns; the value-gradient is '
              'checked on the complete unit basis of the table. Exhaustive small-scope exploration is '
              'the right level: the defects are stale caches, flags that switch a derivative branch '
              'off, and per-dimension bookkeeping, all visible on tables with <= 5 points per axis.')
LEVEL_NOTE = ('Derivatives are checked at probe points >= 1/8 cell away from knots (nodes only where the '
              'interpolant is globally polynomial); tables larger than 5 points per axis, more than 3 '
              'dimensions, complex tables and derivatives with respect to the grid are outside the '
              'bound.')
ASSUMPTIONS = [
    'd/dx on generic tables is only judged where two central-difference step sizes agree to 1e-7 '
    '(relative to max|table|/min cell); other points are counted fd_unreliable, not violations',
    'complex step is used as the reference only where it runs and agrees with the differences',
    'linearity in the table is demanded for slinear, lagrange2, lagrange3, cubic, scipy_* and '
    'bsplines; akima is a rational function of the table (statement over-general there), so its '
    'value-gradient is compared with differences over the table entries instead',
    'fixed-dimension variants do not offer value-gradients (documented: _supports_d_dvalues False) '
    'and are only in the d/dx part',
    'bsplines: the basis is the clamped uniform B-spline basis of the given order on the interpolation'
    ' abscissae mapped affinely to [0, 1] (class docstring); x_interp strictly increasing',
    'InterpND.gradient(x) is a public accessor of the query-point gradient and must return the '
    'gradient at x whatever was evaluated before',
]
MIN_NONTRIVIAL = {'quick': 200000, 'thorough': 600000}
CHUNK = 1

LINEAR = ('slinear', 'lagrange2', 'lagrange3', 'cubic', 'scipy_slinear', 'scipy_cubic',
          'scipy_quintic')
_EXT = (-4.5,) + LATTICE + (5.0,)
_EMITTED = collections.Counter()


# ------------------------------------------------------------------ points

def dx_axis_points(g, nodes, level):
    """(coordinate, class) probes of one axis, all >= 1/8 cell away from knots (except nodes)"""
    n = len(g)
    out = []
    for c in range(n - 1):
        w = g[c + 1] - g[c]
        pos = 'first' if c == 0 else ('last' if c == n - 2 else 'mid')
        if n == 2:
            pos = 'only'
        if level == 'full' or n == 2:
            fr = (0.125, 0.5, 0.8125)
        elif level == 'low':
            fr = (0.125, 0.5) if c == 0 else ((0.5, 0.8125) if c == n - 2 else (0.5,))
        else:
            fr = (0.125,) if c == 0 else ((0.8125,) if c == n - 2 else
                                          ((0.5,) if c == (n - 1) // 2 else ()))
        for f in fr:
            out.append((g[c] + f * w, 'interior_' + pos))
    if level != 'min':
        out.append((_EXT[_EXT.index(g[0]) - 1], 'outside_lo'))
    out.append((_EXT[_EXT.index(g[-1]) + 1], 'outside_hi'))
    if nodes:
        for i in (range(n) if level != 'min' else (1,)):
            out.append((g[i], 'node'))
    return out


def dx_points(grids, nodes, level):
    per = [dx_axis_points(g, nodes, level) for g in grids]
    pts, cls = [], []
    for combo in itertools.product(*per):
        pts.append([c[0] for c in combo])
        cls.append([c[1] for c in combo])
    return pts, cls


def cell_width(g, x):
    for c in range(len(g) - 1):
        if g[c] <= x <= g[c + 1]:
            return g[c + 1] - g[c]
    return (g[1] - g[0]) if x < g[0] else (g[-1] - g[-2])


# ------------------------------------------------------------------ objects under test

def mk_interp(method, grids, table, opts=None, **kw):
    from openmdao.components.interp_util.interp import InterpND
    return InterpND(method=method, points=[np.array(g, dtype=float) for g in grids],
                    values=np.array(table), extrapolate=True, **dict(opts or {}, **kw))


def guarded(fn):
    """run fn; an exception of the implementation becomes a _Raised record (warnings and NumPy
    floating-point flags are silenced once per case in check_case)"""
    try:
        return fn()
    except Exception as exc:
        return _Raised(exc)


def mk_comp(method, grids, table, vec, tdg=False):
    import openmdao.api as om
    p = om.Problem(reports=None)
    comp = om.MetaModelStructuredComp(method=method, extrapolate=True, vec_size=vec,
                                      training_data_gradients=tdg)
    names = ['x%d' % i for i in range(len(grids))]
    for nm, g in zip(names, grids):
        comp.add_input(nm, float(g[0]), training_data=np.array(g, dtype=float))
    comp.add_output('f', 1.0, training_data=np.array(table))
    p.model.add_subsystem('c', comp, promotes=['*'])
    p.setup()
    p.final_setup()
    return p, names


# ------------------------------------------------------------------ references

def poly_grad(C, X):
    """analytic gradient of the tensor polynomial, (N, d), and a scale per entry"""
    d = C.ndim
    deg = C.shape[0] - 1
    letters = 'abc'[:d]
    spec = letters + ',' + ','.join('n' + c for c in letters) + '->n'
    V = [vander(X[:, i], deg) for i in range(d)]
    ks = np.arange(deg + 1, dtype=float)
    out = np.zeros((len(X), d))
    scl = np.zeros((len(X), d))
    for a in range(d):
        dV = np.zeros_like(V[a])
        dV[:, 1:] = V[a][:, :-1] * ks[1:]
        W = list(V)
        W[a] = dV
        out[:, a] = np.einsum(spec, C, *W)
        scl[:, a] = np.einsum(spec, np.abs(C), *[np.abs(w) for w in W])
    return out, scl


def _kink(f0, v1, v2):
    """True where a function sampled at 0, +-h (v1 = f(h) + f(-h)) and +-2h (v2) has a kink at 0:
    the second difference S(h) = f(h) + f(-h) - 2 f(0) scales like h**2 for a smooth function
    (S(h)/S(2h) = 1/4) and like h at a kink (1/2).  A central difference averages the two one-sided
    slopes there for every step size, so agreement of two step sizes alone does not reveal it."""
    s1 = np.abs(v1 - 2 * f0)
    s2 = np.abs(v2 - 2 * f0)
    return (s1 > 0.3 * s2) & (s2 > 1e-9 * np.maximum(1.0, np.abs(f0)))


def fd_reference(f, p, grids, a):
    """Richardson-extrapolated 4th-order central difference of f along axis a; returns
    (derivative, disagreement of the two step sizes; inf at a kink) or None if f raises"""
    w = cell_width(grids[a], p[a])
    est = []
    f0 = f(np.array(p, dtype=float))
    if f0 is None:
        return None
    kink = False
    for h in (w / 64.0, w / 128.0):
        v = []
        for k in (2, 1, -1, -2):
            q = np.array(p, dtype=float)
            q[a] += k * h
            r = f(q)
            if r is None:
                return None
            v.append(r)
        est.append((-v[0] + 8 * v[1] - 8 * v[2] + v[3]) / (12 * h))
        kink = kink or bool(_kink(f0, v[1] + v[2], v[0] + v[3]))
    dis = abs(est[1] - est[0])
    return est[1] + (est[1] - est[0]) / 15.0, (float('inf') if kink else dis)


def cs_reference(obj, p, a):
    """complex-step derivative through interpolate (None when the method is not complex safe)"""
    q = np.array(p, dtype=complex).reshape(1, -1)
    q[0, a] += 1e-30j
    r = guarded(lambda: obj.interpolate(q))
    if isinstance(r, _Raised):
        return None
    r = np.asarray(r).ravel()
    if r.size != 1 or not np.iscomplexobj(r):
        return None
    return float(r[0].imag / 1e-30)


# ------------------------------------------------------------------ (a) d/dx

DX_TOL_POLY = 1e-9
DX_TOL_FD = 2e-8
DX_TOL_CS = 1e-9
TOL_MULT = {'3D-lagrange3': 500.0, '2D-lagrange3': 20.0, '3D-lagrange2': 20.0}


def dx_config(cfg, pts):
    """gradient w.r.t. the query point for the points `pts`.  Returns evals, nontrivial, outcomes,
    fails (dict i, a, obs, who, msg)"""
    api, method, grids = cfg['api'], cfg['method'], cfg['grids']
    tkind, pal, mode, opts = cfg['table'], cfg['pal'], cfg['mode'], cfg.get('opts') or {}
    gen, kmin, deg, fdim = method_info(method)
    d = len(grids)
    P = np.array(pts, dtype=float).reshape(len(pts), d)
    N = len(P)
    outcomes = collections.Counter()
    fails = []
    table, C = make_table(grids, tkind, deg, pal)
    tscale = max(float(np.max(np.abs(table))), 1.0)
    mult = TOL_MULT.get(method, 1.0)

    # ---- derivative returned by the implementation
    got = np.full((N, d), np.nan)
    raised = [None] * N

    def from_interp():
        if mode == 'batch':
            t = mk_interp(method, grids, table, opts)
            rows = P if N > 1 else np.vstack([P, P])
            r = guarded(lambda: t.interpolate(rows.copy(), compute_derivative=True))
            if isinstance(r, _Raised):
                for i in range(N):
                    raised[i] = r
                return
            g = np.asarray(r[1], dtype=float).reshape(len(rows), d)
            got[:] = g[:N]
        elif mode == 'single':
            t = mk_interp(method, grids, table, opts)
            for i in range(N):
                r = guarded(lambda: t.interpolate(P[[i]].copy(), compute_derivative=True))
                if isinstance(r, _Raised):
                    raised[i] = r
                    t = mk_interp(method, grids, table, opts)
                else:
                    got[i] = np.asarray(r[1], dtype=float).reshape(d)
        else:   # 'gradient': accessor called for a point other than the one last interpolated
            for i in range(N):
                t = mk_interp(method, grids, table, opts)
                # (a fixed benign point of the first cell: never one of the probes)
                prev = np.array([g[0] + 0.375 * (g[1] - g[0]) for g in grids])

                def run():
                    # 'gradient_same': the value at the same point was computed before, without
                    # asking for derivatives
                    first = P[[i]] if mode == 'gradient_same' else prev.reshape(1, -1)
                    t.interpolate(first.copy())
                    return t.gradient(P[[i]].copy())
                r = guarded(run)
                if isinstance(r, _Raised):
                    raised[i] = r
                else:
                    got[i] = np.asarray(r, dtype=float).reshape(d)

    def from_comp():
        vec = 3 if mode == 'vec3' else 1
        r0 = guarded(lambda: mk_comp(method, grids, table, vec))
        if isinstance(r0, _Raised):
            for i in range(N):
                raised[i] = r0
            return
        p, names = r0
        for j in range(0, N, vec):
            rows = list(range(j, min(j + vec, N)))
            while len(rows) < vec:
                rows.append(rows[-1])

            def run():
                for a, nm in enumerate(names):
                    p.set_val(nm, P[rows, a])
                p.run_model()
                return p.compute_totals(of=['f'], wrt=names)
            r = guarded(run)
            if isinstance(r, _Raised):
                blamed = False
                for i in sorted(set(rows)):
                    rows1 = [i] * vec
                    p, names = mk_comp(method, grids, table, vec)

                    def run1():
                        for a, nm in enumerate(names):
                            p.set_val(nm, P[rows1, a])
                        p.run_model()
                        return p.compute_totals(of=['f'], wrt=names)
                    r1 = guarded(run1)
                    if isinstance(r1, _Raised):
                        raised[i] = r1
                        blamed = True
                    else:
                        for a, nm in enumerate(names):
                            got[i, a] = np.asarray(r1[('f', nm)], dtype=float).reshape(vec, vec)[0, 0]
                if not blamed:
                    fails.append({'i': rows[0], 'a': 0, 'grp': sorted(set(rows)),
                                  'obs': 'dx_raises', 'who': r.where,
                                  'msg': 'only as a group of rows: %s: %s' % (r.type, r.msg)})
                p, names = mk_comp(method, grids, table, vec)
                continue
            for a, nm in enumerate(names):
                J = np.asarray(r[('f', nm)], dtype=float).reshape(vec, vec)
                off = J - np.diag(np.diag(J))
                if np.any(off != 0.0):
                    fails.append({'i': rows[0], 'a': a, 'obs': 'dx_cross_talk', 'who': method,
                                  'msg': 'off-diagonal partial between vec entries: %s' %
                                  J.tolist()})
                for k, i in enumerate(rows):
                    got[i, a] = J[k, k]

    (from_interp if api == 'interp' else from_comp)()

    # ---- reference
    evals = nt = 0
    if tkind == 'poly':
        ref, scl = poly_grad(C, P)
    fobj = None
    for i in range(N):
        if raised[i] is not None:
            r = raised[i]
            outcomes['violation'] += 1
            evals += 1
            fails.append({'i': i, 'a': 0, 'obs': 'dx_raises', 'who': r.where,
                          'msg': '%s: %s' % (r.type, r.msg)})
            continue
        for a in range(d):
            evals += 1
            if tkind == 'poly':
                want = ref[i, a]
                tol = DX_TOL_POLY * mult * max(scl[i, a], tscale)
                src = 'poly'
            else:
                if fobj is None:
                    fobj = mk_interp(method, grids, table, opts)

                def f(q):
                    r = guarded(lambda: fobj.interpolate(q.reshape(1, -1)))
                    if isinstance(r, _Raised):
                        return None
                    return float(np.asarray(r).ravel()[0])
                fd = fd_reference(f, P[i], grids, a)
                if fd is None:
                    fobj = mk_interp(method, grids, table, opts)
                    outcomes['reference_unavailable'] += 1
                    continue
                want, dis = fd
                unit = tscale / min(g[k + 1] - g[k] for g in grids for k in range(len(g) - 1))
                if not dis <= 1e-7 * unit:
                    outcomes['fd_unreliable'] += 1
                    continue
                tol = DX_TOL_FD * mult * unit + 10 * dis
                src = 'fd'
                cs = cs_reference(fobj, P[i], a)
                if cs is not None and abs(cs - want) <= tol:
                    want, tol, src = cs, DX_TOL_CS * mult * unit, 'cs'
            if want != 0.0 and want != 1.0:
                nt += 1
            if abs(got[i, a] - want) <= tol:
                outcomes['dx_ok_' + src] += 1
            else:
                outcomes['violation'] += 1
                fails.append({'i': i, 'a': a, 'obs': 'dx_value', 'who': method,
                              'msg': 'd/dx%d got %r expected %r (%s, tol %.1e)' % (
                                  a, float(got[i, a]), float(want), src, tol)})
    return evals, nt, outcomes, fails


# ------------------------------------------------------------------ (b) d/dvalues

DV_TOL = 1e-10


def unit_coeffs(method, grids, P, opts):
    """coefficient vectors c(x) for the rows of P from the unit tables (linear methods)"""
    shape = tuple(len(g) for g in grids)
    n = int(np.prod(shape))
    Cm = np.zeros((len(P), n))
    for j in range(n):
        e = np.zeros(n)
        e[j] = 1.0
        t = mk_interp(method, grids, e.reshape(shape), opts)
        for i in range(len(P)):
            Cm[i, j] = float(np.asarray(t.interpolate(P[[i]].copy())).ravel()[0])
    return Cm


def fd_coeffs(method, grids, table, P, opts):
    """d interp / d table_j by Richardson central differences over the table entries (akima);
    returns (coefficients, reliable mask)"""
    shape = table.shape
    n = table.size
    Cm = np.zeros((len(P), n))
    ok = np.ones((len(P), n), dtype=bool)
    t0 = mk_interp(method, grids, table, opts)
    f0 = np.array([float(np.asarray(t0.interpolate(P[[i]].copy())).ravel()[0])
                   for i in range(len(P))])
    for j in range(n):
        est = []
        kink = np.zeros(len(P), dtype=bool)
        for h in (1.0 / 256, 1.0 / 512):
            v = []
            for k in (2, 1, -1, -2):
                tb = table.copy().ravel()
                tb[j] += k * h
                t = mk_interp(method, grids, tb.reshape(shape), opts)
                v.append(np.array([float(np.asarray(t.interpolate(P[[i]].copy())).ravel()[0])
                                   for i in range(len(P))]))
            est.append((-v[0] + 8 * v[1] - 8 * v[2] + v[3]) / (12 * h))
            kink |= _kink(f0, v[1] + v[2], v[0] + v[3])
        Cm[:, j] = est[1] + (est[1] - est[0]) / 15.0
        ok[:, j] = (np.abs(est[1] - est[0]) <= 1e-7) & ~kink
    return Cm, ok


def dv_config(cfg, pts):
    """gradient w.r.t. the table values (and linearity) for the points `pts`"""
    api, method, grids = cfg['api'], cfg['method'], cfg['grids']
    pal, opts, vec = cfg['pal'], cfg.get('opts') or {}, cfg.get('vec', 1)
    d = len(grids)
    P = np.array(pts, dtype=float).reshape(len(pts), d)
    N = len(P)
    outcomes = collections.Counter()
    fails = []
    table, _ = make_table(grids, 'gen', 1, pal)
    n = table.size
    linear = method in LINEAR
    tscale = max(float(np.max(np.abs(table))), 1.0)

    r = guarded(lambda: unit_coeffs(method, grids, P, opts) if linear else
                fd_coeffs(method, grids, table, P, opts))
    if isinstance(r, _Raised):
        return 1, 0, collections.Counter({'reference_unavailable': 1}), []
    if linear:
        Cm, ok = r, np.ones((N, n), dtype=bool)
        tol = DV_TOL
    else:
        Cm, ok = r
        tol = 1e-6
    evals = nt = 0

    def compare(i, gotvec, how):
        nonlocal evals, nt
        evals += 1
        gotvec = np.asarray(gotvec, dtype=float).ravel()
        if gotvec.size != n:
            outcomes['violation'] += 1
            fails.append({'i': i, 'obs': 'dv_shape', 'who': method,
                          'msg': '%s: %d entries for a table of %d' % (how, gotvec.size, n)})
            return
        m = ok[i]
        if not m.all():
            outcomes['fd_unreliable_entries'] += int((~m).sum())
        if np.sum((np.abs(Cm[i]) > 1e-12) & (np.abs(Cm[i] - 1.0) > 1e-12)) >= 1:
            nt += 1
        err = np.abs(gotvec - Cm[i])
        err[~m] = 0.0
        if not np.all(err <= tol * max(1.0, float(np.max(np.abs(Cm[i]))))):
            j = int(np.argmax(err))
            outcomes['violation'] += 1
            fails.append({'i': i, 'obs': 'dv_value', 'who': method,
                          'msg': '%s: d/dvalue[%d] got %r expected %r' % (
                              how, j, float(gotvec[j]), float(Cm[i, j]))})
        else:
            outcomes['dv_ok_' + how] += 1

    def raised(i, r, how):
        nonlocal evals
        evals += 1
        outcomes['violation'] += 1
        fails.append({'i': i, 'obs': 'dv_raises', 'who': r.where,
                      'msg': '%s: %s: %s' % (how, r.type, r.msg)})

    if api == 'interp':
        t = mk_interp(method, grids, table, opts)
        for i in range(N):
            # linearity: interp(V)(x) = sum_j V_j c_j(x)
            if linear:
                v = guarded(lambda: float(np.asarray(t.interpolate(P[[i]].copy())).ravel()[0]))
                evals += 1
                if isinstance(v, _Raised):
                    raised(i, v, 'interpolate')
                else:
                    want = float(Cm[i] @ table.ravel())
                    bound = DV_TOL * max(float(np.abs(Cm[i]) @ np.abs(table.ravel())), tscale)
                    if abs(v - want) <= bound:
                        outcomes['linear_ok'] += 1
                    else:
                        outcomes['violation'] += 1
                        fails.append({'i': i, 'obs': 'not_linear_in_values', 'who': method,
                                      'msg': 'interp %r, sum V_j c_j %r' % (v, want)})
                g = guarded(lambda: t.training_gradients(P[i].copy()))
                if isinstance(g, _Raised):
                    raised(i, g, 'training_gradients')
                else:
                    compare(i, g, 'training_gradients')
            else:
                # akima: the cached _d_dvalues of an evaluation with value-gradients switched on
                def run():
                    t2 = mk_interp(method, grids, table, opts)
                    t2._compute_d_dvalues = True
                    t2._interpolate(P[[i]].copy())
                    return t2._d_dvalues
                g = guarded(run)
                if isinstance(g, _Raised):
                    raised(i, g, '_d_dvalues')
                elif g is None:
                    outcomes['no_value_gradient_offered'] += 1
                else:
                    compare(i, g, '_d_dvalues')
    elif api == 'comp':
        r0 = guarded(lambda: mk_comp(method, grids, table, vec, tdg=True))
        if isinstance(r0, _Raised):
            raised(0, r0, 'setup')
            return evals, nt, outcomes, fails
        p, names = r0
        for j in range(0, N, vec):
            rows = list(range(j, min(j + vec, N)))
            while len(rows) < vec:
                rows.append(rows[-1])

            def run():
                for a, nm in enumerate(names):
                    p.set_val(nm, P[rows, a])
                p.set_val('f_train', table)
                p.run_model()
                return (np.asarray(p.get_val('f'), dtype=float).copy(),
                        p.compute_totals(of=['f'], wrt=['f_train']))
            r = guarded(run)
            if isinstance(r, _Raised):
                # attribute the refusal to the rows that are refused on their own
                blamed = False
                for i in sorted(set(rows)):
                    rows1 = [i] * vec
                    p, names = mk_comp(method, grids, table, vec, tdg=True)

                    def run1():
                        for a, nm in enumerate(names):
                            p.set_val(nm, P[rows1, a])
                        p.set_val('f_train', table)
                        p.run_model()
                        return p.compute_totals(of=['f'], wrt=['f_train'])
                    r1 = guarded(run1)
                    if isinstance(r1, _Raised):
                        raised(i, r1, 'comp_tdg')
                        blamed = True
                    else:
                        compare(i, np.asarray(r1[('f', 'f_train')], dtype=float).reshape(vec, n)[0],
                                'comp_partials')
                if not blamed:
                    raised(rows[0], r, 'comp_tdg')
                    fails[-1]['grp'] = sorted(set(rows))
                p, names = mk_comp(method, grids, table, vec, tdg=True)
                continue
            J = np.asarray(r[1][('f', 'f_train')], dtype=float).reshape(vec, n)
            for k, i in enumerate(rows[:len(set(rows))]):
                compare(i, J[k], 'comp_partials')
    elif api in SPLINE_APIS:
        # 1-D only: the rows of P are the fixed x_interp locations
        x = P[:, 0].copy()
        g = np.array(grids[0], dtype=float)
        V = np.array([pal_seq(n, pal + k, 1) for k in range(vec)])
        # '_moved': the same object is first evaluated at other locations of the same length (the
        # locations rotated by one), then x_interp is replaced and it is evaluated again
        moved = api.endswith('_moved')
        x_first = np.roll(x, 1) if moved else x
        if api.startswith('spline_') or api == 'spline':
            from openmdao.components.interp_util.interp import InterpND

            def run():
                t = InterpND(method=method, points=g, x_interp=x_first.copy(), **opts)
                if moved:
                    t.evaluate_spline(V.copy() if vec > 1 else V[0].copy(), compute_derivative=True)
                    t.x_interp = x.copy()
                return t.evaluate_spline(V.copy() if vec > 1 else V[0].copy(),
                                         compute_derivative=True)
        else:
            import openmdao.api as om

            def run():
                p = om.Problem(reports=None)
                c = om.SplineComp(method=method, x_cp_val=g, x_interp_val=x_first.copy(),
                                  vec_size=vec, interp_options=dict(opts))
                c.add_spline('ycp', 'y', y_cp_val=V.copy())
                p.model.add_subsystem('c', c, promotes=['*'])
                p.setup()
                p.run_model()
                if moved:
                    p.compute_totals(of=['y'], wrt=['ycp'])
                    c.options['x_interp_val'] = x.copy()
                    p.run_model()
                y = np.asarray(p.get_val('y'), dtype=float).copy()
                J = p.compute_totals(of=['y'], wrt=['ycp'])[('y', 'ycp')]
                J = np.asarray(J, dtype=float).reshape(vec, N, vec, n)
                for k in range(vec):
                    for m in range(vec):
                        if k != m and np.any(J[k, :, m, :] != 0.0):
                            raise AssertionError('cross-talk between vec rows in SplineComp partials')
                return y, np.array([J[k, :, k, :] for k in range(vec)])
        r = guarded(run)
        if isinstance(r, _Raised):
            raised(0, r, api)
            return evals, nt, outcomes, fails
        y = np.asarray(r[0], dtype=float).reshape(vec, N)
        D = np.asarray(r[1], dtype=float)
        if D.size != vec * N * n:
            evals += 1
            outcomes['violation'] += 1
            fails.append({'i': 0, 'obs': 'dv_shape', 'who': method,
                          'msg': '%s: gradient shape %s for vec=%d, %d points, %d values' % (
                              api, D.shape, vec, N, n)})
            return evals, nt, outcomes, fails
        D = D.reshape(vec, N, n)
        for k in range(vec):
            if not linear:
                # akima's gradient depends on the row's values: reference per row
                rr = guarded(lambda: fd_coeffs(method, grids, V[k], P, opts))
                if isinstance(rr, _Raised):
                    outcomes['reference_unavailable'] += 1
                    continue
                Cm, ok = rr
            for i in range(N):
                compare(i, D[k, i], api)
                if linear:
                    evals += 1
                    want = float(Cm[i] @ V[k])
                    if abs(y[k, i] - want) <= DV_TOL * max(float(np.abs(Cm[i]) @ np.abs(V[k])), 1.0):
                        outcomes['linear_ok'] += 1
                    else:
                        outcomes['violation'] += 1
                        fails.append({'i': i, 'obs': 'not_linear_in_values', 'who': method,
                                      'msg': '%s row %d: value %r, sum V_j c_j %r' % (
                                          api, k, float(y[k, i]), want)})
    return evals, nt, outcomes, fails


# ------------------------------------------------------------------ bsplines

def bspline_basis(num_cp, order, t):
    """Cox-de Boor: clamped uniform B-spline basis of the given order (degree order-1) at the
    parameters t in [0, 1]; (len(t), num_cp)"""
    k = order - 1
    nint = num_cp - k
    knots = np.concatenate([np.zeros(k), np.linspace(0.0, 1.0, nint + 1), np.ones(k)])
    B = np.zeros((len(t), num_cp))
    for r, tv in enumerate(t):
        # degree-0 basis: the knot span that contains tv (last non-empty span for tv == 1)
        N0 = np.zeros(len(knots) - 1)
        span = None
        for s in range(len(knots) - 1):
            if knots[s] < knots[s + 1] and knots[s] <= tv < knots[s + 1]:
                span = s
        if span is None:
            span = max(s for s in range(len(knots) - 1) if knots[s] < knots[s + 1])
        N0[span] = 1.0
        Nk = N0
        for deg in range(1, k + 1):
            Nn = np.zeros(len(knots) - 1 - deg)
            for s in range(len(Nn)):
                a = b = 0.0
                den1 = knots[s + deg] - knots[s]
                den2 = knots[s + deg + 1] - knots[s + 1]
                if den1 > 0:
                    a = (tv - knots[s]) / den1 * Nk[s]
                if den2 > 0:
                    b = (knots[s + deg + 1] - tv) / den2 * Nk[s + 1]
                Nn[s] = a + b
            Nk = Nn
        B[r] = Nk
    return B


def bs_config(cfg):
    api, num_cp, order, vec, pal = cfg['api'], cfg['num_cp'], cfg['order'], cfg['vec'], cfg['pal']
    x = np.array(cfg['x'], dtype=float)
    N = len(x)
    outcomes = collections.Counter()
    fails = []
    V = np.array([pal_seq(num_cp, pal + k, 1) for k in range(vec)])
    t = (x - x[0]) / (x[-1] - x[0])
    Bref = bspline_basis(num_cp, order, t)

    def evaluate(vals):
        if api == 'spline':
            from openmdao.components.interp_util.interp import InterpND
            tt = InterpND(method='bsplines', num_cp=num_cp, x_interp=x.copy(), order=order)
            y, D = tt.evaluate_spline(vals.copy() if len(vals) > 1 else vals[0].copy(),
                                      compute_derivative=True)
            return np.asarray(y, dtype=float), np.asarray(D, dtype=float)
        import openmdao.api as om
        p = om.Problem(reports=None)
        c = om.SplineComp(method='bsplines', num_cp=num_cp, x_interp_val=x.copy(),
                          vec_size=len(vals), interp_options={'order': order})
        c.add_spline('ycp', 'y', y_cp_val=vals.copy())
        p.model.add_subsystem('c', c, promotes=['*'])
        p.setup()
        p.run_model()
        y = np.asarray(p.get_val('y'), dtype=float).copy()
        J = np.asarray(p.compute_totals(of=['y'], wrt=['ycp'])[('y', 'ycp')], dtype=float)
        J = J.reshape(len(vals), N, len(vals), num_cp)
        for k in range(len(vals)):
            for m in range(len(vals)):
                if k != m and np.any(J[k, :, m, :] != 0.0):
                    raise AssertionError('cross-talk between vec rows in SplineComp partials')
        return y, np.array([J[k, :, k, :] for k in range(len(vals))])

    evals = nt = 0
    r = guarded(lambda: evaluate(V))
    evals += 1
    if isinstance(r, _Raised):
        outcomes['violation'] += 1
        fails.append({'obs': 'dv_raises', 'who': r.where, 'msg': '%s: %s' % (r.type, r.msg)})
        return evals, nt, outcomes, fails
    y, D = r
    if y.size != vec * N or D.size != vec * N * num_cp:
        outcomes['violation'] += 1
        fails.append({'obs': 'dv_shape', 'who': 'bsplines',
                      'msg': 'value shape %s gradient shape %s' % (y.shape, D.shape)})
        return evals, nt, outcomes, fails
    y = y.reshape(vec, N)
    D = D.reshape(vec, N, num_cp)
    # the unit control vectors give the coefficient matrix (complete for a linear map)
    Cm = np.zeros((N, num_cp))
    for j in range(num_cp):
        e = np.zeros((1, num_cp))
        e[0, j] = 1.0
        rj = guarded(lambda: evaluate(e))
        if isinstance(rj, _Raised):
            outcomes['reference_unavailable'] += 1
            return evals, nt, outcomes, fails
        Cm[:, j] = np.asarray(rj[0]).ravel()
    for k in range(vec):
        for i in range(N):
            evals += 3
            nt += int(np.sum((np.abs(Cm[i]) > 1e-12) & (np.abs(Cm[i] - 1) > 1e-12)) >= 1)
            if np.all(np.abs(D[k, i] - Cm[i]) <= DV_TOL):
                outcomes['dv_ok_' + api] += 1
            else:
                outcomes['violation'] += 1
                fails.append({'obs': 'dv_value', 'who': 'bsplines',
                              'msg': 'row %d point %d: gradient %s, unit-table coefficients %s' % (
                                  k, i, D[k, i].tolist(), Cm[i].tolist())})
            if abs(y[k, i] - Cm[i] @ V[k]) <= DV_TOL * max(1.0, float(np.abs(Cm[i]) @ np.abs(V[k]))):
                outcomes['linear_ok'] += 1
            else:
                outcomes['violation'] += 1
                fails.append({'obs': 'not_linear_in_values', 'who': 'bsplines',
                              'msg': 'row %d point %d: value %r, sum V_j c_j %r' % (
                                  k, i, float(y[k, i]), float(Cm[i] @ V[k]))})
            if np.all(np.abs(Cm[i] - Bref[i]) <= 1e-10):
                outcomes['basis_ok'] += 1
            else:
                outcomes['violation'] += 1
                fails.append({'obs': 'bspline_basis', 'who': 'bsplines',
                              'msg': 'point %d (t=%r): coefficients %s, Cox-de Boor %s' % (
                                  i, float(t[i]), Cm[i].tolist(), Bref[i].tolist())})
    return evals, nt, outcomes, fails


# ------------------------------------------------------------------ violations

def _desc_dx(cfg, p, cls, a):
    return '%dD:axis%d:%s' % (len(cfg['grids']), a, cls[a])


def _point_classes(grids, p):
    out = []
    for g, x in zip(grids, p):
        n = len(g)
        if x < g[0]:
            out.append('outside_lo')
        elif x > g[-1]:
            out.append('outside_hi')
        elif x in g:
            out.append('node')
        else:
            c = max(k for k in range(n - 1) if g[k] < x)
            out.append('interior_' + ('only' if n == 2 else 'first' if c == 0 else
                                      'last' if c == n - 2 else 'mid'))
    return out


def _violation(cfg, p, f):
    cfgc = {k: v for k, v in cfg.items() if not k.startswith('_')}
    grids = cfg['grids']
    cls = _point_classes(grids, p)
    opt = ''.join(',%s=%s' % kv for kv in sorted((cfg.get('opts') or {}).items()))
    mode = cfg.get('mode', 'vec%d' % cfg.get('vec', 1))
    if f['obs'].endswith('_raises') or f['obs'].endswith('_shape'):
        # an exception is identified by where it is raised; only the table rank is added
        desc = '%dD' % len(grids)
        if cfg['kind0'] == 'dx' and len(grids) == 1:
            desc += ':' + cls[0]
    elif cfg['kind0'] == 'dx':
        desc = '%dD:axis%d:%s' % (len(grids), f.get('a', 0), cls[f.get('a', 0)])
    else:
        # value-gradient: the table rank and whether the point extrapolates
        desc = '%dD:%s' % (len(grids), 'extrapolated' if any(c.startswith('outside') for c in cls)
                           else 'inside')
    sig = 'C16:%s:%s%s:%s/%s:%s' % (f['obs'], f['who'], opt, cfg['api'], mode, desc)
    case = dict(cfgc, kind='one', pts=[[float(x) for x in p]])
    return {'sig': sig, 'case': case,
            'msg': '%s method=%s%s grids=%s api=%s mode=%s point=%s: %s' % (
                f['obs'], cfg['method'], opt, grids, cfg['api'], mode, list(map(float, p)),
                f['msg'])}


def _run(cfg, pts):
    if cfg['kind0'] == 'dx':
        return dx_config(cfg, pts)
    return dv_config(cfg, pts)


def _collect(cfg, pts, fl, vios, dedupe):
    sup = 0
    for f in fl:
        i = f.get('i', 0) or 0
        p = pts[i]
        if cfg['kind0'] == 'dv' and cfg['api'] in SPLINE_APIS:
            # the whole x_interp vector is the input of these APIs
            v = _violation(cfg, p, f)
            v['case']['pts'] = [[float(x) for x in q] for q in pts]
        else:
            v = _violation(cfg, p, f)
            if f.get('grp'):
                v['case']['pts'] = [[float(x) for x in pts[k]] for k in f['grp']]
        if dedupe:
            _EMITTED[v['sig']] += 1
            if _EMITTED[v['sig']] > 1 or not first_report(v['sig']):
                sup += 1
                continue
        if not any(w['sig'] == v['sig'] for w in vios):
            vios.append(v)
    return sup


# ------------------------------------------------------------------ cases

def check_group(case):
    kind0, api, method, pal = case['kind0'], case['api'], case['method'], case['pal']
    outcomes = collections.Counter()
    evals = nt = sup = 0
    vios = []
    for rest in case['rest']:
        grids = [list(case['g0'])] + [list(g) for g in rest]
        d = len(grids)
        if method.startswith('scipy'):
            from omv.props.c15_interp_values import scipy_admissible
            if not scipy_admissible(method, grids):
                outcomes['inadmissible_scipy_rejects'] += 1
                continue
        cfgs = []
        optlist = [{}] if method_info(method)[0] != 'akima' or method in FIXED else \
            [{}, {'delta_x': 0.5}]
        level = 'full' if d == 1 else ('low' if d == 2 else 'min')
        if kind0 == 'dx':
            for tkind in ('poly', 'gen'):
                pts, _ = dx_points(grids, tkind == 'poly', level)
                if api == 'interp':
                    modes = ('batch', 'single', 'gradient', 'gradient_same')
                else:
                    # (compute_totals per call dominates: one vec_size per table kind)
                    modes = ('vec3',) if tkind == 'poly' else ('vec1',)
                for mode in modes:
                    for opts in (optlist if api == 'interp' else [{}]):
                        cfgs.append((dict(kind0='dx', api=api, method=method, grids=grids,
                                          table=tkind, pal=pal, mode=mode, opts=opts), pts))
        else:
            pts, _ = dx_points(grids, True, level)
            if api in SPLINE_APIS:
                pts = sorted(pts)
                for vec in (1, 2, len(pts)) if api.startswith('splinecomp') else (1, 2):
                    for opts in optlist:
                        cfgs.append((dict(kind0='dv', api=api, method=method, grids=grids, pal=pal,
                                          vec=vec, opts=opts), pts))
            elif api == 'comp':
                for vec in ((1, 3) if d < 3 else (3,)):
                    cfgs.append((dict(kind0='dv', api=api, method=method, grids=grids, pal=pal,
                                      vec=vec, opts={}), pts))
            else:
                for opts in optlist:
                    cfgs.append((dict(kind0='dv', api=api, method=method, grids=grids, pal=pal,
                                      vec=1, opts=opts), pts))
        for cfg, pts in cfgs:
            ev, n, oc, fl = _run(cfg, pts)
            evals += ev
            nt += n
            outcomes.update(oc)
            sup += _collect(cfg, pts, fl, vios, True)
    return {'evals': evals, 'nontrivial': nt, 'outcome': dict(outcomes), 'violations': vios,
            'counters': {'violating_evaluations_not_reported_again': sup},
            'sample': {'kind': kind0, 'api': api, 'method': method, 'g0': case['g0'],
                       'n_rest': len(case['rest'])}}


def _bs_sig(f, api, order, rel):
    if f['obs'].endswith('_raises') or f['obs'].endswith('_shape'):
        return 'C16:%s:%s:bsplines/%s:%s' % (f['obs'], f['who'], api, rel)
    return 'C16:%s:%s:bsplines/%s:order%d:%s' % (f['obs'], f['who'], api, order, rel)


def check_bs(case):
    outcomes = collections.Counter()
    evals = nt = 0
    vios = []
    for x in case['xs']:
        for vec in case['vecs']:
            if vec == 'n':
                vec = len(x)
            cfg = {'api': case['api'], 'num_cp': case['num_cp'], 'order': case['order'],
                   'vec': vec, 'pal': case['pal'], 'x': list(x)}
            ev, n, oc, fl = bs_config(cfg)
            evals += ev
            nt += n
            outcomes.update(oc)
            for f in fl:
                rel = 'vec==npts' if vec == len(x) else ('vec1' if vec == 1 else 'vec>1')
                sig = _bs_sig(f, case['api'], case['order'], rel)
                if not any(w['sig'] == sig for w in vios) and first_report(sig):
                    vios.append({'sig': sig, 'case': dict(cfg, kind='bs1'),
                                 'msg': '%s bsplines num_cp=%d order=%d vec=%d x_interp=%s: %s' % (
                                     f['obs'], case['num_cp'], case['order'], vec, list(x),
                                     f['msg'])})
    return {'evals': evals, 'nontrivial': nt, 'outcome': dict(outcomes), 'violations': vios,
            'sample': {k: case[k] for k in ('kind', 'api', 'num_cp', 'order')}}


def check_case(case):
    with warnings.catch_warnings():
        warnings.simplefilter('ignore')
        old = np.seterr(all='ignore')
        try:
            return _check_case(case)
        finally:
            np.seterr(**old)


def _check_case(case):
    kind = case['kind']
    if kind == 'grp':
        return check_group(case)
    if kind == 'bs':
        return check_bs(case)
    if kind == 'bs1':
        ev, n, oc, fl = bs_config(case)
        vios = []
        for f in fl:
            vec, x = case['vec'], case['x']
            rel = 'vec==npts' if vec == len(x) else ('vec1' if vec == 1 else 'vec>1')
            sig = _bs_sig(f, case['api'], case['order'], rel)
            if not any(w['sig'] == sig for w in vios):
                vios.append({'sig': sig, 'case': case, 'msg': f['msg']})
        return {'evals': ev, 'nontrivial': n, 'outcome': dict(oc), 'violations': vios}
    # replay of one point of one configuration
    cfg = {k: v for k, v in case.items() if k not in ('kind', 'pts')}
    pts = [list(p) for p in case['pts']]
    ev, n, oc, fl = _run(cfg, pts)
    vios = []
    _collect(cfg, pts, fl, vios, False)
    return {'evals': ev, 'nontrivial': n, 'outcome': dict(oc), 'violations': vios}


def cases(tier, seed):
    pal = seed % 4
    quick = tier == 'quick'
    out = []

    def add(kind0, api, method, g0, rest):
        if rest:
            out.append({'kind': 'grp', 'kind0': kind0, 'api': api, 'method': method, 'g0': g0,
                        'rest': rest, 'pal': pal})

    def fixed_of(dim):
        return [m for m, (g, dd) in FIXED.items() if dd == dim]

    # ---- 1-D: all grids
    for m in list(GENERAL) + fixed_of(1):
        kmin = method_info(m)[1]
        for g in all_grids(range(kmin, 6)):
            add('dx', 'interp', m, g, [[]])
        for g in (family(range(kmin, 6), 1) if quick else all_grids(range(kmin, 6))):
            add('dx', 'comp', m, g, [[]])
    for m in GENERAL:
        kmin = GENERAL[m][0]
        for g in all_grids(range(kmin, 6)):
            add('dv', 'interp', m, g, [[]])
            add('dv', 'spline', m, g, [[]])
            add('dv', 'spline_moved', m, g, [[]])
        for g in (family(range(kmin, 6), 1) if quick else all_grids(range(kmin, 6))):
            add('dv', 'comp', m, g, [[]])
            add('dv', 'splinecomp', m, g, [[]])
            add('dv', 'splinecomp_moved', m, g, [[]])

    # ---- 2-D: pairs of a family
    for m in list(GENERAL) + fixed_of(2):
        kmin = method_info(m)[1]
        slow = m.startswith('scipy') or m in ('akima', 'cubic')
        fam = family(range(kmin, 5), 1 if (quick or slow) else 2)
        if quick:
            fam = fam[::2]
        for g0 in fam:
            add('dx', 'interp', m, g0, [[g1] for g1 in fam])
        famc = fam[::2] if quick else fam[::3]
        for g0 in famc:
            add('dx', 'comp', m, g0, [[g1] for g1 in famc])
    for m in GENERAL:
        kmin = GENERAL[m][0]
        fam = family(range(kmin, 5), 1)
        if quick:
            fam = fam[::2]
        for g0 in fam:
            add('dv', 'interp', m, g0, [[g1] for g1 in fam])
        for g0 in fam[::3]:
            add('dv', 'comp', m, g0, [[g1] for g1 in fam[::3]])

    # ---- 3-D
    for m in list(GENERAL) + fixed_of(3):
        kmin = method_info(m)[1]
        fam = family(range(max(kmin, 3), 5), 1)
        k = len(fam)
        ntrip = 2 if quick else 8
        for i in range(ntrip):
            add('dx', 'interp', m, fam[i % k], [[fam[(i + 1) % k], fam[(2 * i + 3) % k]]])
        add('dx', 'comp', m, fam[0], [[fam[1 % k], fam[3 % k]]])
        if m in GENERAL:
            for i in range(1 if quick else 4):
                add('dv', 'interp', m, fam[i % k], [[fam[(i + 1) % k], fam[(2 * i + 3) % k]]])
            add('dv', 'comp', m, fam[0], [[fam[1 % k], fam[3 % k]]])

    # ---- bsplines: num_cp 4..7 x order 2..4, x_interp = lattice subsets and uniform sets
    xs = [list(c) for n in (3, 4, 5) for c in itertools.combinations(LATTICE, n)]
    if quick:
        xs = xs[::4]
    xs += [[0.0, 0.25, 0.5, 0.75, 1.0], [0.0, 0.125, 1.0], list(LATTICE)]
    for num_cp in (4, 5, 6, 7):
        for order in (2, 3, 4):
            for api in ('spline', 'splinecomp'):
                for part in [xs[i:i + 12] for i in range(0, len(xs), 12)]:
                    out.append({'kind': 'bs', 'api': api, 'num_cp': num_cp, 'order': order,
                                'xs': part, 'vecs': [1, 2, 'n'], 'pal': pal})
    return out
