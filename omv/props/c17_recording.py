"""C17 - recorded cases are faithful, filtered and ordered (DESIGN.md 4, C17).

C19 (load_case) reuses the scenario runner of this module.
"""
import collections
import contextlib
import fnmatch
import glob
import io
import itertools
import os

import numpy as np

from omv.core import ir, models

ID = 'C17'
LEVEL = 'model_checking'
TECHNIQUE = ('explicit enumeration of recording configurations (attachment points x option patterns x '
             'drivers) and run histories on real Problems; a shadow in-memory recorder attached at the '
             'same points snapshots the full live model at every record call; the SQLite reader output is '
             'compared with the snapshot filtered by a reference selection predicate and with the '
             'arrival order')
RULE = ('2 models (feed-forward with subgroup, NLBGS cycle in a subgroup; promoted and absolute names) x '
        'recorder attached to every subset of size <= 2 (quick) / <= 3 (thorough) of {problem, driver, '
        'root, subgroup, component, subgroup solver} x includes/excludes pattern pairs x record_* flag '
        'deviations (<= 2 flags flipped) x driver {run-once, DOE full factorial, SLSQP} x histories of '
        'length <= 2 over {run_model, run_driver, record, run_model/run_driver with a case prefix}; plus '
        'the full product of record_* flag assignments x 12 pattern pairs on each system/solver '
        'point; states = recorded cases compared, '
        'transitions = record calls observed by the shadow, traces = scenarios on which reader and '
        'reference agreed on every case; non-trivial = scenario records >= 2 cases and the selection '
        'is a proper non-empty subset of the variables')
LEVEL_TEXT = ('For every scenario in the bound, every case returned by the case reader must (a) contain '
              'exactly the variables selected by the reference predicate written from the documented '
              'rules (outputs/residuals by promoted name, inputs by absolute name, excludes after '
              'includes, design variables/objectives/constraints per flag), (b) hold the values the '
              'shadow recorder saw in the live model at that record call, (c) appear in list_cases in '
              'arrival order, and list_cases(source, recurse) must return exactly the structural '
              'descendants.')
LEVEL_NOTE = ('SQLite and pickle/json serialisation are trusted; bounded models and option alphabets; '
              'linear-solver recorders and derivative recording are outside the alphabet.')
ASSUMPTIONS = ['selection rules as documented in the recording options and the comments of the anchors: '
               'driver/problem/system outputs and residuals match promoted names, inputs match '
               'absolute names, solver patterns are relative to the solver\'s group',
               'the shadow recorder observes the same model state as the SQLite recorder because both '
               'are called from the same record_iteration event']
MIN_NONTRIVIAL = {'quick': 90, 'thorough': 500}

POINTS = ['problem', 'driver', 'root', 'group', 'comp', 'solver']
PATTERNS = [(['*'], []), ([], []), (['*.y'], []), (['G.*'], []), (['*'], ['*c2*']), (['p', '*x0'], []),
            (['nomatch'], []), (['*'], ['*'])]
DRIVERS = ['run_once', 'doe', 'slsqp', 'doe12']
HISTS = [('run_model',), ('run_driver',), ('run_driver', 'record'), ('run_model', 'run_driver'),
         ('run_model', 'record'), ('run_driver', 'run_driver'),
         # a second run whose coordinates are made unique by a case prefix: the per-source and
         # per-case queries are well defined across runs
         ('run_driver', 'run_driver_p2'), ('run_model', 'run_driver_p2'), ('run_driver', 'run_model_p2'),
         # the driver's / problem's recording options are changed between two runs (no new setup):
         # each case must follow the options in force when it was recorded
         ('run_driver', 'reopt', 'run_driver_p2'), ('run_model', 'reopt', 'run_driver_p2'),
         # (the options are read in final_setup, so a problem case needs a run after the change)
         ('run_driver', 'reopt', 'run_driver_p2', 'record')]
# patterns that tell the recording system's promoted names from absolute names
SYS_PATTERNS = PATTERNS + [(['c2.y'], []), (['*'], ['c2.y']), (['G.c2.y', 'y'], []), (['*'], ['G.*'])]
FLAGS = {
    'problem': ['record_desvars', 'record_objectives', 'record_constraints', 'record_responses',
                'record_inputs', 'record_outputs', 'record_residuals'],
    'driver': ['record_desvars', 'record_objectives', 'record_constraints', 'record_responses',
               'record_inputs', 'record_outputs', 'record_residuals'],
    'root': ['record_inputs', 'record_outputs', 'record_residuals'],
    'group': ['record_inputs', 'record_outputs', 'record_residuals'],
    'comp': ['record_inputs', 'record_outputs', 'record_residuals'],
    'solver': ['record_inputs', 'record_outputs', 'record_solver_residuals', 'record_abs_error'],
}
DEFAULTS = {
    'problem': dict(record_desvars=True, record_objectives=True, record_constraints=True,
                    record_responses=False, record_inputs=False, record_outputs=True,
                    record_residuals=False, includes=['*'], excludes=[]),
    'driver': dict(record_desvars=True, record_objectives=True, record_constraints=True,
                   record_responses=False, record_inputs=True, record_outputs=True,
                   record_residuals=False, includes=[], excludes=[]),
    'system': dict(record_inputs=True, record_outputs=True, record_residuals=True, includes=['*'],
                   excludes=[]),
    'solver': dict(record_inputs=True, record_outputs=True, record_solver_residuals=False,
                   record_abs_error=True, includes=['*'], excludes=[]),
}


def _spec(mname, pal=0):
    if mname == 'ff':
        cfg = {'topo': 'chain', 'hier': 'nest1', 'kinds': 'allquad', 'wiring': 'prom1',
               'units': 'm_cm'}
    else:
        cfg = {'topo': 'cycle_tail', 'hier': 'cycG', 'kinds': 'mix1', 'nl': 'NLBGS', 'ln': 'Direct',
               'wiring': 'conn_list'}
    cfg['palette'] = pal
    # solver scaling on two outputs: recorded values are the values a user reads from the model
    # (physical), whatever the internal scaled state is at the time of recording
    cfg['solver_scaling'] = {'c2.y': {'ref': 4.0, 'ref0': 0.5, 'res_ref': 8.0},
                             'c1.y': {'ref': [2.0, 0.25, 4.0]}}
    spec, why = models.spec_from_config(cfg)
    # one scalar objective so that optimizers can run; the other responses stay constraints
    spec['responses'][0]['type'] = 'obj'
    spec['responses'][0]['index'] = 0
    for d in spec['dvs']:
        d['lower'] = -0.03 if mname == 'ff' else -3.0      # (ff converts m -> cm: keep values moderate)
        d['upper'] = 0.03 if mname == 'ff' else 3.0
        d['indices'] = [0]
    return spec


def _paths(mname):
    if mname == 'ff':
        return {'group': 'G', 'comp': 'c1', 'solver': ''}
    return {'group': 'G', 'comp': 'G.c1', 'solver': 'G'}


def cases(tier, seed):
    out = []
    k = 2 if tier == 'quick' else 3
    subsets = [s for r in range(1, k + 1) for s in itertools.combinations(POINTS, r)]
    i = 0
    for mname in ('ff', 'cyc'):
        for sub in subsets:
            for drv in DRIVERS:
                for hist in HISTS:
                    i += 1
                    if not any(h.startswith('run_driver') for h in hist) and drv != 'run_once':
                        continue
                    if 'reopt' in hist and not ('driver' in sub or 'problem' in sub):
                        continue
                    if drv == 'doe12' and not ('driver' in sub and len(sub) >= 2 and
                                               hist == ('run_driver',)):
                        continue        # >= 11 iterations: only needed for coordinate queries
                    if tier == 'quick' and len(sub) == 2 and (i % 3) and drv != 'doe12' \
                            and 'reopt' not in hist:
                        continue
                    # option deviations: one pattern pair per scenario (cycled), flags: default,
                    # each single flip (cycled over scenarios) and one double flip
                    pat = PATTERNS[i % len(PATTERNS)]
                    flips = []
                    for pt in sub:
                        fl = FLAGS[pt]
                        flips.append((pt, [fl[i % len(fl)]] if i % 2 else []))
                    out.append({'model': mname, 'attach': list(sub), 'driver': drv,
                                'hist': list(hist), 'pattern': [list(pat[0]), list(pat[1])],
                                'flips': flips, 'palette': seed % 3})
                    if 'reopt' in hist:
                        pat2 = PATTERNS[(i + 3) % len(PATTERNS)]
                        out[-1]['pattern2'] = [list(pat2[0]), list(pat2[1])]
                        out[-1]['flip2'] = FLAGS['driver'][(i // 2) % len(FLAGS['driver'])]
    # full product on the system / solver points: every record_* flag assignment x every pattern pair
    for mname in ('ff', 'cyc'):
        for pt in ('root', 'group', 'comp', 'solver'):
            fl = FLAGS[pt][:3]
            for pat in SYS_PATTERNS:
                for bits in itertools.product((False, True), repeat=3):
                    kind = 'solver' if pt == 'solver' else 'system'
                    flips = [f for f, b in zip(fl, bits) if DEFAULTS[kind][f] != b]
                    if tier == 'quick' and len(flips) == 3:
                        continue
                    out.append({'model': mname, 'attach': [pt], 'driver': 'run_once',
                                'hist': ['run_model'], 'pattern': [list(pat[0]), list(pat[1])],
                                'flips': [(pt, flips)], 'palette': seed % 3})
    return out


def _shadow_class():
    from openmdao.recorders.case_recorder import CaseRecorder

    class Shadow(CaseRecorder):
        def __init__(self):
            super().__init__(record_viewer_data=False)
            self.events = []
            self.model = None
            self.phase = 0
            self.phase_of = {}

        def _snap(self, scaled_state=True):
            # physical values of every variable, whatever part of the vectors happens to be in the
            # scaled state at this moment (tracked per entry by _ScaleTracker)
            m = self.model
            out = {}
            for kind, vec in (('output', m._outputs), ('residual', m._residuals)):
                raw = vec.asarray().copy()
                phys = _TRACKER.physical(kind, vec, raw)
                d = {}
                for n, a, b in vec.ranges():
                    shape = np.shape(vec._abs_get_val(n, False))
                    d[n] = phys[a:b].reshape(shape)
                out[kind] = d
            out['input'] = {n: np.array(v) for n, v in m._inputs._abs_item_iter(flat=False)}
            return out

        def startup(self, recording_requester, comm=None):
            super().startup(recording_requester, comm)

        def _coord(self, metadata):
            return self._iteration_coordinate

        def record_iteration_driver(self, recording_requester, data, metadata):
            self.phase_of[self._coord(metadata)] = self.phase
            self.events.append(('driver', 'driver', self._coord(metadata), self._snap(False)))

        def record_iteration_problem(self, recording_requester, data, metadata):
            self.phase_of[metadata['name']] = self.phase
            self.events.append(('problem', 'problem', metadata['name'], self._snap(False)))

        def record_iteration_system(self, recording_requester, data, metadata):
            src = 'root' + ('.' + recording_requester.pathname if recording_requester.pathname
                            else '')
            self.events.append(('system', src, self._coord(metadata), self._snap()))

        def record_iteration_solver(self, recording_requester, data, metadata):
            path = recording_requester._system().pathname
            src = 'root' + ('.' + path if path else '') + '.nonlinear_solver'
            self.events.append(('solver', src, self._coord(metadata), self._snap()))

        def record_metadata_system(self, system, run_number=None):
            pass

        def record_metadata_solver(self, solver, run_number=None):
            pass

        def record_derivatives_driver(self, recording_requester, data, metadata):
            pass

        def record_viewer_data(self, model_viewer_data):
            pass

        def shutdown(self):
            pass
    return Shadow


_SHADOW = None


def _addr(a):
    return a.__array_interface__['data'][0]


class _ScaleTracker(object):
    """Observes every scale_to_norm / scale_to_phys call on nonlinear vectors and keeps, per entry
    of the root output and residual vectors, whether it currently holds a scaled value."""

    def __init__(self):
        self.events = []
        self.installed = False

    def install(self):
        if self.installed:
            return
        from openmdao.vectors.default_vector import DefaultVector
        tracker = self
        o_norm, o_phys = DefaultVector.scale_to_norm, DefaultVector.scale_to_phys

        def scale_to_norm(vec, mode='fwd'):
            o_norm(vec, mode)
            tracker.note(vec, True)

        def scale_to_phys(vec, mode='fwd'):
            o_phys(vec, mode)
            tracker.note(vec, False)
        DefaultVector.scale_to_norm = scale_to_norm
        DefaultVector.scale_to_phys = scale_to_phys
        self.installed = True

    def reset(self):
        self.events = []

    def note(self, vec, scaled):
        if vec._name == 'nonlinear' and vec._kind in ('output', 'residual'):
            a = vec.asarray()
            self.events.append((vec._kind, _addr(a), a.size, a.itemsize, scaled))

    def physical(self, kind, root, raw):
        base, n = _addr(root.asarray()), raw.size
        mask = np.zeros(n, dtype=bool)
        for k, addr, size, isz, scaled in self.events:
            off = (addr - base) // isz
            if k == kind and 0 <= off and off + size <= n:
                mask[off:off + size] = scaled
        if not mask.any():
            return raw
        scaler, adder = root._scaling
        phys = raw * scaler
        if adder is not None:
            phys = phys + adder
        return np.where(mask, phys, raw)


_TRACKER = _ScaleTracker()


def run_scenario(sc, keep_prob=False):
    """Build, attach recorders, run the history.  Returns dict(events, reader, prob, opts, spec)."""
    import openmdao.api as om
    global _SHADOW
    if _SHADOW is None:
        _SHADOW = _shadow_class()
    mname = sc['model']
    spec = _spec(mname, sc.get('palette', 0))
    paths = _paths(mname)
    shadow = _SHADOW()
    tag = 'c%d_%d' % (os.getpid(), abs(hash(repr(sc))) % 10 ** 8)
    fname = '%s.sql' % tag
    opts = {}
    opts2 = {}
    buf = io.StringIO()

    def before(prob, groups, insts):
        rec = om.SqliteRecorder(fname, record_viewer_data=False)
        drv = sc['driver']
        if drv == 'doe':
            prob.driver = om.DOEDriver(om.FullFactorialGenerator(levels=2))
        elif drv == 'doe12':
            prob.driver = om.DOEDriver(om.FullFactorialGenerator(levels=12))
        elif drv == 'slsqp':
            prob.driver = om.ScipyOptimizeDriver(optimizer='SLSQP', maxiter=2, disp=False)
        objs = {'problem': prob, 'driver': prob.driver, 'root': prob.model,
                'group': groups[paths['group']], 'comp': insts[paths['comp']],
                'solver': groups[paths['solver']].nonlinear_solver}
        flips = dict((p, f) for p, f in sc['flips'])
        for pt in sc['attach']:
            o = objs[pt]
            o.add_recorder(rec)
            o.add_recorder(shadow)
            kind = pt if pt in ('problem', 'driver', 'solver') else 'system'
            cur = dict(DEFAULTS[kind])
            cur['includes'] = list(sc['pattern'][0])
            cur['excludes'] = list(sc['pattern'][1])
            for f in flips.get(pt, []):
                cur[f] = not cur[f]
            for k, v in cur.items():
                o.recording_options[k] = v
            opts[pt] = cur
    _TRACKER.install()
    _TRACKER.reset()
    with contextlib.redirect_stdout(buf), contextlib.redirect_stderr(buf):
        prob, info = ir.build(spec, before_setup=before)
        shadow.model = prob.model
        for op in sc['hist']:
            if op == 'run_model':
                prob.run_model()
            elif op == 'run_driver':
                prob.run_driver()
            elif op == 'run_driver_p2':
                prob.run_driver(case_prefix='second')
            elif op == 'run_model_p2':
                prob.run_model(case_prefix='second')
            elif op == 'reopt':
                shadow.phase = 1
                for pt in sc['attach']:
                    if pt in ('driver', 'problem'):
                        o = prob if pt == 'problem' else prob.driver
                        cur = dict(opts[pt])
                        cur['includes'] = list(sc['pattern2'][0])
                        cur['excludes'] = list(sc['pattern2'][1])
                        cur[sc['flip2']] = not cur[sc['flip2']]
                        for k, v in cur.items():
                            o.recording_options[k] = v
                        opts2[pt] = cur
            else:
                prob.record('rec_%d' % len(shadow.events))
        prob.cleanup()
    files = glob.glob(os.path.join('*_out', fname)) + glob.glob(fname)
    reader = om.CaseReader(files[-1]) if files else None
    return {'events': shadow.events, 'reader': reader, 'prob': prob if keep_prob else None,
            'opts': opts, 'spec': spec, 'file': files[-1] if files else None, 'paths': paths,
            'opts2': opts2, 'phase_of': shadow.phase_of}


def _match(name, incl, excl):
    if not any(fnmatch.fnmatchcase(name, p) for p in incl):
        return False
    return not any(fnmatch.fnmatchcase(name, p) for p in excl)


def expected_selection(kind, src, o, prob_info):
    """reference predicate: returns (outputs, inputs, residuals) as sets of absolute names"""
    abs_out, abs_in, prom_out, sysprom_out, dvs, objs, cons = prob_info
    incl, excl = o['includes'], o['excludes']
    if kind in ('driver', 'problem'):
        outs = set()
        if o['record_outputs']:
            outs |= {n for n in abs_out if _match(prom_out[n], incl, excl)}
        if o['record_desvars']:
            outs |= set(dvs)
        if o['record_objectives'] or o['record_responses']:
            outs |= set(objs)
        if o['record_constraints'] or o['record_responses']:
            outs |= set(cons)
        ins = set()
        if o['record_inputs']:
            ins = {n for n in abs_in if _match(n, incl, excl)}
            # promoted input names that match add their source to the outputs
            for n in abs_in:
                if _match(prob_info_prom_in(prob_info, n), incl, excl):
                    outs.add(prob_info_src(prob_info, n))
        res = set()
        if o['record_residuals']:
            res = {n for n in abs_out if _match(prom_out[n], incl, excl)}
        return outs, ins, res
    # system / solver: names below the system's path
    path = src[len('root'):].lstrip('.')
    if kind == 'solver':
        path = path[:-len('nonlinear_solver')].rstrip('.')
    pre = path + '.' if path else ''
    sub_out = [n for n in abs_out if n.startswith(pre)]
    sub_in = [n for n in abs_in if n.startswith(pre)]
    if kind == 'system':
        outs = {n for n in sub_out if _match(sysprom_out[(path, n)], incl, excl)} \
            if o['record_outputs'] else set()
        ins = {n for n in sub_in if _match(n, incl, excl)} if o['record_inputs'] else set()
        if o['record_residuals']:
            res = set(outs) if o['record_outputs'] else \
                {n for n in sub_out if _match(sysprom_out[(path, n)], incl, excl)}
        else:
            res = set()
        return outs, ins, res
    # solver: relative paths
    rel = lambda n: n[len(pre):]
    outs = {n for n in sub_out if _match(rel(n), incl, excl)} if o['record_outputs'] else set()
    ins = {n for n in sub_in if _match(rel(n), incl, excl)} if o['record_inputs'] else set()
    res = {n for n in sub_out if _match(rel(n), incl, excl)} if o['record_solver_residuals'] else set()
    return outs, ins, res


_EXTRA = {}


def prob_info_prom_in(info, n):
    return _EXTRA['prom_in'][n]


def prob_info_src(info, n):
    return _EXTRA['src'][n]


def _collect_info(spec, prob_model_meta):
    pass


def check_case(sc):
    import openmdao.api as om
    cls = '%s/%s/%s/%s' % (sc['model'], '+'.join(sc['attach']), sc['driver'], '>'.join(sc['hist']))
    vio = []
    sig_seen = collections.Counter()

    def V(what, msg):
        sig = 'C17:%s' % what
        sig_seen[sig] += 1
        if sig_seen[sig] <= 2:
            vio.append({'sig': sig, 'case': sc, 'msg': '%s [%s; pattern=%s flips=%s]: %s' % (
                what, cls, sc['pattern'], sc['flips'], msg)})
    try:
        R = run_scenario(sc, keep_prob=True)
    except Exception as exc:
        if type(exc).__name__ == 'AnalysisError':
            return {'evals': 1, 'outcome': 'not_converged', 'violations': []}
        import traceback
        V('scenario_raises:%s' % type(exc).__name__, '%s | %s' % (str(exc)[:200],
                                                                traceback.format_exc()[-300:]))
        return {'evals': 1, 'outcome': 'violation', 'violations': vio}
    events, reader, prob, opts, spec = R['events'], R['reader'], R['prob'], R['opts'], R['spec']
    model = prob.model
    res = model._resolver
    abs_out = [n for n in model._var_allprocs_abs2meta['output']]
    abs_in = [n for n in model._var_allprocs_abs2meta['input']]
    prom_out = {n: res.abs2prom(n, 'output') for n in abs_out}
    _EXTRA['prom_in'] = {n: res.abs2prom(n, 'input') for n in abs_in}
    _EXTRA['src'] = dict(model._conn_global_abs_in2out)
    sysprom = {}
    for s in model.system_iter(include_self=True, recurse=True):
        for n in s._var_allprocs_abs2meta['output']:
            sysprom[(s.pathname, n)] = s._resolver.abs2prom(n, 'output')
    dvs = [m['source'] for m in model.get_design_vars().values()]
    objs = [m['source'] for m in model.get_objectives().values()]
    cons = [m['source'] for m in model.get_constraints().values()]
    info = (abs_out, abs_in, prom_out, sysprom, dvs, objs, cons)
    pt_of_src = {}
    paths = R['paths']
    for pt in sc['attach']:
        if pt in ('problem', 'driver'):
            pt_of_src[pt] = pt
        elif pt == 'root':
            pt_of_src['root'] = pt
        elif pt == 'group':
            pt_of_src['root.' + paths['group']] = pt
        elif pt == 'comp':
            pt_of_src['root.' + paths['comp']] = pt
        else:
            p = paths['solver']
            pt_of_src['root' + ('.' + p if p else '') + '.nonlinear_solver'] = pt
    n_events = len(events)
    if reader is None:
        if n_events:
            V('no_file', '%d record calls but no recording file' % n_events)
        return {'evals': 1, 'outcome': 'no_cases' if not vio else 'violation', 'violations': vio}
    try:
        listed = reader.list_cases(out_stream=None)
    except Exception as exc:
        V('list_cases_raises:%s' % type(exc).__name__, str(exc)[:200])
        return {'evals': 1, 'outcome': 'violation', 'violations': vio}
    want_order = [e[2] for e in events]
    got_order = [c.split('rank0:')[-1] if False else c for c in listed]
    if [c for c in got_order] != want_order:
        # coordinates from the shadow do not carry the rank prefix in some paths
        strip = lambda c: c[len('rank0:'):] if c.startswith('rank0:') else c
        if [strip(c) for c in got_order] != [strip(c) for c in want_order]:
            V('order', 'list_cases order differs from arrival order: got %s expected %s' % (
                got_order[:6], want_order[:6]))
    compared = proper = 0
    strip = lambda c: c[len('rank0:'):] if c.startswith('rank0:') else c
    by_coord = {}
    for e in events:
        by_coord[strip(e[2])] = e
    for cname in listed:
        e = by_coord.get(strip(cname))
        if e is None:
            V('unknown_case', 'reader lists %s which was never recorded' % cname)
            continue
        kind, src, coord, snap = e
        pt = pt_of_src.get(src)
        if pt is None:
            V('unknown_source', 'case %s from source %s' % (cname, src))
            continue
        o = opts[pt]
        if R['phase_of'].get(coord, 0) == 1 and pt in R['opts2']:
            o = R['opts2'][pt]
        try:
            case = reader.get_case(cname)
        except Exception as exc:
            V('get_case_raises:%s' % type(exc).__name__, '%s: %s' % (cname, str(exc)[:200]))
            continue
        exp_o, exp_i, exp_r = expected_selection(kind, src, o, info)
        compared += 1
        tot = len(abs_out)
        if 0 < len(exp_o) < tot or 0 < len(exp_i) < len(abs_in):
            proper += 1
        for label, cdict, exp, snapd in (('outputs', case.outputs, exp_o, snap['output']),
                                         ('inputs', case.inputs, exp_i, snap['input']),
                                         ('residuals', case.residuals, exp_r, snap['residual'])):
            got = {} if cdict is None else {k: cdict[k] for k in cdict.absolute_names()} \
                if hasattr(cdict, 'absolute_names') else dict(cdict or {})
            gk = set(got)
            if gk != exp:
                V('selection:%s:%s' % (kind, label), '%s %s: extra %s missing %s' % (
                    cname, label, sorted(gk - exp)[:5], sorted(exp - gk)[:5]))
            for k in gk & set(snapd):
                a = np.asarray(got[k])
                b = np.asarray(snapd[k])
                if a.size != b.size or not np.array_equal(np.ravel(a), np.ravel(b)):
                    V('value:%s:%s' % (kind, label), '%s %s[%s]: recorded %s live %s' % (
                        cname, label, k, np.ravel(a).tolist()[:4], np.ravel(b).tolist()[:4]))
    coords = [strip(e[2]) for e in events]
    unique = len(set(coords)) == len(coords)
    # per-case descendant queries (structural: split on '|', never string prefixes)
    if unique:
        for e in events:
            if e[0] != 'driver':
                continue
            c = strip(e[2])
            cp = c.split('|')
            want = []
            for e2 in events:
                c2 = strip(e2[2])
                p2 = c2.split('|')
                if c2 == c or (len(p2) > len(cp) and p2[:len(cp)] == cp):
                    want.append(c2)
            try:
                got = [strip(x) for x in reader.list_cases(e[2], recurse=True, flat=True,
                                                           out_stream=None)]
            except Exception as exc:
                V('list_cases_coord_raises:%s' % type(exc).__name__, '%s: %s' % (c, str(exc)[:150]))
                continue
            try:
                alone = [strip(x) for x in reader.list_cases(e[2], recurse=False, out_stream=None)]
                if alone != [c]:
                    V('case_alone', 'list_cases(%r, recurse=False) = %s' % (c, alone[:4]))
            except Exception as exc:
                V('list_cases_coord_norecurse_raises:%s' % type(exc).__name__,
                  '%s: %s' % (c, str(exc)[:150]))
            if got != want:
                V('descendants_of_case:%s' % ('prefix_sibling' if any(
                    x not in want and x.startswith(c) for x in got) else 'other'),
                  'list_cases(%r, recurse) = %s expected %s' % (c, got[:5], want[:5]))
    # per-source descendant queries (ill-defined when a second run_driver repeats coordinates)
    for src in (pt_of_src if unique else []):
        try:
            got = reader.list_cases(src, recurse=True, flat=True, out_stream=None)
        except Exception as exc:
            if any(e[1] == src for e in events):
                V('list_cases_source_raises:%s' % type(exc).__name__, '%s: %s' % (src, str(exc)[:150]))
            continue
        own = [strip(e[2]) for e in events if e[1] == src]
        ownp = [c.split('|') for c in own]
        want = []
        for e in events:
            c = strip(e[2])
            parts = c.split('|')
            if e[1] == src or any(len(parts) > len(op) and parts[:len(op)] == op for op in ownp):
                want.append(c)
        if src == 'problem':
            want = own
        if [strip(c) for c in got] != want:
            V('descendants:%s' % ('solver' if src.endswith('nonlinear_solver') else
                                  src if src in ('problem', 'driver') else 'system'),
              'list_cases(%s, recurse) = %s expected %s' % (src, [strip(c) for c in got][:6],
                                                            want[:6]))
    nontriv = int(compared >= 2 and proper > 0)
    return {'evals': 1, 'nontrivial': nontriv if not vio else 0,
            'outcome': 'violation' if vio else ('ok' if compared else 'no_cases'), 'violations': vio,
            'counters': {'states': compared, 'transitions': n_events, 'traces': int(not vio)},
            'sample': cls}
