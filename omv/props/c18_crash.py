"""C18 - case recordings survive a crash at any point as a consistent prefix (DESIGN.md 4, C18; E4).

Every crash point of five deterministic recording histories (H1-H5, defined in the helper) is
enumerated:

* statement level: every connect/execute/commit/__enter__/__exit__/close boundary of the recorder's
  SQLite connections (seam: the name `sqlite3` inside openmdao.recorders.sqlite_recorder).  Two
  realisations: 'stmt' - a fresh process per crash point calls os._exit(137) at the boundary;
  'snap' - one process copies database + journal byte for byte at each boundary, which is what a
  death at that boundary leaves on disk.  Every 'stmt' batch is cross-checked against 'snap'.
* system-call level (thorough): strace kills the recording process with SIGKILL on entry to every
  write-type system call on the database or its journal.

After each crash the file - with whatever journal is left beside it - is opened with om.CaseReader
by a process that never had it open, and compared with the recording of the uncrashed run: it opens;
list_cases() is a prefix of the complete list; every listed case loads and equals the complete
run's case (time stamps excluded); per-source listings agree with the global listing;
global_iterations rows and case rows correspond one to one (raw sqlite3); the number of readable
cases never decreases from one crash point to the next.  Before anything was committed to the
database "no file" / "a file without tables" is accepted instead.

The processes are driven by omv/lib_c18_child.py (one long-lived helper per runner worker which
imports OpenMDAO once and forks per crash point).
"""
import atexit
import json
import os
import select
import subprocess
import sys

ID = 'C18'
LEVEL = 'fault_enumeration'
TECHNIQUE = ('exhaustive crash-point enumeration of deterministic recording histories: os._exit at '
             'every SQLite statement/transaction boundary (seam: the name sqlite3 in '
             'sqlite_recorder), SIGKILL injected by strace at every write-type system call on the '
             'database and its journal; oracle = om.CaseReader on the file left behind vs. the '
             'uncrashed run')
RULE = ('one evaluation = one (history, crash point, mechanism): the history is recorded by a '
        'process that dies at the crash point (os._exit / SIGKILL) or whose files are copied at '
        'that point (snapshot), the files left are read back with om.CaseReader; crash points = '
        'every k in 0..N over the N statement/transaction boundaries of each of the 4 histories '
        '(quick: real kills for H1, snapshots for H2-H4; thorough: real kills for all) and, '
        'thorough only, every one of the M write-type system calls pwrite64/write/fdatasync/fsync/'
        'unlink/ftruncate on db or journal plus the un-killed run; non-trivial = the crash fell '
        'strictly after the first case was written and before the last, observed as: a file left '
        'behind holds at least one and fewer than all cases of the complete run; distinct '
        'outcomes = (history, file, number of cases readable after the crash)')
LEVEL_TEXT = ('All crash points of the bounded histories are tried (no sampling); a crash is a real '
              'process death, the read-back uses the public reader on the real file and journal. '
              'Fault enumeration is the right level because the property quantifies over the moment '
              'of death, which is a finite set at the granularity at which the file can change '
              '(statement boundaries, write-type system calls).')
LEVEL_NOTE = ('Trusted: SQLite, strace, CPython sqlite3; the uncrashed run of the same tree is the '
              'reference for case content (its size and shape are checked against constants).  '
              'Not covered: power loss / torn writes, kills inside a single write system call, '
              'MPI recording, histories other than H1-H4.')
ASSUMPTIONS = [
    'a process death loses nothing that a completed write()/pwrite64() system call handed to the OS '
    '(process crash, not power loss); a single write-type system call is atomic',
    '"the recorder started" is read as: the first statement on the database completed and was '
    'committed.  Before that, no file or a file without any table is accepted; from then on the '
    'file must open with om.CaseReader (DESIGN C18: "never an unreadable file")',
    'which prefix survives is not prescribed, but the number of readable cases must not decrease '
    'from one crash point to the next (a recorded case is never lost again)',
    'time stamps are excluded from case comparison; derivatives tables (no history records them) '
    'are out of scope',
    'run directories live on tmpfs (/dev/shm) when available: fdatasync is then free, the sequence '
    'of system calls is unchanged',
    'snapshot mechanism: at a boundary between two sqlite3 API calls of a single-threaded process '
    'SQLite has no write in flight and no user-space buffer a process death would still deliver, '
    'so a byte copy of db + journal is the state a death at that boundary leaves (cross-checked '
    'against real os._exit kills on every boundary of H1 in the quick tier, of H1-H4 in thorough)',
]
MIN_NONTRIVIAL = {'quick': 120, 'thorough': 800}
CHUNK = 1
CAP_S = {'thorough': int(os.environ.get('C18_CAP_S', '1700'))}

HISTS = ['H1', 'H2', 'H3', 'H4', 'H5']
DBS = {'H1': ['h1.sql'], 'H2': ['h2_out/drv.sql', 'sys.sql'], 'H3': ['h3.sql'], 'H4': ['h4.sql'],
       'H5': ['h5.sql']}
# size of the complete recordings (measured on the unchanged tree; guards against a vacuous
# reference - an implementation that records nothing would make every crash file a "prefix")
REF_NCASES = {'H1': {'h1.sql': 17}, 'H2': {'h2_out/drv.sql': 4, 'sys.sql': 6},
              'H3': {'h3.sql': 9}, 'H4': {'h4.sql': 8}, 'H5': {'h5.sql': 3}}
ALL_TABLES = ['driver_derivatives', 'driver_iterations', 'driver_metadata', 'global_iterations',
              'metadata', 'problem_cases', 'solver_iterations', 'solver_metadata',
              'system_iterations', 'system_metadata']

_H = {'sp': None}
_REF = {}
_PLAN = {}


# ------------------------------------------------------------------ helper process

def _start():
    if _H['sp'] is not None and _H['sp'].poll() is None:
        return _H['sp']
    env = dict(os.environ)
    sp = subprocess.Popen([sys.executable, '-m', 'omv.lib_c18_child'], stdin=subprocess.PIPE,
                          stdout=subprocess.PIPE, stderr=subprocess.DEVNULL, env=env,
                          cwd=os.getcwd())
    _H['sp'] = sp
    return sp


def _stop():
    sp = _H['sp']
    _H['sp'] = None
    if sp is not None:
        try:
            sp.stdin.close()
            sp.wait(timeout=20)
        except Exception:
            sp.kill()


atexit.register(_stop)


def _rq(req, timeout=3600.0):
    sp = _start()
    sp.stdin.write((json.dumps(req) + '\n').encode())
    sp.stdin.flush()
    r, _, _ = select.select([sp.stdout], [], [], timeout)
    if not r:
        sp.kill()
        _H['sp'] = None
        raise RuntimeError('C18 helper timed out on %r' % (req,))
    line = sp.stdout.readline()
    if not line:
        _H['sp'] = None
        raise RuntimeError('C18 helper died on %r' % (req,))
    resp = json.loads(line)
    if 'helper_error' in resp:
        raise RuntimeError('C18 helper error: ' + resp['helper_error'])
    return resp


def init_worker():
    _start()          # import + warm-up proceed while the pool hands out the first task


# ------------------------------------------------------------------ enumeration

def _base(db):
    return os.path.basename(db)


def _stmt_plan(hist):
    """Statement/transaction boundaries of one history (a counting run in this worker's helper)."""
    if ('stmt', hist) in _PLAN:
        return _PLAN[('stmt', hist)]
    r = _rq({'op': 'count', 'hist': hist, 'mode': 'stmt'})
    ev = r.get('events') or []
    n = len(ev)
    # started[db]: the smallest crash point k at which a statement on this database has completed
    # *and been committed* (the event left the connection outside a transaction)
    started = {}
    for db in DBS[hist]:
        idx = [i for i, e in enumerate(ev) if e[2] == _base(db) and e[3] == 0 and
               e[0] in ('execute', 'executemany', 'executescript', 'exit', 'commit')]
        started[db] = (idx[0] + 1) if idx else n + 1
    # crash point k lies before event k: strictly inside a transaction iff event k-1 left one open
    inside = [0] + [1 if e[3] == 1 else 0 for e in ev]
    _PLAN[('stmt', hist)] = {'n': n, 'pts': [{'k': k} for k in range(n + 1)], 'started': started,
                             'inside': inside}
    return _PLAN[('stmt', hist)]


def _sys_plan(hist):
    """Write-type system calls on db/journal of one history (a counting run under strace)."""
    if ('sys', hist) in _PLAN:
        return _PLAN[('sys', hist)]
    r = _rq({'op': 'count', 'hist': hist, 'mode': 'sys'})
    if r.get('tracer_error'):
        raise RuntimeError('strace failed: %s' % r['tracer_error'])
    calls = r.get('calls') or []
    seen = {}
    pts = []
    for j, nm in enumerate(calls):
        seen[nm] = seen.get(nm, 0) + 1
        pts.append({'j': j, 'sc': nm, 'm': seen[nm]})
    # one more point beyond the last occurrence: the run completes un-killed
    pts.append({'j': len(calls), 'sc': 'pwrite64', 'm': seen.get('pwrite64', 0) + 1})
    _PLAN[('sys', hist)] = {'n': len(calls), 'pts': pts}
    return _PLAN[('sys', hist)]


# which mechanism realises the statement-level crash points of a history:
#   'stmt' = a fresh process per crash point that calls os._exit(137) there (DESIGN E4), every
#            batch additionally cross-checked against the snapshots of the same points;
#   'snap' = one process per batch that copies db + journal at each boundary (see the helper).
# quick: real kills for H1 (all four kinds of recorder on one file), snapshots for H2-H4;
# thorough: real kills for every history, plus the system-call level.
STMT_MECH = {'quick': {'H1': 'stmt', 'H2': 'snap', 'H3': 'snap', 'H4': 'snap', 'H5': 'snap'},
             'thorough': {'H1': 'stmt', 'H2': 'stmt', 'H3': 'stmt', 'H4': 'stmt', 'H5': 'stmt'}}


# A runner case is one *part* i of P of the crash points of (history, mechanism); the worker that
# gets it counts the boundaries itself (deterministic, cached per worker) and takes the i-th slice
# plus the last point of the previous slice (so that the monotonicity check chains across parts).
# So the enumeration is complete for whatever number of boundaries the tree under test has, and the
# main process needs no helper.
PARTS = {'stmt': 16, 'snap': 5, 'sys': 40}


def cases(tier, seed):
    out = []
    force = os.environ.get('C18_STMT')           # development switch: 'stmt' or 'snap' for all
    for h in HISTS:
        mech = force or STMT_MECH[tier][h]
        for i in range(PARTS[mech]):
            out.append({'hist': h, 'mode': mech, 'part': i, 'nparts': PARTS[mech]})
    if tier == 'thorough':
        for h in HISTS:
            for i in range(PARTS['sys']):
                out.append({'hist': h, 'mode': 'sys', 'part': i, 'nparts': PARTS['sys']})
    return out


def _expand(case):
    """part i of P -> explicit crash points (replay cases carry explicit points already)."""
    if 'pts' in case:
        return case
    hist, mode, i, nparts = case['hist'], case['mode'], case['part'], case['nparts']
    plan = _sys_plan(hist) if mode == 'sys' else _stmt_plan(hist)
    allpts = plan['pts']
    size = -(-len(allpts) // nparts)
    lo, hi = i * size, min((i + 1) * size, len(allpts))
    c = {'hist': hist, 'mode': mode, 'n': plan['n'], 'pts': allpts[max(lo - 1, 0):hi] if lo < hi
         else [], 'skip_first': int(lo > 0), 'first_part': int(i == 0)}
    if mode != 'sys':
        c['started'] = plan['started']
        c['inside'] = plan['inside'][max(lo - 1, 0):hi]
        c['xcheck'] = int(mode == 'stmt')
    return c


# ------------------------------------------------------------------ oracle

def _reference(hist):
    """The recording of the uncrashed run (per worker, once), validated."""
    if hist in _REF:
        return _REF[hist]
    r = _rq({'op': 'run', 'hist': hist, 'mode': 'none'})
    problems = []
    if r.get('exit') != 'exit:0':
        problems.append('uncrashed run ended with %s: %s' % (r.get('exit'),
                                                             (r.get('child_error') or '')[-600:]))
    if r.get('warm_error'):
        problems.append('warm-up raised: ' + r['warm_error'][-600:])
    dbs = r.get('dbs') or {}
    for db in DBS[hist]:
        d = dbs.get(db) or {}
        if not d.get('exists'):
            problems.append('%s: complete run left no file' % db)
            continue
        if 'open_error' in d or 'list_error' in d:
            problems.append('%s: complete recording unreadable: %r' % (
                db, d.get('open_error') or d.get('list_error')))
            continue
        n = len(d.get('cases', []))
        if n != REF_NCASES[hist][db]:
            problems.append('%s: complete recording has %d cases, expected %d' % (
                db, n, REF_NCASES[hist][db]))
        if len(set(d.get('cases', []))) != n:
            problems.append('%s: case names of the complete recording are not unique' % db)
        bad = [c['name'] for c in d.get('data', []) if 'error' in c]
        if bad:
            problems.append('%s: cases of the complete recording do not load: %r' % (db, bad[:3]))
        v = _raw_consistency(d)
        if v:
            problems.append('%s: complete recording inconsistent: %s' % (db, v[0][1]))
    _REF[hist] = (r, problems)
    return _REF[hist]


def _raw_consistency(d):
    """global_iterations rows <-> case rows, read with raw sqlite3.  Returns [(what, msg)]."""
    raw = d.get('raw')
    out = []
    if not raw or 'giter' not in raw:
        return out
    rows = raw.get('rows', {})
    seen = {}
    for gid, typ, rowid, src in raw['giter']:
        seen.setdefault(typ, set()).add(rowid)
        if rowid not in rows.get(typ, []):
            out.append(('dangling_global_iteration:' + str(typ),
                        'global_iterations row %s points to %s row %s which does not exist' % (
                            gid, typ, rowid)))
    for typ, ids in rows.items():
        for i in ids:
            if i not in seen.get(typ, ()):
                out.append(('orphan_case_row:' + typ,
                            '%s case row %s has no global_iterations row' % (typ, i)))
    if raw.get('integrity') != ['ok']:
        out.append(('integrity_check', 'PRAGMA integrity_check: %r' % (raw.get('integrity'),)))
    return out


def _phase(d):
    """Structural class of a file the reader could not open (for the signature), from the raw
    state of the database after journal recovery:
      no_tables                    nothing was ever committed
      init_tables_partial          some of the ten tables exist (death inside _initialize_database)
      first_startup_metadata_null  all tables, metadata row still has NULL variable maps and there
                                   are no cases (death between _initialize_database and the end of
                                   the first startup())
      metadata_null_with_cases     same, but cases were already recorded
      metadata_row_missing         all tables, metadata table has no row
      after_startup / recording    metadata complete, without / with cases"""
    raw = d.get('raw')
    if raw is None:
        return 'raw_unreadable'
    tabs = raw.get('tables', [])
    if not tabs:
        return 'no_tables'
    if sorted(tabs) != ALL_TABLES:
        return 'init_tables_partial'
    meta = raw.get('metadata') or [0, 0, 0]
    ncase = len(raw.get('giter', [])) + sum(len(v) for v in raw.get('rows', {}).values())
    if not meta[0]:
        return 'metadata_row_missing'
    if meta[1] or meta[2]:
        return 'metadata_null_with_cases' if ncase else 'first_startup_metadata_null'
    return 'recording' if ncase else 'after_startup'


def judge(hist, db, d, ref, must_open, complete):
    """Compare what was read from one crashed database with the reference.
    Returns (rank, label, [(what, cls, msg)]) ; rank = -1 for "no recording", else #cases."""
    vio = []
    total = len(ref['cases'])
    short = _base(db)

    def none_label(why):
        return '%s %s: no recording (%s)' % (hist, short, why)

    if not d.get('exists'):
        if must_open:
            vio.append(('no_file', 'after_first_statement',
                        'no file although the first statement on the database had completed'))
        return -1, none_label('no file'), vio
    if 'open_error' in d:
        ph = _phase(d)
        e = d['open_error']
        if ph == 'no_tables' and not must_open:
            return -1, none_label('file without tables'), vio
        vio.append(('open_raises_' + e['type'], ph,
                    'om.CaseReader raised %s at %s: %s  [file: %d bytes, journal: %s, tables: %s]'
                    % (e['type'], e['where'], e['msg'], d.get('size', -1), d.get('journal'),
                       len((d.get('raw') or {}).get('tables', [])))))
        return -1, '%s %s: unreadable (%s)' % (hist, short, ph), vio
    if 'list_error' in d:
        e = d['list_error']
        vio.append(('list_cases_raises_' + e['type'], _phase(d),
                    'list_cases raised %s at %s: %s' % (e['type'], e['where'], e['msg'])))
        return -1, '%s %s: unlistable' % (hist, short), vio

    got = d['cases']
    n = len(got)
    if got != ref['cases'][:n]:
        i = next((i for i, (a, b) in enumerate(zip(got, ref['cases'])) if a != b),
                 min(n, total))
        cls = 'more_cases_than_complete_run' if n > total else (
            'unknown_case' if got[i] not in ref['cases'] else 'order')
        vio.append(('not_a_prefix', cls, 'list_cases() is not a prefix of the complete run: '
                    'position %d is %r, complete run has %r (%d vs %d cases)' % (
                        i, got[i] if i < n else None,
                        ref['cases'][i] if i < total else None, n, total)))
    for i, c in enumerate(d.get('data', [])):
        want = ref['data'][i] if i < total else None
        if want is None or want.get('name') != c['name']:
            want = None       # reported as not_a_prefix
        src = (want or {}).get('source', '?')
        typ = src if src in ('driver', 'problem') else ('solver' if 'solver' in src else 'system')
        if 'error' in c:
            e = c['error']
            vio.append(('get_case_raises_' + e['type'], typ,
                        'get_case(%r) raised %s at %s: %s' % (c['name'], e['type'], e['where'],
                                                            e['msg'])))
            continue
        if want is None:
            continue
        for fld in sorted(set(want) | set(c)):
            if c.get(fld) != want.get(fld):
                vio.append(('case_differs_' + fld, typ,
                            'case %r: %s = %s, complete run has %s' % (
                                c['name'], fld, json.dumps(c.get(fld))[:200],
                                json.dumps(want.get(fld))[:200])))
                break
    # per-source listings (read from the case tables) must agree with the global listing
    listed = set(got)
    for s, names in (d.get('by_source') or {}).items():
        rnames = (ref.get('by_source') or {}).get(s, [])
        if names != rnames[:len(names)]:
            vio.append(('source_list_not_a_prefix', 'source',
                        'list_cases(%r) = %r is not a prefix of the complete run %r' % (
                            s, names[-3:], rnames[:len(names)][-3:])))
        extra = [x for x in names if x not in listed]
        if extra:
            vio.append(('source_list_has_unlisted_case', 'source',
                        'list_cases(%r) contains %r which list_cases() does not' % (s, extra[:3])))
    for what, msg in _raw_consistency(d):
        w, _, c = what.partition(':')
        vio.append((w, c or 'db', msg))
    if complete and n != total:
        vio.append(('complete_run_differs', 'cases',
                    'un-crashed run recorded %d cases, reference %d' % (n, total)))
    return n, '%s %s: %d of %d cases' % (hist, short, n, total), vio


def _point_label(mode, pt):
    if 'k' in pt:
        return 'k=%d' % pt['k']
    return 'j=%d (%s #%d)' % (pt['j'], pt['sc'], pt['m'])


def _proj(d):
    """What two realisations of the same crash point must agree on (paths may differ)."""
    p = {k: d.get(k) for k in ('exists', 'size', 'journal', 'cases', 'data', 'by_source', 'raw')}
    for k in ('open_error', 'list_error'):
        if k in d:
            p[k] = [d[k]['type'], d[k]['where']]
    return p


def _observe(hist, mode, pts):
    """Yield (point, response) for every crash point of the batch."""
    if mode == 'snap':
        r = _rq({'op': 'snap', 'hist': hist, 'ks': [p['k'] for p in pts]})
        for p in pts:
            one = r['snaps'].get(str(p['k'])) or {}
            if r.get('exit') != 'exit:0':
                yield p, {'exit': r.get('exit'), 'child_error': r.get('child_error')}
            elif one.get('missing'):
                # the recording ended before boundary k was reached: state = complete run
                yield p, {'exit': 'exit:0', 'dbs': (r.get('end') or {}).get('dbs'),
                          'beyond_end': True}
            else:
                yield p, {'exit': 'snap', 'dbs': one['dbs']}
        return
    for p in pts:
        req = {'op': 'run', 'hist': hist, 'mode': mode}
        req.update(p)
        yield p, _rq(req)


def check_case(case):
    case = _expand(case)
    hist, mode, pts = case['hist'], case['mode'], case['pts']
    if not pts:
        return {'evals': 0, 'nontrivial': 0, 'outcome': {}, 'violations': []}
    skip_first = case.get('skip_first', 0)      # first point repeats the previous batch's last
    started = case.get('started') or {}
    ref, problems = _reference(hist)
    vios = []
    outcomes = {}
    evals = nontrivial = inside = xchecked = 0
    nsig = {}

    def V(what, cls, msg, vpts, **kw):
        # at most two violating points per signature and batch are handed to the runner (it
        # re-executes each one twice); all of them are counted
        sig = 'C18:%s:%s' % (what, cls)
        nsig[sig] = nsig.get(sig, 0) + 1
        if nsig[sig] > 2:
            return
        c = {'hist': hist, 'mode': mode, 'pts': vpts, 'n': case.get('n')}
        if started:
            c['started'] = started
        if case.get('xcheck'):
            c['xcheck'] = 1
        vios.append(dict({'sig': sig, 'msg': '%s %s %s: %s' % (hist, mode, ','.join(
            _point_label(mode, p) for p in vpts), msg), 'case': c}, **kw))

    if problems:
        V('reference_run', hist, ' ; '.join(problems)[:1500], pts[:1])
        return {'evals': 1, 'nontrivial': 0, 'outcome': '%s: reference run broken' % hist,
                'violations': vios}

    prev = None
    seen = {}
    for ip, (pt, r) in enumerate(_observe(hist, mode, pts)):
        killed = r.get('exit') in ('exit:137', 'sig:9', 'snap')
        complete = r.get('exit') == 'exit:0'
        counted = not (skip_first and ip == 0)
        if counted:
            evals += 1
        if r.get('tracer_error'):
            raise RuntimeError('strace failed: %s' % r['tracer_error'])
        if r.get('reader_died'):
            V('reader_process_died', 'any', r['reader_died'][:600], [pt])
            continue
        if (not killed and not complete) or r.get('dbs') is None:
            V('recording_raised', 'before_crash_point',
              'recording process ended with %s: %s' % (r.get('exit'),
                                                       (r.get('child_error') or '')[-800:]), [pt])
            continue
        seen[pt.get('k')] = r['dbs']
        ranks = {}
        nt = 0
        for db in DBS[hist]:
            d = r['dbs'][db]
            must_open = ('k' in pt and pt['k'] >= started.get(db, 1 << 30)) or complete
            rank, label, vv = judge(hist, db, d, ref['dbs'][db], must_open, complete)
            ranks[db] = rank
            if counted:
                outcomes[label] = outcomes.get(label, 0) + 1
            if 0 < rank < len(ref['dbs'][db]['cases']):
                nt = 1
            if counted:
                for what, cls, msg in vv:
                    V(what, cls, '%s: %s' % (db, msg), [pt])
        if counted:
            nontrivial += nt
            if case.get('inside'):
                inside += case['inside'][ip]
        # a later crash point never leaves less than an earlier one
        if prev is not None:
            for db in DBS[hist]:
                if ranks[db] < prev[1][db]:
                    V('cases_lost_at_later_crash_point', 'rank_decreases',
                      '%s: %s after the earlier crash point but %s after the later one' % (
                          db, _rank_text(prev[1][db]), _rank_text(ranks[db])), [prev[0], pt])
        prev = (pt, ranks)

    if mode == 'stmt' and case.get('xcheck') and seen:
        # harness self-check: the snapshot taken at boundary k must be what the kill at k left
        ks = sorted(k for k in seen if k is not None and k <= case.get('n', 1 << 30))
        for pt, r in _observe(hist, 'snap', [{'k': k} for k in ks]):
            if r.get('dbs') is None:
                continue
            xchecked += 1
            for db in DBS[hist]:
                a, b = _proj(seen[pt['k']][db]), _proj(r['dbs'][db])
                if a != b:
                    diff = [k for k in sorted(set(a) | set(b)) if a.get(k) != b.get(k)]
                    V('harness_snapshot_differs_from_kill', 'stmt',
                      '%s: fields %s differ between os._exit at the boundary and the snapshot '
                      'taken there' % (db, diff), [pt])

    res = {'evals': evals, 'nontrivial': nontrivial, 'outcome': outcomes, 'violations': vios,
           'counters': {'crash_points_%s' % mode: evals},
           'sample': {'hist': hist, 'mode': mode, 'points': [_point_label(mode, p) for p in pts],
                      'outcomes': sorted(outcomes)}}
    if mode in ('stmt', 'snap'):
        res['counters']['stmt_points_inside_transaction'] = inside
    if case.get('first_part'):
        res['counters']['%s_%s_boundaries' % (hist, 'sys' if mode == 'sys' else 'stmt')] = case['n']
    if xchecked:
        res['counters']['kill_vs_snapshot_crosschecks'] = xchecked
    if nsig:
        res['counters']['violating_observations'] = sum(nsig.values())
    return res


def _rank_text(r):
    return 'no readable recording' if r < 0 else '%d readable cases' % r


def finalize(tot, tier, seed):
    return {'histories': len(HISTS)}
