"""C19 - loading a recorded case restores the recorded state (DESIGN.md 4, C19)."""
import contextlib
import io
import itertools

import numpy as np

from omv.core import ir
from omv.props import c17_recording as c17
from omv import lib_c19_special as special

ID = 'C19'
LEVEL = 'model_checking'
TECHNIQUE = ('explicit enumeration of (recording scenario, recorded case, target Problem phase) on real '
             'Problems: every recorded case of the C17 scenario family is loaded with Problem.load_case '
             'into targets reached by different histories; get_val and a subsequent run_model are '
             'compared with the recorded values')
RULE = ('scenarios = 2 models (feed-forward with promotion + unit conversion + src_indices; NLBGS cycle '
        'in a subgroup) x recorder on {problem, driver, root, subgroup, component, solver} (one point at a '
        'time, full recording options; plus a filtered variant) x driver {run-once, DOE, SLSQP}; for '
        'every recorded case x target history in {fresh setup, final_setup, run_model, perturbed '
        'set_val + run_model, the recording Problem itself after overwriting its state}: load_case, '
        'then read every recorded input and output, then run_model for cases recorded at a consistent '
        'point; states = (case, target) pairs, transitions = load_case calls, traces = pairs on which '
        'all comparisons held; plus two hand-built families (omv/lib_c19_special.py): every subset of '
        '4 prefix-named siblings overriding System.load_case x recording source, and 3 instances of '
        'one group class x every recorder placement; non-trivial = case holds >= 2 variables and the target state differed '
        'from the recorded one before the load')
LEVEL_TEXT = ('Each recorded case is loaded into every target phase; get_val must return the recorded '
              'value for every recorded output and (absolute) input, and for driver/problem cases a '
              'subsequent run_model must reproduce the recorded outputs to solver tolerance; complete '
              'over the scenario family and the target-history alphabet.')
LEVEL_NOTE = ('bounded scenario family (shared with C17); values compared to 1e-12 (exact storage) and '
              '1e-8 after re-running; solver-iteration cases are loaded but not re-run (not a consistent '
              'point).')
ASSUMPTIONS = ['inputs are read with Problem.get_val; for solver-iteration cases (inputs and sources '
               'mutually inconsistent by construction) the input vector itself is read '
               '(from_src=False) once vectors exist',
               'only driver and problem cases are required to be reproduced by run_model']
MIN_NONTRIVIAL = {'quick': 200, 'thorough': 800}

TARGETS = ['fresh_setup', 'final_setup', 'run_model', 'perturbed_run', 'same_problem']


def cases(tier, seed):
    out = []
    i = 0
    for mname in ('ff', 'cyc'):
        for pt in c17.POINTS:
            for drv in c17.DRIVERS[:3]:
                i += 1
                hist = ['run_driver', 'record'] if pt == 'problem' else ['run_driver']
                for filt in (False, True):
                    if filt and tier == 'quick' and i % 2:
                        continue
                    pat = (['*'], []) if not filt else (['*y', '*x0'], ['*c2*'])
                    flips = [(pt, ['record_inputs'] if pt == 'problem' else [])]
                    out.append({'model': mname, 'attach': [pt], 'driver': drv, 'hist': hist,
                                'pattern': [list(pat[0]), list(pat[1])], 'flips': flips,
                                'palette': seed % 3, 'all_cases': tier == 'thorough'})
    for c in special.families(tier):
        c = dict(c)
        c['special'] = True
        out.append(c)
    return out


def _target(sc, kind, recording_prob):
    spec = c17._spec(sc['model'], sc.get('palette', 0))
    buf = io.StringIO()
    with contextlib.redirect_stdout(buf), contextlib.redirect_stderr(buf):
        if kind == 'same_problem':
            prob = recording_prob
            for d in spec['dvs']:
                v = np.asarray(prob.get_val(d['name']))
                prob.set_val(d['name'], v * 0.0 + 1.625)
            prob.run_model()
            return prob
        prob, info = ir.build(spec)
        if kind == 'final_setup':
            prob.final_setup()
        elif kind == 'run_model':
            prob.run_model()
        elif kind == 'perturbed_run':
            for d in spec['dvs']:
                v = np.asarray(prob.get_val(d['name']))
                prob.set_val(d['name'], v * 0.0 - 0.875)
            prob.run_model()
    return prob


def check_case(sc):
    if sc.get('special'):
        return special.check(sc)
    cls = '%s/%s/%s/%s' % (sc['model'], sc['attach'][0], sc['driver'],
                           'filtered' if sc['pattern'][0] != ['*'] else 'full')
    vio = []
    import collections
    seen = collections.Counter()

    def V(what, msg):
        sig = 'C19:%s' % what
        seen[sig] += 1
        if seen[sig] <= 2:
            vio.append({'sig': sig, 'case': sc, 'msg': '%s [%s]: %s' % (what, cls, msg)})
    try:
        R = c17.run_scenario(sc, keep_prob=True)
    except Exception as exc:
        if type(exc).__name__ == 'AnalysisError':
            return {'evals': 1, 'outcome': 'not_converged', 'violations': []}
        V('scenario_raises:%s' % type(exc).__name__, str(exc)[:300])
        return {'evals': 1, 'outcome': 'violation', 'violations': vio}
    reader = R['reader']
    if reader is None:
        return {'evals': 1, 'outcome': 'no_cases', 'violations': []}
    names = reader.list_cases(out_stream=None)
    # quick: a spread of cases (first, middle, last); thorough: every case (up to 12 per source)
    pick = sorted(set([0, len(names) // 2, len(names) - 1])) if names else []
    if sc.get('all_cases'):
        pick = list(range(len(names)))[:12]
    pairs = loads = traces = nontriv = 0
    buf = io.StringIO()
    for ci in pick:
        cname = names[ci]
        case = reader.get_case(cname)
        src_kind = case.source
        rec_out = {} if case.outputs is None else {k: np.array(case.outputs[k]) for k in
                                                   case.outputs.absolute_names()}
        rec_in = {} if case.inputs is None else {k: np.array(case.inputs[k]) for k in
                                                 case.inputs.absolute_names()}
        for tk in TARGETS:
            try:
                prob = _target(sc, tk, R['prob'])
            except Exception as exc:
                if type(exc).__name__ == 'AnalysisError':
                    continue
                V('target_raises:%s' % tk, '%s: %s' % (type(exc).__name__, str(exc)[:200]))
                continue
            pairs += 1
            # was the target different before loading?
            differed = False
            try:
                for k, v in rec_out.items():
                    if not np.allclose(np.ravel(prob.get_val(k)), np.ravel(v), rtol=0, atol=1e-9):
                        differed = True
            except Exception:
                differed = True
            try:
                with contextlib.redirect_stdout(buf), contextlib.redirect_stderr(buf):
                    prob.load_case(case)
                loads += 1
            except Exception as exc:
                V('load_case_raises:%s:%s:%s' % (src_kind.split('.')[-1] if '.' in src_kind
                                                 else src_kind, tk, type(exc).__name__),
                  'case %s: %s' % (cname, str(exc)[:250]))
                continue
            ok = True
            srcs = prob.model._conn_global_abs_in2out
            overwritten = set()
            # an input whose source is also recorded gets the source's value (converted); the
            # recorded pair is consistent at driver/problem/system cases, so compare all
            for k, v in rec_out.items():
                got = np.asarray(prob.get_val(k))
                if got.size != v.size or not np.allclose(np.ravel(got), np.ravel(v), rtol=0,
                                                         atol=1e-12 * max(1.0, float(np.max(np.abs(v),
                                                                                            initial=0)))):
                    V('output_not_restored:%s:%s' % (src_kind.split('.')[-1] if '.' in src_kind else
                                                     src_kind, tk),
                      'case %s: get_val(%s) = %s recorded %s' % (cname, k, np.ravel(got).tolist()[:4],
                                                                 np.ravel(v).tolist()[:4]))
                    ok = False
            for k, v in rec_in.items():
                # the input vector itself holds the recorded value; reading through the source is
                # only meaningful for cases recorded at a consistent point
                if src_kind.endswith('nonlinear_solver'):
                    if tk == 'fresh_setup':
                        continue
                    got = np.asarray(prob.model.get_val(k, from_src=False))
                else:
                    got = np.asarray(prob.get_val(k))
                if got.size != v.size or not np.allclose(np.ravel(got), np.ravel(v), rtol=0,
                                                         atol=1e-9 * max(1.0, float(np.max(np.abs(v),
                                                                                           initial=0)))):
                    V('input_not_restored:%s:%s' % (src_kind.split('.')[-1] if '.' in src_kind else
                                                    src_kind, tk),
                      'case %s: get_val(%s) = %s recorded %s' % (cname, k, np.ravel(got).tolist()[:4],
                                                                 np.ravel(v).tolist()[:4]))
                    ok = False
            # a consistent point: run_model reproduces the recorded outputs
            if ok and src_kind in ('driver', 'problem') and len(rec_out) >= 2:
                try:
                    with contextlib.redirect_stdout(buf), contextlib.redirect_stderr(buf):
                        prob.run_model()
                    for k, v in rec_out.items():
                        got = np.asarray(prob.get_val(k))
                        if not np.allclose(np.ravel(got), np.ravel(v), rtol=0,
                                           atol=1e-8 * max(1.0, float(np.max(np.abs(v), initial=0)))):
                            V('rerun_differs:%s:%s' % (src_kind, tk), 'case %s: after run_model %s = '
                              '%s recorded %s' % (cname, k, np.ravel(got).tolist()[:4],
                                                  np.ravel(v).tolist()[:4]))
                            ok = False
                except Exception as exc:
                    if type(exc).__name__ != 'AnalysisError':
                        V('rerun_raises:%s' % tk, '%s: %s' % (type(exc).__name__, str(exc)[:200]))
                        ok = False
            traces += int(ok)
            nontriv += int(ok and differed and len(rec_out) + len(rec_in) >= 2)
    return {'evals': loads, 'nontrivial': nontriv, 'outcome': 'violation' if vio else 'ok',
            'violations': vio, 'counters': {'states': pairs, 'transitions': loads, 'traces': traces},
            'sample': cls}
