"""C20 - driver scaling is an exact, invertible affine map applied consistently (DESIGN.md 4, C20).

Small explicit models with known polynomial maps and generic non-symmetric Jacobians are declared
with every combination of scaling spec x units x indices x bounds for a design variable, a
constraint and the objective.  Everything the optimizer sees (values, bounds, derivatives, what
ScipyOptimizeDriver hands to scipy.optimize.minimize), the unscaling path back into the model and
the Lagrange multipliers are compared with hand formulas that never call OpenMDAO code.
"""
import collections
import contextlib
import io
import itertools

import numpy as np

ID = 'C20'
LEVEL = 'exploration'
TECHNIQUE = ('bounded exhaustive enumeration of driver-variable declarations (scaling spec x units x '
             'indices x bounds, full product per role and <=2-deviation ball over all roles; thorough: '
             '+ all palettes and exactly-3-deviation configurations over a reduced alphabet) on two '
             'explicit polynomial models, compared with hand-written affine formulas; scipy.optimize.'
             'minimize replaced by a recording stub to observe what the optimizer is given; exhaustive '
             'active-set KKT reference for Lagrange multipliers')
RULE = ('one evaluation = one declared problem (model, scaling spec/units/indices/bounds of design '
        'variable, constraint(s) and objective, derivative direction) on which every observable is '
        'compared, or one (QP, scaling triple, target) multiplier computation; non-trivial = at least '
        'one declared map is not the identity (scaling spec other than none or a unit conversion) and '
        'all observables were produced; for multiplier cases: at least one active bound/constraint '
        'with a multiplier that is not zero.  Every configuration is enumerated once.')
LEVEL_TEXT = ('The bookkeeping of driver scaling is discrete (which factor, which order, which slot, '
              'which sign, scalar vs array, with or without indices/units); the full product of those '
              'choices for one variable and all pairs of deviations across three variables is enumerated '
              'and every optimizer-facing observable is compared with a closed form, so any wrong factor, '
              'order, transposition or missed unit/offset inside the bound is seen.  Values are probes '
              'only (four fixed palettes).')
LEVEL_NOTE = ('Reference = NumPy formulas written from the add_design_var/add_constraint docstrings '
              '((v_units + adder) * scaler, adder = -ref0, scaler = 1/(ref - ref0)) and hand-derived '
              'Jacobians of the polynomial models; unit factors are literal constants.  Only the default '
              'Autoscaler and ScipyOptimizeDriver(SLSQP) are driven; pyOptSparse is not installed.')
ASSUMPTIONS = [
    'bounds are given in the declared units of the driver variable (docstring: units are converted '
    'before scaling) and their image is (b + adder) * scaler elementwise; |b| >= INF_BOUND stays '
    '+-INF_BOUND',
    'for a negative scaler the property text does not say whether lower/upper are exchanged: both '
    'conventions are accepted (image of each bound in its own slot, or slots exchanged), the observed '
    'convention is counted as an outcome and must be used consistently by SciPy hand-over',
    'driver_scaling=False is required to return unscaled values/derivatives either in model units or '
    'in the declared units, consistently for values and derivatives of one problem (the docstrings do '
    'not say which)',
    'the SciPy hand-over of constraints is only compared when every element of a constraint has the '
    'same bound pattern (mixed per-element patterns are C21 territory, candidates A-10/A-11)',
    'Lagrange multipliers: no unit conversion and no negative scaler on a bounded variable (active-set '
    'detection in scaled space is not defined by the property for exchanged bounds); degenerate '
    'optima (zero multiplier on an active constraint, near-active inactive constraint) are skipped',
    'compute_lagrange_multipliers(use_sparse_solve=True) uses lsqr with its default 1e-6 tolerances: '
    'compared at 2e-5 relative; the dense path at 1e-8',
]
MIN_NONTRIVIAL = {'quick': 5000, 'thorough': 25000}

INF_BOUND = 1.0e30

# ------------------------------------------------------------------ palettes (seed % 4)

_BASE = dict(
    A=[[1.5, -0.25, 3.0], [0.5, 2.0, -0.75], [-1.25, 0.375, 2.5]],
    B=[[0.75, -1.5], [2.25, 0.125], [-0.625, 1.75]],
    C=[[2.0, -1.75, 0.25], [-0.5, 1.25, 3.5]],
    D=[[1.125, -2.5], [0.875, 0.625]],
    E=[[-2.25, 0.75, 1.375], [3.25, -0.375, 0.5]],
    q=[0.5, -0.25, 0.75], h=[1.0, 2.0, 4.0], k=[0.375, -1.25],
    c=[0.25, -1.5, 2.0], d=[-0.75, 1.25], e=0.625,
    cy=[0.25, -1.0, 0.5], cg=[1.5, -0.25], cf=0.375, cv=[-0.5, 2.0],
    P=[[1.25, -0.5, 0.25], [0.75, 1.5, -1.0], [-0.25, 0.5, 2.0]], p=[0.125, -0.375, 0.25],
    x0=[0.5, -1.25, 3.0], z0=[1.75, -0.5], x1=[-0.75, 2.5, 1.125], z1=[0.25, 2.25],
    # scaling values: [0:3] used for arrays, [0] for scalars
    S=[2.0, 0.25, 8.0], Sneg=[-4.0, -0.5, -16.0], Smix=[2.0, -0.25, 8.0],
    Ad=[1.5, -2.75, 0.625],
    R=[3.0, 5.0, 1.5], R0=[1.0, -3.0, 1.25],        # ref - ref0 = 2, 8, .25
    Ronly=[4.0, 0.5, -2.0], R0only=[-1.0, 0.5, 0.75],
    L=[-1.25, -2.5, -0.75], U=[3.5, 5.25, 2.75], EQ=[0.375, -1.125, 2.625],
)


def _mk_palette(k):
    fac = [1.0, 2.0, 0.5, 4.0][k]
    out = {}
    for key, val in _BASE.items():
        a = np.array(val, dtype=float)
        if k and a.ndim >= 1 and key not in ('S', 'Sneg', 'Smix', 'Ad', 'R', 'R0', 'Ronly', 'R0only',
                                            'L', 'U', 'EQ'):
            a = np.roll(a, k, axis=-1)
            if a.ndim == 2:
                a = np.roll(a, k, axis=0)
        if key in ('S', 'Sneg', 'Smix'):
            a = a * fac
        elif key in ('Ad',):
            a = a + 0.25 * k
        elif key in ('R', 'R0'):
            # keep differences dyadic, move the origin
            a = a * fac + 0.5 * k
        elif key in ('L', 'U', 'EQ'):
            a = a + 0.125 * k
        elif key in ('x0', 'x1', 'z0', 'z1'):
            a = a + 0.0625 * k
        out[key] = a
    return out


_PALS = [_mk_palette(k) for k in range(4)]

# unit tables: model unit, declared unit, factor, offset  (declared = model * factor + offset)
_UNITS = {
    'none': ('m', None, 1.0, 0.0),
    'same': ('m', 'm', 1.0, 0.0),
    'compat': ('m', 'cm', 100.0, 0.0),
    'offset': ('degC', 'degF', 1.8, 32.0),
}

SPECS_SC = ['none', 'scaler', 'adder', 'scaler_adder', 'ref', 'ref0', 'ref_ref0', 'ref_lt_ref0',
            'neg_scaler', 'neg_scaler_adder']
SPECS_ARR = ['arr_scaler', 'arr_adder', 'arr_scaler_adder', 'arr_ref', 'arr_ref0', 'arr_ref_ref0',
             'arr_ref_lt_ref0', 'arr_neg_scaler', 'arr_mix_scaler', 'arr_scaler_sc_adder',
             'sc_ref_arr_ref0', 'arr_adder_zero', 'arr_ref0_zero']
SPECS = SPECS_SC + SPECS_ARR
UNITS = ['none', 'same', 'compat', 'offset']
IDXS = ['none', 'list', 'slice']
OBJ_IDXS = ['none', 'int', 'negint']
DV_BOUNDS = ['none', 'lo', 'up', 'both', 'lo_arr', 'up_arr', 'both_arr', 'both_arr_inf', 'lo_inf_up',
             'both_npinf']
CON_BOUNDS = ['lo', 'up', 'both', 'lo_arr', 'up_arr', 'both_arr', 'both_arr_inf', 'lo_inf_up',
              'both_npinf', 'eq', 'eq_arr']


def spec_kwargs(spec, size, pal):
    """keyword arguments (scaler/adder/ref/ref0) of a scaling spec for a variable of driver size."""
    def arr(key):
        return np.array(pal[key][:size], dtype=float)

    def sc(key):
        return float(pal[key][0])
    t = {
        'none': {},
        'scaler': {'scaler': sc('S')},
        'adder': {'adder': sc('Ad')},
        'scaler_adder': {'scaler': sc('S'), 'adder': sc('Ad')},
        'ref': {'ref': sc('Ronly')},
        'ref0': {'ref0': sc('R0only')},
        'ref_ref0': {'ref': sc('R'), 'ref0': sc('R0')},
        'ref_lt_ref0': {'ref': sc('R0'), 'ref0': sc('R')},
        'neg_scaler': {'scaler': sc('Sneg')},
        'neg_scaler_adder': {'scaler': sc('Sneg'), 'adder': sc('Ad')},
        'arr_scaler': {'scaler': arr('S')},
        'arr_adder': {'adder': arr('Ad')},
        'arr_scaler_adder': {'scaler': arr('S'), 'adder': arr('Ad')},
        'arr_ref': {'ref': arr('Ronly')},
        'arr_ref0': {'ref0': arr('R0only')},
        'arr_ref_ref0': {'ref': arr('R'), 'ref0': arr('R0')},
        'arr_ref_lt_ref0': {'ref': arr('R0'), 'ref0': arr('R')},
        'arr_neg_scaler': {'scaler': arr('Sneg')},
        'arr_mix_scaler': {'scaler': arr('Smix'), 'adder': arr('Ad')},
        'arr_scaler_sc_adder': {'scaler': arr('S'), 'adder': sc('Ad')},
        'sc_ref_arr_ref0': {'ref': 6.0 + sc('R'), 'ref0': arr('R0')},
    }
    if spec in ('arr_adder_zero', 'arr_ref0_zero'):
        # array offsets with one entry exactly zero and the others not
        a = arr('Ad') if spec == 'arr_adder_zero' else arr('R0only')
        a[0] = 0.0
        return {'adder': a} if spec == 'arr_adder_zero' else {'ref0': a}
    return t[spec]


def affine(kw, size):
    """reference (adder, scaler) arrays of a spec: docstring formulas."""
    if 'ref' in kw or 'ref0' in kw:
        ref = np.broadcast_to(np.asarray(kw.get('ref', 1.0), dtype=float), (size,))
        ref0 = np.broadcast_to(np.asarray(kw.get('ref0', 0.0), dtype=float), (size,))
        return -ref0, 1.0 / (ref - ref0)
    adder = np.broadcast_to(np.asarray(kw.get('adder', 0.0), dtype=float), (size,))
    scaler = np.broadcast_to(np.asarray(kw.get('scaler', 1.0), dtype=float), (size,))
    return adder.copy(), scaler.copy()


def bound_kwargs(bounds, size, pal):
    L = np.array(pal['L'][:size])
    U = np.array(pal['U'][:size])
    EQ = np.array(pal['EQ'][:size])
    if bounds == 'none':
        return {}
    if bounds == 'lo':
        return {'lower': float(L[0])}
    if bounds == 'up':
        return {'upper': float(U[0])}
    if bounds == 'both':
        return {'lower': float(L[0]), 'upper': float(U[0])}
    if bounds == 'lo_arr':
        return {'lower': L}
    if bounds == 'up_arr':
        return {'upper': U}
    if bounds == 'both_arr':
        return {'lower': L, 'upper': U}
    if bounds == 'both_arr_inf':
        lo, up = L.copy(), U.copy()
        lo[0] = -INF_BOUND
        up[-1] = INF_BOUND
        if size == 1:
            lo[0] = L[0]
        return {'lower': lo, 'upper': up}
    if bounds == 'lo_inf_up':
        return {'lower': -INF_BOUND, 'upper': float(U[0])}
    if bounds == 'both_npinf':
        lo, up = L.copy(), U.copy()
        up[0] = np.inf
        if size > 1:
            lo[-1] = -np.inf
        return {'lower': lo, 'upper': up}
    if bounds == 'eq':
        return {'equals': float(EQ[0])}
    if bounds == 'eq_arr':
        return {'equals': EQ}
    raise ValueError(bounds)


def idx_of(idx, n):
    """(argument given to OpenMDAO, reference position array)"""
    if idx == 'none':
        return None, np.arange(n)
    if idx == 'list':
        return [n - 1, 0], np.array([n - 1, 0])
    if idx == 'slice':
        return slice(1, n), np.arange(1, n)
    if idx == 'neglist':
        return [-1, 0], np.array([n - 1, 0])
    if idx == 'int':
        return 1, np.array([1])
    if idx == 'negint':
        return -1, np.array([n - 1])
    raise ValueError(idx)


# ------------------------------------------------------------------ reference models

def ref_poly(pal, x, z):
    """values and model-unit Jacobians of the Poly component."""
    A, B, C, D, E = pal['A'], pal['B'], pal['C'], pal['D'], pal['E']
    q, h, k, c, d, e = pal['q'], pal['h'], pal['k'], pal['c'], pal['d'], pal['e']
    val = {
        'y': A @ x + B @ z + q * x * x + pal['cy'],
        'g': C @ x + D @ z + pal['cg'],
        'f': np.array([c @ x + d @ z + np.sum(h * x * x) + e * x[0] * z[1] + pal['cf']]),
        'fv': E @ x + k * z * z + pal['cv'],
    }
    dfdx = c + 2 * h * x
    dfdx[0] += e * z[1]
    dfdz = d.copy()
    dfdz[1] += e * x[0]
    J = {
        ('y', 'x'): A + np.diag(2 * q * x), ('y', 'z'): B.copy(),
        ('g', 'x'): C.copy(), ('g', 'z'): D.copy(),
        ('f', 'x'): dfdx.reshape(1, 3), ('f', 'z'): dfdz.reshape(1, 2),
        ('fv', 'x'): E.copy(), ('fv', 'z'): np.diag(2 * k * z),
    }
    return val, J


def ref_model(model, pal, x, z):
    if model == 'M1':
        return ref_poly(pal, x, z)
    # M2: c1 computes w = P x + p x^2 declared in cm and is connected to Poly.x declared in m
    P, p = pal['P'], pal['p']
    w = 0.01 * (P @ x + p * x * x)
    dw = 0.01 * (P + np.diag(2 * p * x))
    val, J = ref_poly(pal, w, z)
    for r in ('y', 'g', 'f', 'fv'):
        J[(r, 'x')] = J[(r, 'x')] @ dw
    return val, J


# ------------------------------------------------------------------ OpenMDAO models

_CLS = {}


def _classes():
    if 'Poly' in _CLS:
        return _CLS
    import openmdao.api as om

    class Poly(om.ExplicitComponent):
        def initialize(self):
            self.options.declare('pal', types=int)
            self.options.declare('units', types=dict)

        def setup(self):
            u = self.options['units']
            self.add_input('x', np.zeros(3), units=u.get('x'))
            self.add_input('z', np.zeros(2), units=u.get('z'))
            self.add_output('y', np.zeros(3), units=u.get('y'))
            self.add_output('g', np.zeros(2), units=u.get('g'))
            self.add_output('f', 0.0, units=u.get('f'))
            self.add_output('fv', np.zeros(2), units=u.get('fv'))
            self.declare_partials('*', '*')

        def compute(self, inputs, outputs):
            pal = _PALS[self.options['pal']]
            val, _ = ref_poly(pal, np.array(inputs['x']), np.array(inputs['z']))
            for k_, v in val.items():
                outputs[k_] = v

        def compute_partials(self, inputs, partials):
            pal = _PALS[self.options['pal']]
            _, J = ref_poly(pal, np.array(inputs['x']), np.array(inputs['z']))
            for (o, i), v in J.items():
                partials[o, i] = v

    class Pre(om.ExplicitComponent):
        def initialize(self):
            self.options.declare('pal', types=int)
            self.options.declare('xunits', default=None)

        def setup(self):
            self.add_input('x', np.zeros(3), units=self.options['xunits'])
            self.add_output('w', np.zeros(3), units='cm')
            self.declare_partials('w', 'x')

        def compute(self, inputs, outputs):
            pal = _PALS[self.options['pal']]
            x = inputs['x']
            outputs['w'] = pal['P'] @ x + pal['p'] * x * x

        def compute_partials(self, inputs, partials):
            pal = _PALS[self.options['pal']]
            partials['w', 'x'] = pal['P'] + np.diag(2 * pal['p'] * inputs['x'])

    _CLS['Poly'] = Poly
    _CLS['Pre'] = Pre
    return _CLS


# Note: the Poly/Pre components reuse ref_poly for their *numbers*; the oracle for the property is
# the affine driver map and the Jacobian scaling, which OpenMDAO does not get from these functions.

_DEF = {
    'x': {'spec': 'none', 'units': 'none', 'idx': 'none', 'bounds': 'none'},
    'y': {'spec': 'none', 'units': 'none', 'idx': 'none', 'bounds': 'up', 'var': 'y',
          'linear': False},
    'obj': {'spec': 'none', 'units': 'none', 'idx': 'none'},
    'mode': 'auto',
}
# fixed, non-trivial declarations of the secondary variables (never the identity map)
_ZFIX = {'ref': np.array([5.0, 1.0]), 'ref0': np.array([1.0, -1.0]), 'lower': -20.0,
         'upper': np.array([30.0, INF_BOUND])}
_GFIX = {'scaler': np.array([4.0, 0.125]), 'adder': 0.75, 'upper': np.array([40.0, 50.0])}
_YFIX = {'scaler': np.array([4.0, 0.125, 0.5]), 'adder': 0.75,
         'upper': np.array([40.0, 50.0, 60.0])}
_GALT = {'ref': 0.5, 'ref0': -1.5, 'lower': -100.0}      # aliased constraint in M2 on g[1]


def names(model):
    if model == 'M1':
        return {'x': 'x', 'z': 'z', 'y': 'y', 'g': 'g', 'f': 'f', 'fv': 'fv'}
    return {'x': 'sub.x', 'z': 'sub.z', 'y': 'c2.y', 'g': 'c2.g', 'f': 'c2.f', 'fv': 'c2.fv'}


def full_cfg(cfg):
    out = {'model': cfg.get('model', 'M1'), 'pal': cfg.get('pal', 0),
           'mode': cfg.get('mode', _DEF['mode']), 'api': cfg.get('api', 'add')}
    for v in ('x', 'y', 'obj'):
        d = dict(_DEF[v])
        d.update(cfg.get(v, {}))
        out[v] = d
    return out


def build(cfg, driver=None):
    """Build and set up the OpenMDAO problem of a configuration."""
    import openmdao.api as om
    cls = _classes()
    model, pal_i = cfg['model'], cfg['pal']
    pal = _PALS[pal_i]
    nm = names(model)
    xu = _UNITS[cfg['x']['units']]
    yu = _UNITS[cfg['y']['units']]
    ou = _UNITS[cfg['obj']['units']]
    objvar = 'f' if cfg['obj']['idx'] == 'none' else 'fv'
    p = om.Problem(reports=None)
    if driver is not None:
        p.driver = driver
    m = p.model
    yc = cfg['y']
    cv = yc['var']                       # variable carrying the constraint under test
    ov = 'g' if cv == 'y' else 'y'       # variable carrying the fixed secondary constraint(s)
    ncv, nov = (3, 2) if cv == 'y' else (2, 3)
    if yc['linear'] and not (cv == 'g' and model == 'M1'):
        raise ValueError('linear flag only valid for g in M1')
    if model == 'M1':
        units = {'x': xu[0], 'z': 'm', cv: yu[0], ov: 'm', objvar: ou[0]}
        m.add_subsystem('c', cls['Poly'](pal=pal_i, units=units), promotes=['*'])
    else:
        sub = m.add_subsystem('sub', om.Group())
        ivc = sub.add_subsystem('ivc', om.IndepVarComp(), promotes=['*'])
        ivc.add_output('x', np.zeros(3), units=xu[0])
        ivc.add_output('z', np.zeros(2), units='m')
        sub.add_subsystem('c1', cls['Pre'](pal=pal_i, xunits=xu[0]), promotes_inputs=['x'])
        units = {'x': 'm', 'z': 'm', cv: yu[0], ov: 'm', objvar: ou[0]}
        m.add_subsystem('c2', cls['Poly'](pal=pal_i, units=units))
        m.connect('sub.c1.w', 'c2.x')
        m.connect('sub.z', 'c2.z')

    # ---- declarations
    decl = {}
    xi, xpos = idx_of(cfg['x']['idx'], 3)
    kw = dict(spec_kwargs(cfg['x']['spec'], len(xpos), pal))
    kw.update(bound_kwargs(cfg['x']['bounds'], len(xpos), pal))
    setopt = cfg.get('api', 'add') == 'set_options'
    if setopt:
        # declared plain, scaling and bounds given afterwards through set_design_var_options
        m.add_design_var(nm['x'], indices=xi, units=xu[1])
        if kw:
            m.set_design_var_options(nm['x'], **kw)
    else:
        m.add_design_var(nm['x'], indices=xi, units=xu[1], **kw)
    decl['x'] = ('dv', nm['x'], 'x', xpos, kw, xu)
    m.add_design_var(nm['z'], **_ZFIX)
    decl['z'] = ('dv', nm['z'], 'z', np.arange(2), dict(_ZFIX), _UNITS['none'])

    yi, ypos = idx_of(yc['idx'], ncv)
    kw = dict(spec_kwargs(yc['spec'], len(ypos), pal))
    kw.update(bound_kwargs(yc['bounds'], len(ypos), pal))
    if setopt:
        bk = {k: v for k, v in kw.items() if k in ('lower', 'upper', 'equals')}
        sk = {k: v for k, v in kw.items() if k not in bk}
        m.add_constraint(nm[cv], indices=yi, units=yu[1], linear=bool(yc['linear']), **bk)
        if sk:
            m.set_constraint_options(nm[cv], **sk)
    else:
        m.add_constraint(nm[cv], indices=yi, units=yu[1], linear=bool(yc['linear']), **kw)
    decl['y'] = ('con', nm[cv], cv, ypos, kw, yu)
    fix = _GFIX if ov == 'g' else _YFIX
    if model == 'M1':
        m.add_constraint(nm[ov], **fix)
        decl['g'] = ('con', nm[ov], ov, np.arange(nov), dict(fix), _UNITS['none'])
    else:
        # two constraints on disjoint entries of the same source: the second needs an alias
        kw = {'scaler': fix['scaler'][:1], 'adder': fix['adder'], 'upper': fix['upper'][:1]}
        m.add_constraint(nm[ov], indices=[0], **kw)
        decl['g'] = ('con', nm[ov], ov, np.array([0]), kw, _UNITS['none'])
        m.add_constraint(nm[ov], indices=[1], alias='g_alt', **_GALT)
        decl['g_alt'] = ('con', 'g_alt', ov, np.array([1]), dict(_GALT), _UNITS['none'])

    if objvar == 'f':
        oi, opos = None, np.arange(1)
    else:
        oi, opos = idx_of(cfg['obj']['idx'], 2)
    kw = dict(spec_kwargs(cfg['obj']['spec'], 1, pal))
    if setopt:
        m.add_objective(nm[objvar], index=oi, units=ou[1])
        if kw:
            m.set_objective_options(nm[objvar], **kw)
    else:
        m.add_objective(nm[objvar], index=oi, units=ou[1], **kw)
    decl['obj'] = ('obj', nm[objvar], objvar, opos, kw, ou)

    if cfg['mode'] == 'auto':
        p.setup()
    else:
        p.setup(mode=cfg['mode'])
    return p, decl


class RefVar(object):
    """Reference driver view of one declared variable."""

    def __init__(self, key, d):
        self.key = key
        self.role, self.name, self.var, self.pos, kw, u = d
        self.size = len(self.pos)
        self.adder, self.scaler = affine(kw, self.size)
        self.ufac, self.uoff = u[2], u[3]
        self.has_units = u[1] is not None and (u[2] != 1.0 or u[3] != 0.0)
        self.kw = kw

    def decl_units(self, vmodel):
        return vmodel[self.pos] * self.ufac + self.uoff

    def scaled(self, vmodel):
        return (self.decl_units(vmodel) + self.adder) * self.scaler

    def unscale_to_model(self, vs):
        return ((vs / self.scaler - self.adder) - self.uoff) / self.ufac

    def bound(self, which):
        """(raw bound array in declared units, image under the affine map with INF preserved)"""
        if which == 'equals':
            b = self.kw.get('equals')
            if b is None:
                return None, None
            b = np.broadcast_to(np.asarray(b, dtype=float), (self.size,))
            return b, (b + self.adder) * self.scaler
        if which == 'lower':
            b = np.broadcast_to(np.asarray(self.kw.get('lower', -INF_BOUND), dtype=float),
                                (self.size,))
            inf = b <= -INF_BOUND
            img = np.where(inf, -INF_BOUND, (np.where(inf, 0.0, b) + self.adder) * self.scaler)
        else:
            b = np.broadcast_to(np.asarray(self.kw.get('upper', INF_BOUND), dtype=float),
                                (self.size,))
            inf = b >= INF_BOUND
            img = np.where(inf, INF_BOUND, (np.where(inf, 0.0, b) + self.adder) * self.scaler)
        return b, img


def _close(got, want, scale=None, rtol=1e-11):
    got = np.asarray(got, dtype=float)
    want = np.asarray(want, dtype=float)
    if got.shape != want.shape:
        return False
    if scale is None:
        scale = np.abs(want)
    tol = rtol * (np.asarray(scale) + 1e-300) + 1e-13 * rtol / 1e-11
    big = np.abs(want) >= INF_BOUND
    ok = np.where(big, got == want, np.abs(got - want) <= tol)
    return bool(np.all(ok)) and not bool(np.any(np.isnan(got)))


def _short(a):
    return np.array2string(np.asarray(a, dtype=float), precision=12, separator=',',
                           max_line_width=400).replace('\n', '')


def _sigclass(cfg, key):
    """structural class of the declaration of variable `key` (x / y / obj) for signatures"""
    if key in ('z', 'g', 'g_alt'):
        return key + '/fixed'
    c = cfg[key]
    name = key
    if key == 'y':
        name = 'con(%s%s)' % (c['var'], ',linear' if c['linear'] else '')
    return '%s/%s/u=%s%s' % (name, _speccls(c['spec']), c['units'],
                             '/set_options' if cfg.get('api') == 'set_options' else '')


def _speccls(spec):
    if spec == 'none':
        return 'none'
    arr = 'arr' if 'arr' in spec else 'sc'
    neg = '-neg' if ('neg' in spec or 'lt' in spec or 'mix' in spec) else ''
    return arr + neg


class _Stop(Exception):
    pass


def _section(obs):
    """which part of check_cfg has to be re-run to replay a violation of this observable"""
    if obs.startswith('totals_subset'):
        return 'subset'
    if obs.startswith(('scipy', 'unscale_roundtrip', 'scale_roundtrip', 'run_driver')):
        return 'scipy'
    if obs.startswith(('value', 'bound')):
        return 'values'
    return None


def check_cfg(cfg0, only=None):
    """Run every observable for one configuration.  Returns (outcomes, nontrivial, violations).

    `only` restricts the run to one group of observables (used by the replay form of a violation):
    'values' (values and bounds), 'subset' (+ user-selected total sub-blocks), 'scipy' (+ the
    SciPy hand-over); None runs everything."""
    import openmdao.api as om
    import openmdao.drivers.scipy_optimizer as so_mod
    cfg = full_cfg(cfg0)
    case = {'kind': 'cfg', 'cfg': cfg}
    pal = _PALS[cfg['pal']]
    oc = collections.Counter()
    vio = []

    def V(obs, key, msg, extra='', cls=None):
        sig = 'C20:%s:%s' % (obs, cls if cls is not None else _sigclass(cfg, key) + extra)
        if any(v['sig'] == sig for v in vio):
            return
        vcase = dict(case)
        sec = _section(obs)
        if sec:
            vcase['only'] = sec
        vio.append({'sig': sig, 'case': vcase,
                    'msg': '%s on %s [%s]: %s' % (obs, key, _cfgstr(cfg), msg)})

    do_totals = only is None
    do_subset = only in (None, 'subset')
    do_scipy = only in (None, 'scipy')
    drv = om.ScipyOptimizeDriver(optimizer='SLSQP', disp=False)
    drv.options['invalid_desvar_behavior'] = 'ignore'
    try:
        with contextlib.redirect_stdout(io.StringIO()):
            p, decl = build(cfg, drv)
            nm = names(cfg['model'])
            p.set_val(nm['x'], pal['x0'])
            p.set_val(nm['z'], pal['z0'])
            p.final_setup()
            p.run_model()
    except Exception as exc:
        vio.append({'sig': 'C20:setup_raises:%s:%s' % (type(exc).__name__, _worst(cfg)),
                    'case': case, 'msg': 'setup/run raised %s: %s [%s]' % (
                        type(exc).__name__, str(exc)[:300], _cfgstr(cfg))})
        return {'setup_raises': 1}, 0, vio

    rv = {k_: RefVar(k_, d) for k_, d in decl.items()}
    dvs = [k_ for k_ in rv if rv[k_].role == 'dv']
    cons = [k_ for k_ in rv if rv[k_].role == 'con']
    x0, z0 = pal['x0'], pal['z0']
    val0, J0 = ref_model(cfg['model'], pal, x0, z0)
    mval0 = dict(val0)
    mval0['x'] = x0
    mval0['z'] = z0
    d = p.driver

    def guarded(obs, key, fn):
        try:
            with contextlib.redirect_stdout(io.StringIO()):
                return fn()
        except Exception as exc:
            V(obs + '_raises', key, '%s: %s' % (type(exc).__name__, str(exc)[:300]),
              ':' + type(exc).__name__)
            return None

    # ---------------- values
    unit_conv = None     # convention of driver_scaling=False: 'declared' or 'model'
    any_units = any(r.has_units for r in rv.values())
    for ds in (True, False):
        got = {}
        g1 = guarded('values', 'x', lambda: d.get_design_var_values(driver_scaling=ds))
        g2 = guarded('values', 'y', lambda: d.get_constraint_values(driver_scaling=ds))
        g3 = guarded('values', 'obj', lambda: d.get_objective_values(driver_scaling=ds))
        for g in (g1, g2, g3):
            if g is not None:
                got.update(g)
        if ds:
            for k_, r in rv.items():
                if r.name not in got:
                    continue
                want = r.scaled(mval0[r.var])
                scale = (np.abs(r.decl_units(mval0[r.var])) + np.abs(r.adder) + abs(r.uoff)) * \
                    np.abs(r.scaler)
                if not _close(got[r.name], want, scale):
                    V('value_scaled', k_, 'got %s expected %s' % (_short(got[r.name]), _short(want)))
        else:
            convs = set()
            for k_, r in rv.items():
                if r.name not in got:
                    continue
                w_decl = r.decl_units(mval0[r.var])
                w_model = mval0[r.var][r.pos]
                okd = _close(got[r.name], w_decl, np.abs(w_decl) + abs(r.uoff))
                okm = _close(got[r.name], w_model)
                if not (okd or okm):
                    V('value_unscaled', k_, 'got %s expected %s (declared units) or %s (model '
                      'units)' % (_short(got[r.name]), _short(w_decl), _short(w_model)))
                elif r.has_units:
                    convs.add('declared' if okd else 'model')
            if len(convs) > 1:
                V('value_unscaled_mixed_unit_convention', 'x', 'driver_scaling=False returns some '
                  'variables in model units and others in declared units')
            elif convs:
                unit_conv = convs.pop()
    if unit_conv:
        oc['unscaled_in_%s_units' % unit_conv] += 1

    # ---------------- bounds
    swap_conv = None
    res = guarded('bounds', 'x', lambda: (d._autoscaler.get_bounds_scaling('design_var'),
                                          d._autoscaler.get_bounds_scaling('constraint')))
    bnd = {}
    if res is not None:
        (lo_dv, up_dv, _), (lo_c, up_c, eq_c) = res
        convs = set()
        for k_, r in rv.items():
            if r.role == 'obj':
                continue
            lo_v, up_v = (lo_dv, up_dv) if r.role == 'dv' else (lo_c, up_c)
            try:
                glo = np.array(lo_v[r.name], dtype=float)
                gup = np.array(up_v[r.name], dtype=float)
                geq = np.array(eq_c[r.name], dtype=float) if r.role == 'con' else None
            except Exception as exc:
                V('bounds_raises', k_, '%s: %s' % (type(exc).__name__, exc),
                  ':' + type(exc).__name__)
                continue
            blo, wlo = r.bound('lower')
            bup, wup = r.bound('upper')
            beq, weq = r.bound('equals')
            bnd[k_] = (glo, gup, geq)
            slo = (np.abs(blo) * (np.abs(blo) < INF_BOUND) + np.abs(r.adder)) * np.abs(r.scaler)
            sup = (np.abs(bup) * (np.abs(bup) < INF_BOUND) + np.abs(r.adder)) * np.abs(r.scaler)
            neg = r.scaler < 0
            if beq is not None:
                if not _close(geq, weq, (np.abs(beq) + np.abs(r.adder)) * np.abs(r.scaler)):
                    V('bound_equals', k_, 'got %s expected %s' % (_short(geq), _short(weq)),
                      '/b=' + _bcls(cfg, k_))
                continue
            if geq is not None and not np.all(np.isnan(geq)):
                V('bound_equals', k_, 'inequality constraint has equals image %s' % _short(geq),
                  '/b=' + _bcls(cfg, k_))
            ok_plain = _close(glo, wlo, slo) and _close(gup, wup, sup)
            if not neg.any():
                if not ok_plain:
                    V('bound_image', k_, 'lower/upper got %s / %s expected %s / %s' % (
                        _short(glo), _short(gup), _short(wlo), _short(wup)), '/b=' + _bcls(cfg, k_))
                continue
            # negative scaler: image of each bound in its own slot, or slots exchanged there
            xlo = np.where(neg, np.where(wup >= INF_BOUND, -INF_BOUND, wup), wlo)
            xup = np.where(neg, np.where(wlo <= -INF_BOUND, INF_BOUND, wlo), wup)
            ok_swap = _close(glo, xlo, np.where(neg, sup, slo)) and \
                _close(gup, xup, np.where(neg, slo, sup))
            if ok_plain and ok_swap:
                pass
            elif ok_plain:
                convs.add('unswapped')
            elif ok_swap:
                convs.add('swapped')
            else:
                V('bound_image', k_, 'negative scaler: lower/upper got %s / %s expected %s / %s or '
                  'exchanged' % (_short(glo), _short(gup), _short(wlo), _short(wup)),
                  '/b=' + _bcls(cfg, k_))
        if len(convs) > 1:
            V('bound_mixed_swap_convention', 'x', 'negative scalers: bounds exchanged for some '
              'variables and not for others')
        elif convs:
            swap_conv = convs.pop()
            oc['neg_scaler_bounds_' + swap_conv] += 1

    # ---------------- derivatives
    def want_J(r_of, r_wrt, Jm, scaled, conv):
        blk = Jm[(r_of.var, r_wrt.var)][np.ix_(r_of.pos, r_wrt.pos)]
        fo = np.full(r_of.size, 1.0)
        fi = np.full(r_wrt.size, 1.0)
        if scaled or conv == 'declared':
            fo = fo * r_of.ufac
            fi = fi * r_wrt.ufac
        if scaled:
            fo = fo * r_of.scaler
            fi = fi * r_wrt.scaler
        return (fo[:, None] * blk) / fi[None, :]

    nl_resp = ['obj'] + [k_ for k_ in cons if not (k_ == 'y' and cfg['y']['linear'])]
    all_resp = ['obj'] + cons

    def want_noun(r_of, r_wrt, Jm):
        """driver scaling applied, unit factors omitted (diagnosis of a known failure class)"""
        blk = Jm[(r_of.var, r_wrt.var)][np.ix_(r_of.pos, r_wrt.pos)]
        return (r_of.scaler[:, None] * blk) / r_wrt.scaler[None, :]

    def cmp_J(obsname, J, Jm, scaled, conv, ofs, wrts, required):
        for ko in ofs:
            for kw_ in wrts:
                ro, rw = rv[ko], rv[kw_]
                key = (ro.name, rw.name)
                if key not in J:
                    if ko in required:
                        V(obsname + '_missing', ko, 'no block %s' % (key,))
                    continue
                want = want_J(ro, rw, Jm, scaled, conv)
                tolsc = np.abs(want) + np.max(np.abs(want)) * 1e-3
                if not _close(J[key], want, tolsc, rtol=1e-10):
                    who = ko if (ro.has_units or not rw.has_units) else kw_
                    msg = 'd%s/d%s got %s expected %s' % (ro.name, rw.name, _short(J[key]),
                                                          _short(want))
                    if scaled and (ro.has_units or rw.has_units) and _close(
                            J[key], want_noun(ro, rw, Jm), tolsc, rtol=1e-10):
                        # diagnosed: driver scaling applied, unit conversion factor left out
                        V(obsname + '_without_unit_factor', who, msg,
                          cls='%s/u=%s' % (rv[who].role, cfg[who]['units']))
                    else:
                        V(obsname, who, msg, '/wrt=' + _sigclass(cfg, kw_) if who == ko else
                          '/of=' + _sigclass(cfg, ko))

    # (a) the optimization Jacobian through the public API with the driver's own of/wrt
    Jt = Jf = Jd = Ja = None
    if do_totals:
        Jt = guarded('totals_scaled', 'x', lambda: p.compute_totals(
            driver_scaling=True, return_format='flat_dict'))
    if Jt is not None:
        cmp_J('totals_scaled', Jt, J0, True, None, all_resp, dvs, nl_resp)
    if do_totals:
        Jf = guarded('totals_unscaled', 'x', lambda: p.compute_totals(
            driver_scaling=False, return_format='flat_dict'))
    if Jf is not None and not (any_units and unit_conv is None):
        cmp_J('totals_unscaled', Jf, J0, False, unit_conv or 'model', all_resp, dvs, nl_resp)

    # (b) Driver._compute_totals as optimizers call it (dict and array formats)
    def drv_totals(fmt):
        d._total_jac = None
        d._total_jac_linear = None
        out = d._compute_totals(return_format=fmt, driver_scaling=True)
        out = {k_: np.array(v) for k_, v in out.items()} if fmt != 'array' else np.array(out)
        d._total_jac = None
        d._total_jac_linear = None
        return out
    if do_totals:
        Jd = guarded('driver_totals', 'x', lambda: drv_totals('flat_dict'))
        Ja = guarded('driver_totals_array', 'x', lambda: drv_totals('array'))
    if Jd is not None:
        cmp_J('driver_totals', Jd, J0, True, None, all_resp, dvs, nl_resp)
    if Ja is not None:
        want = np.vstack([np.hstack([want_J(rv[ko], rv[kw_], J0, True, None) for kw_ in dvs])
                          for ko in nl_resp])
        if Ja.shape != want.shape or not _close(Ja, want, np.abs(want) + np.max(np.abs(want)) *
                                                1e-3, rtol=1e-10):
            V('driver_totals_array', 'y', 'got %s expected %s' % (_short(Ja), _short(want)))

    # (c) a user-selected sub-block with driver scaling (one response, one design variable)
    for ko, kw_ in ((('y', 'x'), ('obj', 'x'), ('y', 'z')) if do_subset else ()):
        Js = guarded('totals_subset_scaled', ko, lambda: p.compute_totals(
            of=[rv[ko].name], wrt=[rv[kw_].name], driver_scaling=True, return_format='flat_dict'))
        if Js is not None:
            cmp_J('totals_subset_scaled', Js, J0, True, None, [ko], [kw_], [ko])

    # ---------------- unscale o scale through the driver, and what SciPy is given
    x1, z1 = pal['x1'], pal['z1']
    # model state expected after the optimizer set (x1, z1) on the declared entries only
    x_after = np.array(x0)
    x_after[rv['x'].pos] = x1[rv['x'].pos]
    valA, JA = ref_model(cfg['model'], pal, x_after, z1)
    mvalA = dict(valA)
    mvalA['x'] = x_after
    mvalA['z'] = z1
    xs1 = np.concatenate([rv[k_].scaled(mvalA[rv[k_].var]) for k_ in dvs])
    xs0 = np.concatenate([rv[k_].scaled(mval0[rv[k_].var]) for k_ in dvs])
    rec = {}

    def fake_minimize(fun, x0_, args=(), method=None, jac=None, hess=None, bounds=None,
                      constraints=(), tol=None, options=None, **kw_):
        from scipy.optimize import OptimizeResult
        rec['x0'] = np.array(x0_, dtype=float)
        rec['bounds'] = bounds
        rec['f'] = fun(np.array(xs1))
        rec['grad'] = np.array(jac(np.array(xs1)), dtype=float) if jac is not None else None
        cl = []
        for c in constraints:
            a = c['args']
            cl.append((c['type'], a[0], bool(a[1]), int(a[2]),
                       float(np.asarray(c['fun'](np.array(xs1), *a)).ravel()[0]),
                       np.array(c['jac'](np.array(xs1), *a), dtype=float).ravel()))
        rec['cons'] = cl
        return OptimizeResult(x=np.array(xs1), success=True, status=0, message='stub', nit=1,
                              fun=rec['f'])

    saved = so_mod.minimize
    so_mod.minimize = fake_minimize
    ok = None
    try:
        if do_scipy:
            ok = guarded('run_driver', 'x', lambda: (p.run_driver(), True))
    finally:
        so_mod.minimize = saved
    if ok is not None and 'cons' in rec:
        # x0 and bounds
        sc0 = np.concatenate([(np.abs(rv[k_].decl_units(mval0[rv[k_].var])) + np.abs(rv[k_].adder) +
                               abs(rv[k_].uoff)) * np.abs(rv[k_].scaler) for k_ in dvs])
        if not _close(rec['x0'], xs0, sc0):
            V('scipy_x0', 'x', 'got %s expected %s' % (_short(rec['x0']), _short(xs0)))
        if rec['bounds'] is None or len(rec['bounds']) != len(xs0):
            V('scipy_bounds', 'x', 'bounds %r' % (rec['bounds'],))
        else:
            off = 0
            for k_ in dvs:
                r = rv[k_]
                if k_ in bnd:
                    glo, gup, _ = bnd[k_]
                    for j in range(r.size):
                        blo, bup = rec['bounds'][off + j]
                        wl = None if glo[j] <= -INF_BOUND else glo[j]
                        wu = None if gup[j] >= INF_BOUND else gup[j]
                        if (blo is None) != (wl is None) or (bup is None) != (wu is None) or \
                                (wl is not None and blo != wl) or (wu is not None and bup != wu):
                            V('scipy_bounds', k_, 'element %d: scipy got (%r, %r), autoscaler '
                              'bounds (%r, %r)' % (j, blo, bup, wl, wu), '/b=' + _bcls(cfg, k_))
                            break
                off += r.size
        # model state after the stub returned: unscale o scale = id
        gx = np.array(p.get_val(nm['x'])).ravel()
        gz = np.array(p.get_val(nm['z'])).ravel()
        if not _close(gx, x_after, np.abs(x_after) + abs(rv['x'].uoff) + np.abs(
                np.max(np.abs(rv['x'].adder)))):
            V('unscale_roundtrip', 'x', 'model x after optimizer set T(x): got %s expected %s' % (
                _short(gx), _short(x_after)))
        if not _close(gz, z1, np.abs(z1) + 1.0):
            V('unscale_roundtrip', 'z', 'model z got %s expected %s' % (_short(gz), _short(z1)))
        # objective value and gradient seen by scipy at T(x1)
        ro = rv['obj']
        wf = ro.scaled(mvalA[ro.var])
        sf = (np.abs(ro.decl_units(mvalA[ro.var])) + np.abs(ro.adder) + abs(ro.uoff)) * \
            np.abs(ro.scaler) + 1e-3 * np.abs(wf)
        if not _close(np.atleast_1d(rec['f']).ravel(), wf, sf, rtol=1e-10):
            V('scipy_objective', 'obj', 'got %s expected %s' % (_short(rec['f']), _short(wf)))
        wgrad = np.concatenate([want_J(ro, rv[k_], JA, True, None).ravel() for k_ in dvs])
        if rec['grad'] is None or not _close(rec['grad'].ravel(), wgrad, np.abs(wgrad) + np.max(
                np.abs(wgrad)) * 1e-3, rtol=1e-10):
            V('scipy_gradient', 'obj', 'got %s expected %s' % (_short(rec['grad']), _short(wgrad)))
        # constraints
        for k_ in cons:
            r = rv[k_]
            if k_ not in bnd:
                continue
            glo, gup, geq = bnd[k_]
            cs = r.scaled(mvalA[r.var])
            scl = (np.abs(r.decl_units(mvalA[r.var])) + np.abs(r.adder) + abs(r.uoff)) * \
                np.abs(r.scaler)
            rows = np.concatenate([want_J(r, rv[kd], JA, True, None) for kd in dvs], axis=1)
            rows_nou = np.concatenate([want_noun(r, rv[kd], JA) for kd in dvs], axis=1)
            mine = [c for c in rec['cons'] if c[1] == r.name]
            has_eq = r.kw.get('equals') is not None
            lo_fin = glo > -INF_BOUND
            up_fin = gup < INF_BOUND
            uniform = has_eq or (len(set(lo_fin.tolist())) == 1 and len(set(up_fin.tolist())) == 1)
            if not uniform:
                oc['scipy_cons_skipped_mixed_pattern'] += 1
                continue
            want = []
            for j in range(r.size):
                if has_eq:
                    want.append(('eq', j, cs[j] - geq[j], rows[j], scl[j] + abs(geq[j])))
                    continue
                if lo_fin[j]:
                    want.append(('ineq', j, cs[j] - glo[j], rows[j], scl[j] + abs(glo[j])))
                if up_fin[j]:
                    want.append(('ineq', j, gup[j] - cs[j], -rows[j], scl[j] + abs(gup[j])))
            got = [(c[0], c[3], c[4], c[5]) for c in mine]
            if len(got) != len(want):
                V('scipy_constraints_count', k_, '%d constraint functions, expected %d' % (
                    len(got), len(want)), '/b=' + _bcls(cfg, k_))
                continue
            used = set()
            for (t, j, v, row, s_) in want:
                hit = None
                for i_, (gt, gj, gv, grow) in enumerate(got):
                    if i_ in used or gt != t or gj != j:
                        continue
                    if _close([gv], [v], [s_], rtol=1e-10) and _close(
                            grow, row, np.abs(row) + np.max(np.abs(row)) * 1e-3, rtol=1e-10):
                        hit = i_
                        break
                if hit is None:
                    obs = 'scipy_constraint'
                    sgn = -1.0 if (t == 'ineq' and np.array_equal(row, -rows[j])) else 1.0
                    for (gt, gj, gv, grow) in got:
                        if gt == t and gj == j and _close([gv], [v], [s_], rtol=1e-10) and _close(
                                grow, sgn * rows_nou[j], np.abs(row) + np.max(np.abs(
                                    rows_nou[j])) * 1e-3, rtol=1e-10) and any_units:
                            obs = 'scipy_constraint_gradient_without_unit_factor'
                    cls_ = None
                    if obs != 'scipy_constraint':
                        cls_ = 'con%s/u_con=%s/u_dv=%s' % ('(linear)' if cfg['y']['linear'] and
                                                           k_ == 'y' else '', cfg['y']['units'] if
                                                           k_ == 'y' else 'none', cfg['x']['units'])
                    V(obs, k_, 'no %s function for element %d with value %r and '
                      'gradient %s among %s' % (t, j, v, _short(row), [
                          (a, b, c_, _short(e_)) for (a, b, c_, e_) in got if b == j]),
                      '/b=' + _bcls(cfg, k_), cls=cls_)
                    break
                used.add(hit)
        # scaled values again after the round trip
        g1 = guarded('values', 'x', lambda: d.get_design_var_values(driver_scaling=True))
        if g1 is not None:
            for k_ in dvs:
                r = rv[k_]
                want = r.scaled(mvalA[r.var])
                sc = (np.abs(r.decl_units(mvalA[r.var])) + np.abs(r.adder) + abs(r.uoff)) * \
                    np.abs(r.scaler)
                if not _close(g1[r.name], want, sc, rtol=1e-10):
                    V('scale_roundtrip', k_, 'T(T^-1(xs)) got %s expected %s' % (
                        _short(g1[r.name]), _short(want)))

    nontriv = int(any(cfg[v]['spec'] != 'none' or cfg[v]['units'] in ('compat', 'offset')
                      for v in ('x', 'y', 'obj')) and ok is not None and Jt is not None and
                  only is None)
    oc['violation' if vio else 'agree'] += 1
    return oc, nontriv, vio


def _bcls(cfg, key):
    if key in ('x', 'y'):
        return cfg[key]['bounds']
    return 'fixed'


def _worst(cfg):
    return '/'.join('%s=%s,%s,%s' % (v, cfg[v]['spec'], cfg[v]['units'], cfg[v]['idx'])
                    for v in ('x', 'y', 'obj') if cfg[v] != _DEF[v]) or 'default'


def _cfgstr(cfg):
    return '%s pal=%d mode=%s api=%s lin_g=%s x=%s y=%s obj=%s' % (
        cfg['model'], cfg['pal'], cfg['mode'], cfg.get('api', 'add'), cfg['y']['linear'],
        ','.join(str(v) for v in cfg['x'].values()), ','.join(str(v) for v in cfg['y'].values()),
        ','.join(str(v) for v in cfg['obj'].values()))


# ------------------------------------------------------------------ Lagrange multipliers

KKT_DV_SPECS = ['none', 'scaler', 'adder', 'scaler_adder', 'ref_ref0', 'arr_scaler',
                'arr_scaler_adder', 'arr_ref_ref0', 'arr_scaler_sc_adder']
KKT_CON_SPECS = KKT_DV_SPECS
KKT_OBJ_SPECS = ['none', 'scaler', 'scaler_adder', 'ref_ref0', 'neg_scaler', 'ref_lt_ref0',
                 'arr_scaler']
KKT_EQ_EXTRA = ['neg_scaler', 'arr_mix_scaler']      # only for the equality-constrained QP
_KKT_T = [(0.25, 0.5), (3.0, 0.5), (3.0, 2.75), (-2.0, 1.0), (0.5, -2.5), (-2.5, -2.75),
          (1.0, 3.5), (2.75, -1.5), (-1.5, 2.5)]
_KKT_H = np.array([[2.0, 0.5], [0.5, 1.0]])
_KKT_A = np.array([[1.0, 0.5], [-0.25, 1.0]])
_KKT_XL = np.array([-1.0, -1.5])
_KKT_XU = np.array([1.5, 1.25])
_KKT_GL = np.array([-1.25, -1.0])
_KKT_GU = np.array([1.0, 0.875])
_KKT_GE = np.array([0.5, -0.25])


def kkt_reference(t, eq):
    """Exhaustive active-set enumeration of  min 1/2 (x-t)'H(x-t)  s.t. bounds on x and on A x.

    Returns (x*, lam_x, lam_g, degenerate) with stationarity  grad f + I' lam_x + A' lam_g = 0.
    """
    H, A = _KKT_H, _KKT_A
    t = np.asarray(t, dtype=float)
    n = 2
    best = None
    gstates = [(0, 0)] if eq else list(itertools.product((-1, 0, 1), repeat=2))
    for sx in itertools.product((-1, 0, 1), repeat=n):
        for sg in gstates:
            rows, rhs = [], []
            for i, s in enumerate(sx):
                if s:
                    e = np.zeros(n)
                    e[i] = 1.0
                    rows.append(e)
                    rhs.append(_KKT_XL[i] if s < 0 else _KKT_XU[i])
            if eq:
                for i in range(2):
                    rows.append(A[i])
                    rhs.append(_KKT_GE[i])
            else:
                for i, s in enumerate(sg):
                    if s:
                        rows.append(A[i])
                        rhs.append(_KKT_GL[i] if s < 0 else _KKT_GU[i])
            m_ = len(rows)
            if m_ > n:
                continue
            K = np.zeros((n + m_, n + m_))
            K[:n, :n] = H
            b = np.concatenate([H @ t, rhs])
            if m_:
                R = np.array(rows)
                if np.linalg.matrix_rank(R) < m_:
                    continue
                K[:n, n:] = R.T
                K[n:, :n] = R
            sol = np.linalg.solve(K, b)
            x, lam = sol[:n], sol[n:]
            g = A @ x
            tol = 1e-9
            if np.any(x < _KKT_XL - tol) or np.any(x > _KKT_XU + tol):
                continue
            if not eq and (np.any(g < _KKT_GL - tol) or np.any(g > _KKT_GU + tol)):
                continue
            # sign conditions: lower-active -> lam <= 0, upper-active -> lam >= 0
            signs = [s for s in sx if s] + ([] if eq else [s for s in sg if s])
            nb = len(signs)
            if any(lam[i] * signs[i] < -1e-9 for i in range(nb)):
                continue
            lam_x = np.zeros(n)
            lam_g = np.zeros(2)
            i_ = 0
            for i, s in enumerate(sx):
                if s:
                    lam_x[i] = lam[i_]
                    i_ += 1
            if eq:
                lam_g[:] = lam[i_:]
            else:
                for i, s in enumerate(sg):
                    if s:
                        lam_g[i] = lam[i_]
                        i_ += 1
            cand = (x, lam_x, lam_g, sx, sg)
            if best is None or nb < best[5]:
                best = cand + (nb,)
    x, lam_x, lam_g, sx, sg, _ = best
    g = A @ x
    slack = []
    for i in range(n):
        if not sx[i]:
            slack += [x[i] - _KKT_XL[i], _KKT_XU[i] - x[i]]
    if not eq:
        for i in range(2):
            if not sg[i]:
                slack += [g[i] - _KKT_GL[i], _KKT_GU[i] - g[i]]
    active_l = [abs(lam_x[i]) for i in range(n) if sx[i]] + \
        ([] if eq else [abs(lam_g[i]) for i in range(2) if sg[i]])
    degenerate = (min(slack) < 0.05 if slack else False) or \
        (min(active_l) < 1e-2 if active_l else False)
    return x, lam_x, lam_g, degenerate, sx, sg


def _qp_class():
    if 'QP' in _CLS:
        return _CLS['QP']
    import openmdao.api as om

    class QP(om.ExplicitComponent):
        def initialize(self):
            self.options.declare('t')

        def setup(self):
            self.add_input('x', np.zeros(2))
            self.add_output('f', 0.0)
            self.add_output('g', np.zeros(2))
            self.declare_partials('*', '*')

        def compute(self, inputs, outputs):
            dx = inputs['x'] - np.asarray(self.options['t'])
            outputs['f'] = 0.5 * dx @ _KKT_H @ dx + 0.75
            outputs['g'] = _KKT_A @ inputs['x']

        def compute_partials(self, inputs, partials):
            dx = inputs['x'] - np.asarray(self.options['t'])
            partials['f', 'x'] = (_KKT_H @ dx).reshape(1, 2)
            partials['g', 'x'] = _KKT_A
    _CLS['QP'] = QP
    return QP


def check_kkt(case):
    import openmdao.api as om
    pal = _PALS[case['pal']]
    t = case['t']
    eq = case['eq']
    how = case['how']
    xs, lam_x, lam_g, degenerate, sx, sg = kkt_reference(t, eq)
    if degenerate:
        return {'kkt_degenerate_skipped': 1}, 0, []
    vio = []
    desc = 'dv=%s/con=%s/obj=%s/%s' % (case['dv'], case['con'], case['obj'],
                                      'eq' if eq else 'ineq')
    # signature class: scalar/array scaling of (dv, con, obj), negative factors, kind of QP
    cls = 'dv=%s/con=%s/obj=%s/%s' % (_speccls(case['dv']), _speccls(case['con']),
                                     _speccls(case['obj']), 'eq' if eq else 'ineq')

    anyarr = 'array_scaler' if any('arr' in case[k_] for k_ in ('dv', 'con', 'obj')) else \
        'scalar_scaler'

    def V(obs, msg, extra=''):
        vio.append({'sig': 'C20:%s:%s%s' % (obs, anyarr if obs.endswith('_raises') else cls,
                                           extra), 'case': case,
                    'msg': '%s [t=%s how=%s %s]: %s' % (obs, t, how, desc, msg)})
    p = om.Problem(reports=None)
    p.model.add_subsystem('c', _qp_class()(t=tuple(t)), promotes=['*'])
    p.model.add_design_var('x', lower=_KKT_XL, upper=_KKT_XU, **spec_kwargs(case['dv'], 2, pal))
    if eq:
        p.model.add_constraint('g', equals=_KKT_GE, **spec_kwargs(case['con'], 2, pal))
    else:
        p.model.add_constraint('g', lower=_KKT_GL, upper=_KKT_GU,
                               **spec_kwargs(case['con'], 2, pal))
    p.model.add_objective('f', **spec_kwargs(case['obj'], 1, pal))
    p.driver = om.ScipyOptimizeDriver(optimizer='SLSQP', disp=False, tol=1e-12, maxiter=200)
    p.driver.options['invalid_desvar_behavior'] = 'ignore'
    out = {}
    try:
        with contextlib.redirect_stdout(io.StringIO()):
            p.setup()
            if how == 'slsqp':
                p.set_val('x', [0.25, 0.125])
                fail = p.run_driver()
                xgot = np.array(p.get_val('x'))
                if fail or np.max(np.abs(xgot - xs)) > 1e-6:
                    return {'kkt_slsqp_not_converged': 1}, 0, []
            else:
                p.set_val('x', xs)
                p.final_setup()
                p.run_model()
    except Exception as exc:
        V('kkt_setup_raises', '%s: %s' % (type(exc).__name__, str(exc)[:300]),
          ':' + type(exc).__name__)
        return {'violation': 1}, 0, vio
    for sparse in (False, True):
        try:
            with contextlib.redirect_stdout(io.StringIO()):
                adv, acon = p.driver.compute_lagrange_multipliers(driver_scaling=False,
                                                                  use_sparse_solve=sparse)
        except Exception as exc:
            V('lagrange_raises', '%s: %s' % (type(exc).__name__, str(exc)[:300]),
              ':' + type(exc).__name__)
            break
        gx = np.zeros(2)
        gg = np.zeros(2)
        if 'x' in adv:
            gx = np.array(adv['x']['multipliers'], dtype=float).ravel()
        if 'g' in acon:
            gg = np.array(acon['g']['multipliers'], dtype=float).ravel()
        rtol = (2e-5 if sparse else 1e-8) if how == 'set' else 2e-4
        sc_ = max(np.max(np.abs(lam_x)), np.max(np.abs(lam_g)), 1e-3)
        if gx.shape != (2,) or gg.shape != (2,) or \
                np.max(np.abs(gx - lam_x)) > rtol * sc_ or np.max(np.abs(gg - lam_g)) > rtol * sc_:
            V('lagrange_multipliers', 'sparse=%s: dv %s con %s expected dv %s con %s (x*=%s)' % (
                sparse, _short(gx), _short(gg), _short(lam_x), _short(lam_g), _short(xs)))
            break
        out['kkt_agree_act%d' % (sum(1 for s in sx if s) + (2 if eq else sum(1 for s in sg if s)))] = 1
    nt = int((np.any(lam_x != 0) or np.any(lam_g != 0)) and
             (case['dv'] != 'none' or case['con'] != 'none' or case['obj'] != 'none'))
    if vio:
        return {'violation': 1}, nt, vio
    return out, nt, vio


# ------------------------------------------------------------------ DOE levels

def check_doe(case):
    """Full-factorial levels of a design variable with units/indices are the bounds in declared
    units mapped back to model units (DOE drivers do not scale)."""
    import openmdao.api as om
    pal = _PALS[case['pal']]
    u = _UNITS[case['units']]
    xi, xpos = idx_of(case['idx'], 3)
    size = len(xpos)
    kw = dict(spec_kwargs(case['spec'], size, pal))
    bk = bound_kwargs(case['bounds'], size, pal)
    seen = []

    class Log(om.ExplicitComponent):
        def setup(self):
            self.add_input('x', np.zeros(3), units=u[0])
            self.add_output('f', 0.0)

        def compute(self, inputs, outputs):
            seen.append(np.array(inputs['x']))
            outputs['f'] = np.sum(inputs['x'])
    vio = []
    p = om.Problem(reports=None)
    p.model.add_subsystem('c', Log(), promotes=['*'])
    p.model.add_design_var('x', indices=xi, units=u[1], **kw, **bk)
    p.model.add_objective('f')
    p.driver = om.DOEDriver(om.FullFactorialGenerator(levels=2))
    base = np.array(pal['x0'])
    try:
        with contextlib.redirect_stdout(io.StringIO()):
            p.setup()
            p.set_val('x', base)
            p.final_setup()
            del seen[:]
            p.run_driver()
    except Exception as exc:
        vio.append({'sig': 'C20:doe_raises:%s:%s/u=%s' % (type(exc).__name__, case['spec'],
                                                         case['units']), 'case': case,
                    'msg': 'DOE run raised %s: %s' % (type(exc).__name__, str(exc)[:300])})
        return {'violation': 1}, 0, vio
    lo = np.broadcast_to(np.asarray(bk['lower'], dtype=float), (size,))
    up = np.broadcast_to(np.asarray(bk['upper'], dtype=float), (size,))
    want = set()
    for combo in itertools.product(*[(lo[j], up[j]) for j in range(size)]):
        x = base.copy()
        x[xpos] = (np.array(combo) - u[3]) / u[2]
        want.add(tuple(np.round(x, 9)))
    got = set(tuple(np.round(x, 9)) for x in seen)
    if got != want:
        vio.append({'sig': 'C20:doe_levels:%s/u=%s/i=%s' % (case['spec'], case['units'],
                                                          case['idx']), 'case': case,
                    'msg': 'DOE visited %s expected %s' % (sorted(got)[:4], sorted(want)[:4])})
        return {'violation': 1}, 0, vio
    return {'doe_agree': 1}, int(case['units'] in ('compat', 'offset') or case['spec'] != 'none'), vio


# ------------------------------------------------------------------ enumeration

def _role_product(model, pal):
    out = []
    for spec, units, idx, b in itertools.product(SPECS, UNITS, IDXS, DV_BOUNDS):
        out.append({'kind': 'cfg', 'cfg': {'model': model, 'pal': pal, 'x': {
            'spec': spec, 'units': units, 'idx': idx, 'bounds': b}}})
    for spec, units, idx, b in itertools.product(SPECS, UNITS, IDXS, CON_BOUNDS):
        out.append({'kind': 'cfg', 'cfg': {'model': model, 'pal': pal, 'y': {
            'spec': spec, 'units': units, 'idx': idx, 'bounds': b}}})
    # the constraint under test on the linear output g, declared linear (M1) or not
    for spec, units, idx, b in itertools.product(SPECS, UNITS, IDXS, ['up', 'both_arr', 'eq']):
        out.append({'kind': 'cfg', 'cfg': {'model': model, 'pal': pal, 'y': {
            'spec': spec, 'units': units, 'idx': idx, 'bounds': b, 'var': 'g',
            'linear': model == 'M1'}}})
    for spec, units, idx in itertools.product(SPECS_SC + ['arr_scaler', 'arr_ref_ref0',
                                                         'arr_neg_scaler'], UNITS, OBJ_IDXS):
        out.append({'kind': 'cfg', 'cfg': {'model': model, 'pal': pal, 'obj': {
            'spec': spec, 'units': units, 'idx': idx}}})
    # the same scaling specs given after the declaration through set_*_options
    for spec, units, idx in itertools.product(SPECS, ('none', 'compat'), ('none', 'list')):
        out.append({'kind': 'cfg', 'cfg': {'model': model, 'pal': pal, 'api': 'set_options', 'x': {
            'spec': spec, 'units': units, 'idx': idx, 'bounds': 'both_arr'}}})
        out.append({'kind': 'cfg', 'cfg': {'model': model, 'pal': pal, 'api': 'set_options', 'y': {
            'spec': spec, 'units': units, 'idx': idx, 'bounds': 'both_arr'}}})
    for spec in SPECS_SC + ['arr_scaler', 'arr_ref_ref0']:
        out.append({'kind': 'cfg', 'cfg': {'model': model, 'pal': pal, 'api': 'set_options', 'obj': {
            'spec': spec, 'units': 'none', 'idx': 'none'}}})
    return out


def _ball(model, pal, k, specs=None, rmin=0):
    """all configurations with <= k deviations from the default over the 12 dimensions"""
    dims = []
    specs = specs or SPECS
    for v, idxs, bnds in (('x', IDXS, DV_BOUNDS), ('y', IDXS, CON_BOUNDS), ('obj', OBJ_IDXS, None)):
        dims.append(((v, 'spec'), [s for s in specs if s != 'none']))
        dims.append(((v, 'units'), [u for u in UNITS if u != 'none']))
        dims.append(((v, 'idx'), [i for i in idxs if i != 'none']))
        if bnds:
            dims.append(((v, 'bounds'), [b for b in bnds if b != _DEF[v]['bounds']]))
    dims.append((('mode',), ['fwd', 'rev']))
    if model == 'M1':
        dims.append((('y', 'varlin'), ['g', 'g_linear']))
    else:
        dims.append((('y', 'varlin'), ['g']))
    out = []
    if rmin == 0:
        out.append({'kind': 'cfg', 'cfg': {'model': model, 'pal': pal}})
    for r in range(max(1, rmin), k + 1):
        for combo in itertools.combinations(range(len(dims)), r):
            if len(set(dims[i][0][0] for i in combo)) < 2 and r > 1:
                continue    # deviations inside a single variable are in the role product
            for vals in itertools.product(*[dims[i][1] for i in combo]):
                cfg = {'model': model, 'pal': pal}
                for i, val in zip(combo, vals):
                    key = dims[i][0]
                    if key == ('y', 'varlin'):
                        cfg.setdefault('y', {})['var'] = 'g'
                        cfg['y']['linear'] = val == 'g_linear'
                    elif len(key) == 1:
                        cfg[key[0]] = val
                    else:
                        cfg.setdefault(key[0], {})[key[1]] = val
                out.append({'kind': 'cfg', 'cfg': cfg})
    return out


def _kkt_cases(pal, tier):
    out = []
    # direct: the optimum is set exactly; full product of the three scaling specs
    for eq in (False, True):
        con_specs = KKT_CON_SPECS + (KKT_EQ_EXTRA if eq else [])
        for dv, con, obj in itertools.product(KKT_DV_SPECS, con_specs, KKT_OBJ_SPECS):
            ndev = (dv != 'none') + (con != 'none') + (obj != 'none')
            if tier == 'quick' and ndev > 2:
                continue
            for t in (_KKT_T if not eq else _KKT_T[:3]):
                out.append({'kind': 'kkt', 'pal': pal, 't': list(t), 'eq': eq, 'how': 'set',
                            'dv': dv, 'con': con, 'obj': obj})
    # through SLSQP: <=1 deviation (quick) / <=2 deviations (thorough); positive objective scaling
    for eq in (False, True):
        for dv, con, obj in itertools.product(KKT_DV_SPECS, KKT_CON_SPECS, KKT_OBJ_SPECS):
            if obj in ('neg_scaler', 'ref_lt_ref0'):
                continue
            ndev = (dv != 'none') + (con != 'none') + (obj != 'none')
            if ndev > (1 if tier == 'quick' else 2):
                continue
            for t in (_KKT_T if not eq else _KKT_T[:3]):
                out.append({'kind': 'kkt', 'pal': pal, 't': list(t), 'eq': eq, 'how': 'slsqp',
                            'dv': dv, 'con': con, 'obj': obj})
    return out


def _doe_cases(pal):
    out = []
    for spec, units, idx, b in itertools.product(['none', 'scaler_adder', 'arr_ref_ref0'], UNITS,
                                                 IDXS, ['both', 'both_arr']):
        out.append({'kind': 'doe', 'pal': pal, 'spec': spec, 'units': units, 'idx': idx,
                    'bounds': b})
    return out


_BATCH = {'cfg': 32, 'kkt': 9, 'doe': 12, 'ndopt': 12}


# ------------------------------------------------------------------ N-D option arrays

_ND_KEYS = ['ref', 'ref0', 'scaler', 'adder', 'lower', 'upper']


def _ndopt_cases(pal):
    out = []
    for role in ('dv', 'con'):
        for key in _ND_KEYS:
            for order in ('C', 'F', 'T', 'strided'):
                out.append({'kind': 'ndopt', 'role': role, 'key': key, 'order': order, 'pal': pal})
    return out


def check_ndopt(case):
    """A 2-D variable whose scaling / bound option is given as a 2-D array in various memory
    layouts: the entries pair with the entries of the variable in logical (row-major) order."""
    import openmdao.api as om
    key, order, role = case['key'], case['order'], case['role']
    shape = (2, 3)
    base = np.array([[2.0, -0.5, 4.0], [0.25, -8.0, 1.5]]) + 0.125 * case['pal']
    if key in ('ref0', 'adder', 'lower'):
        base = base - 10.0
    if key == 'upper':
        base = base + 20.0
    if order == 'C':
        arr = np.ascontiguousarray(base)
    elif order == 'F':
        arr = np.asfortranarray(base)
    elif order == 'T':
        arr = np.ascontiguousarray(base.T).T          # a transposed view
    else:
        big = np.zeros((4, 6))
        big[::2, ::2] = base
        arr = big[::2, ::2]                            # neither C nor F contiguous
    x0 = np.array([[0.5, -1.25, 2.0], [1.0, 0.75, -0.5]])
    p = om.Problem(reports=None)
    p.model.add_subsystem('c', om.ExecComp(['y = 2.0*x + 1.0', 'f = sum(x)'], x=np.ones(shape),
                                           y=np.ones(shape)), promotes=['*'])
    kw = {key: arr}
    if role == 'dv':
        p.model.add_design_var('x', **kw)
        p.model.add_constraint('y', upper=1000.0)
    else:
        p.model.add_design_var('x')
        if key not in ('lower', 'upper'):
            kw['upper'] = 1000.0
        p.model.add_constraint('y', **kw)
    p.model.add_objective('f')
    vio = []
    cls = '%s/%s/%s' % (role, key, order)

    def V(what, msg):
        vio.append({'sig': 'C20:ndopt_%s:%s' % (what, cls), 'case': dict(case),
                    'msg': 'ndopt_%s [%s]: %s' % (what, cls, msg)})
    try:
        with contextlib.redirect_stdout(io.StringIO()):
            p.setup()
            p.set_val('x', x0)
            p.run_model()
            drv = p.driver
            vals = drv.get_design_var_values() if role == 'dv' else drv.get_constraint_values()
            got = np.ravel(vals['x' if role == 'dv' else 'y'])
            meta = (drv._designvars if role == 'dv' else drv._cons)['x' if role == 'dv' else 'y']
    except Exception as exc:
        V('raises', '%s: %s' % (type(exc).__name__, str(exc)[:300]))
        return {'violation': 1}, 0, vio
    v = np.ravel(x0 if role == 'dv' else 2.0 * x0 + 1.0)
    b = np.ravel(base)
    adder, scaler = 0.0, 1.0
    if key == 'ref':
        scaler = 1.0 / b
    elif key == 'ref0':
        adder, scaler = -b, 1.0 / (1.0 - b)
    elif key == 'scaler':
        scaler = b
    elif key == 'adder':
        adder = b
    want = (v + adder) * scaler
    if got.shape != want.shape or not np.allclose(got, want, rtol=1e-12, atol=1e-12):
        V('value', 'driver value %s expected %s' % (got.tolist(), want.tolist()))
    if key in ('lower', 'upper'):
        gb = np.ravel(np.asarray(meta[key], dtype=float))
        if gb.size != b.size or not np.allclose(gb, b, rtol=1e-12, atol=1e-12):
            V('bound', '%s bound as seen by the driver %s expected %s' % (key, gb.tolist(),
                                                                         b.tolist()))
    return {'violation' if vio else 'ndopt_ok': 1}, int(not vio), vio


def _batches(flat):
    """consecutive items of one kind are handed to a worker together; a batch reports at most two
    violations per signature (each with its own small replayable case)"""
    out = []
    cur = []
    for c in flat:
        if cur and (cur[0]['kind'] != c['kind'] or len(cur) >= _BATCH[c['kind']]):
            out.append({'kind': 'batch', 'items': cur})
            cur = []
        cur.append(c)
    if cur:
        out.append({'kind': 'batch', 'items': cur})
    return out


def cases(tier, seed):
    return _batches(_flat_cases(tier, seed))


def _flat_cases(tier, seed):
    pal = seed % 4
    out = []
    if tier == 'quick':
        out += _role_product('M1', pal)
        out += _ball('M2', pal, 2)
        out += _kkt_cases(pal, tier)
        out += _doe_cases(pal)
        out += _ndopt_cases(pal)
    else:
        for k in range(4):
            pk = (pal + k) % 4
            out += _role_product('M1' if k % 2 == 0 else 'M2', pk)
            out += _ball('M2' if k % 2 == 0 else 'M1', pk, 2)
            out += _doe_cases(pk)
        out += _role_product('M2', pal)
        out += _ball('M1', pal, 2)
        # exactly three simultaneous deviations over a reduced scaling alphabet
        out += _ball('M1', pal, 3, specs=['none', 'scaler_adder', 'ref_lt_ref0', 'arr_ref_ref0',
                                          'arr_mix_scaler'], rmin=3)
        out += _kkt_cases(pal, tier)
        out += _kkt_cases((pal + 1) % 4, 'quick')
        out += _ndopt_cases(pal)
    return out


def _check_sample(case):
    if case['kind'] == 'cfg':
        return _cfgstr(full_cfg(case['cfg']))
    return case


def check_case(case):
    import warnings
    with warnings.catch_warnings():
        warnings.simplefilter('ignore')     # OpenMDAO re-enables its own warning categories
        return _check_case(case)


def _check_case(case):
    kind = case['kind']
    if kind == 'batch':
        oc = collections.Counter()
        evals = nt = 0
        vios = []
        nsig = collections.Counter()
        for item in case['items']:
            r = _check_case(item)
            evals += r['evals']
            nt += r['nontrivial']
            oc.update(r['outcome'])
            for v in r['violations']:
                nsig[v['sig']] += 1
                if nsig[v['sig']] <= 2:
                    vios.append(v)
                else:
                    oc['more_violations_same_signature_in_batch'] += 1
        first = case['items'][0]
        return {'evals': evals, 'nontrivial': nt, 'outcome': dict(oc), 'violations': vios,
                'sample': {'batch_of': len(case['items']), 'first': _check_sample(first)}}
    if kind == 'cfg':
        oc, nt, vio = check_cfg(case['cfg'], case.get('only'))
        sample = _cfgstr(full_cfg(case['cfg']))
    elif kind == 'kkt':
        oc, nt, vio = check_kkt(case)
        sample = case
    elif kind == 'doe':
        oc, nt, vio = check_doe(case)
        sample = case
    elif kind == 'ndopt':
        oc, nt, vio = check_ndopt(case)
        sample = case
    else:
        raise ValueError(kind)
    return {'evals': 1, 'nontrivial': nt, 'outcome': dict(oc), 'violations': vio, 'sample': sample}
