"""C21 - ScipyOptimizeDriver: success implies a feasible, optimal, faithfully reported design
(DESIGN.md section 4, C21).

Strictly convex QPs   min 1/2 (x-t)' D (x-t)   s.t.  lo <= (A x + c)[sel] <= up,  xl <= x <= xu
are built as real OpenMDAO problems and solved with ScipyOptimizeDriver for every per-element
bound pattern {none, lower, upper, both, equals}^size of one array constraint, in every API
spelling OpenMDAO accepts, with every constrained SciPy optimizer, with and without driver scaling.
The reference optimum comes from a complete active-set enumeration of the KKT system (plain NumPy,
no SciPy, no OpenMDAO).
"""
import contextlib
import io
import itertools
import warnings

import numpy as np

ID = 'C21'
LEVEL = 'exploration'
TECHNIQUE = ('bounded exhaustive enumeration of per-element constraint bound patterns x API spelling '
             'x optimizer x scaling on strictly convex QPs; reference optimum by complete active-set '
             'enumeration of the KKT system')
RULE = ('one evaluation = one run_driver() on a QP (n, size, per-element bound pattern over '
        '{N,L,U,B,E}, spelling of the bounds, linear flag, design-variable bounds, optimizer, '
        'scaling, target); targets push the unconstrained optimum through each side of each '
        'constraint element in turn; non-trivial = the driver reported success AND at least one '
        'constraint element or design-variable bound is active at the reference optimum (the '
        'bookkeeping of the bounds decided the answer); every evaluation is a distinct '
        'configuration')
LEVEL_TEXT = ('Every bound pattern of an array constraint of size 2 and 3 (5^2 + 5^3 patterns) is '
              'enumerated completely for each optimizer and linear flag, each with one target per '
              'side of each element so that every bound is active in some run; spellings, scalings '
              'and design-variable bounds are added as a deviation ball around that product.  The '
              'defects of this code are per-element bookkeeping errors (which bound of which element '
              'reaches SciPy, with which sign and scaling), all of which exist at size <= 3.')
LEVEL_NOTE = ('Trusted: the NumPy active-set oracle (self-checked: all KKT points of a problem must '
              'coincide) and SciPy\'s optimizers up to their own tolerances, which are tightened so '
              'that the 1e-6 feasibility / 1e-4 (SLSQP) / 5e-3 (trust-constr) optimality thresholds '
              'lie above them; the derivative-free optimizers are only checked for faithfulness and '
              'feasibility.  '
              'Values are probes: one palette of generic dyadic data per seed.')
ASSUMPTIONS = [
    'problems are strictly convex QPs with linearly independent active constraints (generic data), '
    'feasible with non-empty interior for the inequality part; the start is strictly feasible for '
    'the inequalities (SciPy trust-constr rejects infeasible starts for keep_feasible constraints)',
    'a reported failure (DriverResult.success False) requires nothing; it is only counted',
    'only positive driver scalers (sign-changing scalers and lower/upper exchange belong to C20)',
    'add_constraint rejects equals together with lower/upper, so a per-element mix of equality and '
    'inequality elements is spelled either lower[i] == upper[i] in the array bounds (SLSQP, '
    'trust-constr only) or as two constraints on disjoint indices of the same output (alias)',
    'COBYLA/COBYQA do not support equality constraints (documented): patterns containing E are not '
    'run with them; differential_evolution needs finite design-variable bounds and is checked for '
    'faithfulness and feasibility only (no optimality claim at its default tolerance)',
    'bounds are interpreted in the units given to add_design_var/add_constraint (docstring)',
    'feasibility tolerance 1e-6 in model units; optimality tolerance on x 1e-4 for SLSQP (acc '
    '1e-10), 5e-3 for trust-constr (tol 1e-10, exact Hessian and initial barrier parameter 1e-7 '
    'handed over through opt_settings: SciPy reports gtol/xtol success on the central path, '
    'measured error <= 4e-4 on the repaired tree); no optimality claim for trust-constr with its '
    'BFGS Hessian, for COBYLA/COBYQA (SciPy 1.18 itself reports success at non-optimal vertices: '
    'reproduced with scipy.optimize.minimize alone) and for differential_evolution; scalers are in '
    '[0.25, 100]',
    'model-left-at-returned-design is an exact bookkeeping identity (1e-9 relative)',
]
MIN_NONTRIVIAL = {'quick': 4000, 'thorough': 25000}
CAP_S = {'thorough': 1500}

INF = 1e30          # openmdao.core.constants.INF_BOUND (documented sentinel)
FEAS_TOL = 1e-6
OPT_TOL = 1e-4
SAME_TOL = 1e-9     # model design vs. unscaled optimizer result: pure bookkeeping

# ------------------------------------------------------------------ palettes

_PALETTES = [
    dict(A=[[1.0, 0.5, -0.25], [-0.5, 1.5, 0.75], [0.25, -1.0, 2.0], [0.75, 0.25, 1.25]],
         c=[0.5, -0.25, 1.0, -0.75], D=[1.0, 2.0, 0.5], x0=[0.5, -0.25, 0.75],
         wl=[0.5, 0.25, 0.75, 0.375], wu=[0.25, 0.5, 1.0, 0.625],
         xl=[1.0, 0.5, 0.75], xu=[0.5, 1.0, 0.25]),
    dict(A=[[2.0, -0.5, 0.25], [0.5, 1.0, -1.5], [-0.75, 0.25, 1.0], [0.25, 1.5, 0.5]],
         c=[-0.5, 0.75, 0.25, 1.5], D=[2.0, 0.5, 1.0], x0=[-0.25, 0.5, 0.125],
         wl=[0.25, 0.75, 0.5, 0.625], wu=[0.5, 0.375, 0.25, 1.0],
         xl=[0.5, 0.75, 1.0], xu=[1.0, 0.25, 0.5]),
    dict(A=[[-1.0, 0.75, 0.5], [1.5, 0.5, -0.25], [0.5, 2.0, -0.75], [-0.25, 0.5, 1.5]],
         c=[0.25, 1.0, -0.5, 0.125], D=[0.5, 1.0, 2.0], x0=[0.75, 0.125, -0.5],
         wl=[0.75, 0.5, 0.25, 0.5], wu=[0.375, 0.25, 0.75, 0.25],
         xl=[0.75, 1.0, 0.5], xu=[0.25, 0.5, 1.0]),
    dict(A=[[0.5, -1.5, 1.0], [1.0, 0.25, 0.75], [-2.0, 0.5, 0.25], [1.25, -0.5, -0.75]],
         c=[1.0, -0.5, 0.75, 0.25], D=[1.0, 0.5, 4.0], x0=[-0.5, 0.75, 0.25],
         wl=[0.375, 0.5, 1.0, 0.25], wu=[0.75, 0.25, 0.5, 0.5],
         xl=[0.25, 0.5, 1.0], xu=[0.75, 1.0, 0.5]),
]

# comp output size and the rows a constraint of size m selects, per spelling
#   plain spellings: the component output has exactly m rows (0..m-1)
#   'indices': the output has m+1 rows and the constraint picks m of them in a scrambled order
_IDX_SEL = {2: [2, 0], 3: [3, 0, 2]}

_SCALINGS = {
    'none': None,
    # (dv kwargs, con kwargs (callable of size), obj kwargs)
    'ref': (dict(ref=4.0), lambda m: dict(ref=0.5), dict(ref=8.0)),
    'ref0': (dict(ref=3.0, ref0=-1.0), lambda m: dict(ref=2.0, ref0=0.25),
             dict(ref=2.0, ref0=1.0)),
    'array': (lambda n: dict(scaler=np.array([2.0, 0.5, 4.0])[:n],
                             adder=np.array([0.5, -1.0, 0.25])[:n]),
              lambda m: dict(scaler=np.array([0.25, 2.0, 8.0])[:m],
                             adder=np.array([-0.5, 1.0, 0.125])[:m]),
              dict(scaler=0.25, adder=2.0)),
    'units': (dict(units='cm'), lambda m: dict(units='mm', scaler=0.25), dict(units='dm**2')),
}
_UNIT_FACTOR = {'cm': 100.0, 'mm': 1000.0}

OPTS_Q = ['SLSQP', 'COBYLA', 'trust-constr']
OPTS_T = OPTS_Q + ['COBYQA', 'differential_evolution']
_NO_EQ = ('COBYLA', 'COBYQA', 'differential_evolution')
_NEW_STYLE = ('trust-constr', 'COBYQA', 'differential_evolution')


# ------------------------------------------------------------------ problem data

def problem_data(case):
    """Numbers of the QP of a case, in model units.  Pure function of the case."""
    pal = _PALETTES[case.get('pal', 0) % len(_PALETTES)]
    n, pat = case['n'], case['pat']
    m = len(pat)
    form = case['form']
    if form == 'indices':
        nrows, sel = m + 1, list(_IDX_SEL[m])
    else:
        nrows, sel = m, list(range(m))
    A = np.array(pal['A'])[:nrows, :n]
    c = np.array(pal['c'])[:nrows]
    D = np.array(pal['D'])[:n]
    x0 = np.array(pal['x0'])[:n]
    g0 = A @ x0 + c
    lo = np.full(m, -INF)
    up = np.full(m, INF)
    eq = np.zeros(m, dtype=bool)
    if form == 'scalar':
        # one scalar per side, shared by all elements; the pattern is uniform
        k = pat[0]
        gs = g0[sel]
        if k == 'E':
            # all elements equal the same scalar: feasible because m <= n and rows independent
            lo[:] = up[:] = 0.375
            eq[:] = True
        else:
            if k in 'LB':
                lo[:] = gs.min() - pal['wl'][0]
            if k in 'UB':
                up[:] = gs.max() + pal['wu'][0]
    else:
        for j, k in enumerate(pat):
            r = sel[j]
            if k in 'LB':
                lo[j] = g0[r] - pal['wl'][r]
            if k in 'UB':
                up[j] = g0[r] + pal['wu'][r]
            if k == 'E':
                lo[j] = up[j] = g0[r]
                eq[j] = True
    dvb = case.get('dvb', 'none')
    xl = np.full(n, -INF)
    xu = np.full(n, INF)
    if dvb == 'box':
        xl = x0 - np.array(pal['xl'])[:n]
        xu = x0 + np.array(pal['xu'])[:n]
    elif dvb == 'mixed':      # element 0 one-sided (upper), element 1 two-sided, element 2 lower
        xu[0] = x0[0] + pal['xu'][0]
        xl[1] = x0[1] - pal['xl'][1]
        xu[1] = x0[1] + pal['xu'][1]
        if n > 2:
            xl[2] = x0[2] - pal['xl'][2]
    elif dvb == 'scalar':     # scalar bounds shared by all elements
        xl[:] = x0.min() - 0.75
        xu[:] = x0.max() + 0.5
    return dict(n=n, m=m, A=A, c=c, D=D, x0=x0, sel=sel, lo=lo, up=up, eq=eq, xl=xl, xu=xu,
                nrows=nrows)


def targets(pd):
    """Target list: x0 (nothing active), then one target per side of each constraint element
    (the unconstrained optimum is pushed far through that side along the steepest direction of
    g_j in the D metric), then one per side of each design variable."""
    x0, D = pd['x0'], pd['D']
    out = [x0.copy()]
    R = 4.0
    for j in range(pd['m']):
        a = pd['A'][pd['sel'][j]]
        d = a / D
        d = d / np.sqrt(a @ d)
        out.append(x0 + R * d)
        out.append(x0 - R * d)
    return out


def extra_targets(pd):
    """Targets along the coordinate axes (push through design-variable bounds)."""
    out = []
    for i in range(pd['n']):
        e = np.zeros(pd['n'])
        e[i] = 3.0
        out.append(pd['x0'] + e)
        out.append(pd['x0'] - e)
    return out


def all_targets(pd, case):
    ts = targets(pd)
    if case.get('dvb', 'none') != 'none':
        ts = ts + extra_targets(pd)
    return ts


# ------------------------------------------------------------------ oracle (plain NumPy)

def reference_optimum(pd, t):
    """Complete active-set enumeration.  Rows: constraint elements then design variables.  Each
    inequality row is inactive / at lower / at upper, each equality row is active.  For each
    assignment solve the KKT system; keep primal-feasible points with correctly signed multipliers.
    Returns (x*, active_description, number_of_KKT_points)."""
    n = pd['n']
    rows = []
    for j in range(pd['m']):
        r = pd['sel'][j]
        rows.append((pd['A'][r], pd['c'][r], pd['lo'][j], pd['up'][j], bool(pd['eq'][j]), 'g%d' % j))
    for i in range(n):
        e = np.zeros(n)
        e[i] = 1.0
        if pd['xl'][i] > -INF or pd['xu'][i] < INF:
            rows.append((e, 0.0, pd['xl'][i], pd['xu'][i], False, 'x%d' % i))
    choices = []
    for a, c, lo, up, iseq, nm in rows:
        if iseq:
            choices.append(['E'])
        else:
            ch = ['-']
            if lo > -INF:
                ch.append('L')
            if up < INF:
                ch.append('U')
            choices.append(ch)
    D = np.diag(pd['D'])
    found = []
    for assign in itertools.product(*choices):
        act = [i for i, s in enumerate(assign) if s != '-']
        k = len(act)
        if k > n:
            continue
        K = np.zeros((n + k, n + k))
        rhs = np.zeros(n + k)
        K[:n, :n] = D
        rhs[:n] = pd['D'] * t
        for q, i in enumerate(act):
            a, c, lo, up, iseq, nm = rows[i]
            K[:n, n + q] = a
            K[n + q, :n] = a
            rhs[n + q] = (lo if assign[i] in 'LE' else up) - c
        try:
            sol = np.linalg.solve(K, rhs)
        except np.linalg.LinAlgError:
            continue                     # dependent active rows: not a vertex of generic data
        if not np.all(np.isfinite(sol)) or np.max(np.abs(K @ sol - rhs)) > 1e-9:
            continue
        x, nu = sol[:n], sol[n:]
        ok = True
        for q, i in enumerate(act):      # D(x-t) + sum nu_i a_i = 0; upper: nu>=0, lower: nu<=0
            if assign[i] == 'U' and nu[q] < -1e-10:
                ok = False
            if assign[i] == 'L' and nu[q] > 1e-10:
                ok = False
        if not ok:
            continue
        for a, c, lo, up, iseq, nm in rows:
            v = a @ x + c
            if v < lo - 1e-10 or v > up + 1e-10:
                ok = False
                break
        if ok:
            strong = tuple('%s%s' % (rows[i][5], assign[i]) for q, i in enumerate(act)
                           if abs(nu[q]) > 1e-9 or assign[i] == 'E')
            found.append((x, strong))
    if not found:
        raise AssertionError('oracle: no KKT point (infeasible problem data?)')
    xs = found[0][0]
    for x, _ in found[1:]:
        if np.max(np.abs(x - xs)) > 1e-8:
            raise AssertionError('oracle: KKT points differ %s %s' % (xs, x))
    # the description with the fewest rows is the strongly-active set
    strong = min((f[1] for f in found), key=len)
    return xs, strong, len(found)


def max_violation(pd, x):
    """(largest bound violation of constraint elements at x, of design variables, worst label)"""
    worst, label = 0.0, None
    for j in range(pd['m']):
        r = pd['sel'][j]
        v = pd['A'][r] @ x + pd['c'][r]
        for side, d in (('lower', pd['lo'][j] - v), ('upper', v - pd['up'][j])):
            if d > worst:
                worst, label = d, ('g', j, side)
    for i in range(pd['n']):
        for side, d in (('lower', pd['xl'][i] - x[i]), ('upper', x[i] - pd['xu'][i])):
            if d > worst:
                worst, label = d, ('x', i, side)
    return worst, label


# ------------------------------------------------------------------ implementation side

def _make_comp(om, pd, t, x_units, g_units, f_units):
    A, c, D = pd['A'], pd['c'], pd['D']
    n, nrows = pd['n'], pd['nrows']

    class QP(om.ExplicitComponent):
        def setup(self):
            self.add_input('x', val=np.zeros(n), units=x_units)
            self.add_output('f', val=0.0, units=f_units)
            self.add_output('g', val=np.zeros(nrows), units=g_units)
            self.declare_partials('f', 'x')
            self.declare_partials('g', 'x', val=A)

        def compute(self, inputs, outputs):
            d = inputs['x'] - t
            outputs['f'] = 0.5 * np.sum(D * d * d)
            outputs['g'] = A @ inputs['x'] + c

        def compute_partials(self, inputs, partials):
            partials['f', 'x'] = (D * (inputs['x'] - t)).reshape(1, n)

    return QP()


def groups(pat, form):
    """Pattern elements of each add_constraint call.  'split': two constraints on disjoint
    elements of the same output (the second needs an alias): the equality elements in one, the
    rest in the other; without (or with only) equality elements: [0] and the rest."""
    all_el = list(range(len(pat)))
    if form != 'split':
        return [all_el]
    e_idx = [j for j in all_el if pat[j] == 'E']
    o_idx = [j for j in all_el if pat[j] != 'E']
    if not e_idx or not o_idx:
        e_idx, o_idx = all_el[:1], all_el[1:]
    return [e_idx, o_idx]


def _bnd(v, infval):
    """array bound in API form: +-INF entries spelled with `infval`."""
    v = np.array(v, dtype=float)
    v[v >= INF] = infval
    v[v <= -INF] = -infval
    return v


def build_problem(case, pd, t):
    import openmdao.api as om
    n, m = pd['n'], pd['m']
    form, pat = case['form'], case['pat']
    scal = case.get('scal', 'none')
    infval = np.inf if case.get('inf') == 'np.inf' else INF
    sc = _SCALINGS[scal]
    dvk, conk_f, objk = ({}, (lambda m_: {}), {}) if sc is None else sc
    if callable(dvk):
        dvk = dvk(n)
    dvk = dict(dvk)
    objk = dict(objk)
    x_units = 'm' if scal == 'units' else None
    g_units = 'm' if scal == 'units' else None
    f_units = 'm**2' if scal == 'units' else None
    fx = _UNIT_FACTOR[dvk['units']] if 'units' in dvk else 1.0

    p = om.Problem(reports=None)
    p.model.add_subsystem('qp', _make_comp(om, pd, t, x_units, g_units, f_units), promotes=['*'])

    # design variable (bounds are given in the design variable's units)
    dvb = case.get('dvb', 'none')
    if dvb == 'scalar':
        dvk['lower'] = float(pd['xl'][0]) * fx
        dvk['upper'] = float(pd['xu'][0]) * fx
    elif dvb != 'none':
        xl, xu = _bnd(pd['xl'], infval), _bnd(pd['xu'], infval)
        fin_l, fin_u = np.abs(xl) < INF, np.abs(xu) < INF
        xl[fin_l] *= fx
        xu[fin_u] *= fx
        dvk['lower'] = xl
        dvk['upper'] = xu
    p.model.add_design_var('x', **dvk)
    p.model.add_objective('f', **objk)

    def con_kwargs(elems):
        """scaling kwargs for a constraint over pattern elements `elems` (array scalings sliced)"""
        k = dict(conk_f(m))
        for key in ('scaler', 'adder', 'ref', 'ref0'):
            if key in k and isinstance(k[key], np.ndarray):
                k[key] = k[key][elems]
        return k

    def bounds_kwargs(elems, fg):
        lo = _bnd(pd['lo'][elems], infval)
        up = _bnd(pd['up'][elems], infval)
        fl, fu = np.abs(lo) < INF, np.abs(up) < INF
        lo[fl] *= fg
        up[fu] *= fg
        return lo, up

    linear = bool(case.get('linear', False))
    all_el = list(range(m))
    fg = _UNIT_FACTOR['mm'] if scal == 'units' else 1.0

    def add(elems, alias=None, use_indices=False):
        k = con_kwargs(elems)
        kinds = [pat[j] for j in elems]
        lo, up = bounds_kwargs(elems, fg)
        if all(kk == 'E' for kk in kinds):
            k['equals'] = lo
        else:
            # None for a side without any finite entry is the documented way to say "no bound";
            # arrays with +-INF entries are used as soon as one element has that side
            has_l = any(kk in 'LBE' for kk in kinds)
            has_u = any(kk in 'UBE' for kk in kinds)
            if has_l or not has_u:
                k['lower'] = lo
            if has_u or not has_l:
                k['upper'] = up
        if use_indices:
            k['indices'] = [pd['sel'][j] for j in elems]
        if alias:
            k['alias'] = alias
        p.model.add_constraint('g', linear=linear, **k)

    if form == 'scalar':
        k = con_kwargs(all_el)
        kind = pat[0]
        if kind == 'E':
            k['equals'] = float(pd['lo'][0]) * fg
        else:
            if kind in 'LB':
                k['lower'] = float(pd['lo'][0]) * fg
            if kind in 'UB':
                k['upper'] = float(pd['up'][0]) * fg
        p.model.add_constraint('g', linear=linear, **k)
    elif form == 'array':
        add(all_el)
    elif form == 'indices':
        add(all_el, use_indices=True)
    elif form == 'split':
        e_idx, o_idx = groups(pat, form)
        add(e_idx, use_indices=True)
        add(o_idx, alias='g_rest', use_indices=True)
    else:
        raise ValueError(form)

    opt = case['opt']
    drv = om.ScipyOptimizeDriver(optimizer=opt, disp=False)
    if opt == 'SLSQP':
        drv.options['tol'] = 1e-10
        drv.options['maxiter'] = 300
    elif opt == 'COBYLA':
        drv.options['tol'] = 1e-8
        drv.options['maxiter'] = 5000
        # a non-dyadic initial radius, so that the first simplex does not land exactly on the
        # dyadic bounds of the palettes (see _opt_tol for SciPy's COBYLA-with-bounds quirk)
        drv.opt_settings['rhobeg'] = 0.3
    elif opt == 'trust-constr':
        drv.options['tol'] = 1e-10
        drv.options['maxiter'] = 3000
        if case.get('hess', 'exact') == 'exact':
            # SciPy's interior point reports success (gtol) on the central path of whatever
            # barrier parameter it is at, so the error of a "success" is O(barrier parameter):
            # start with a small one and give it the exact Hessian (both are documented
            # pass-through opt_settings) - then x is good to ~1e-5 and OPT_TOL is justified.
            Dm = np.diag(pd['D'])
            fs = _obj_scale(case)
            xs = _dv_scale(case, n)
            H = fs * Dm / np.outer(xs, xs)
            drv.opt_settings['hess'] = lambda x, *a: H
            drv.opt_settings['initial_barrier_parameter'] = 1e-7
            drv.opt_settings['initial_barrier_tolerance'] = 1e-7
    elif opt == 'COBYQA':
        drv.options['tol'] = 1e-8
        drv.options['maxiter'] = 5000
    elif opt == 'differential_evolution':
        drv.options['maxiter'] = 300
        drv.opt_settings['seed'] = 11
        drv.opt_settings['popsize'] = 8
    drv.options['singular_jac_behavior'] = 'ignore'
    p.driver = drv
    p.setup()
    p.set_val('x', pd['x0'])      # model units; strictly feasible for the inequalities
    return p


def _dv_scale(case, n):
    """d(driver x)/d(model x) per element - only used to hand trust-constr the exact Hessian."""
    scal = case.get('scal', 'none')
    if scal == 'none':
        return np.ones(n)
    if scal == 'ref':
        return np.full(n, 1 / 4.0)
    if scal == 'ref0':
        return np.full(n, 1 / 4.0)
    if scal == 'array':
        return np.array([2.0, 0.5, 4.0])[:n]
    if scal == 'units':
        return np.full(n, 100.0)
    raise ValueError(scal)


def _obj_scale(case):
    return {'none': 1.0, 'ref': 1 / 8.0, 'ref0': 1.0, 'array': 0.25, 'units': 100.0}[
        case.get('scal', 'none')]


def unscale_result_x(case, xopt, n):
    """model-unit x from the optimizer-space x by the documented formulas
    x_drv = (x_units + adder) * scaler, (adder, scaler) = (-ref0, 1/(ref-ref0))."""
    scal = case.get('scal', 'none')
    xopt = np.asarray(xopt, dtype=float)
    if scal == 'none':
        return xopt
    if scal == 'ref':
        return xopt * 4.0
    if scal == 'ref0':
        return xopt * (3.0 - (-1.0)) + (-1.0)
    if scal == 'array':
        return xopt / np.array([2.0, 0.5, 4.0])[:n] - np.array([0.5, -1.0, 0.25])[:n]
    if scal == 'units':
        return xopt / 100.0
    raise ValueError(scal)


def _opt_tol(case):
    """Optimality threshold on x (model units), None = no optimality claim.
    SLSQP (acc 1e-10): 1e-4, six orders above its tolerance.
    trust-constr: SciPy's interior point reports success (gtol/xtol) at points whose distance
    from the optimum its tolerances do not control (see build_problem); with the exact Hessian
    and barrier parameter 1e-7 the largest error measured on the repaired tree is 4e-4, so the
    threshold is 5e-3 - still 50x below the smallest effect of a misplaced bound (widths >= 0.25).
    With its default BFGS Hessian no optimality is claimed.
    COBYLA, COBYQA: SciPy 1.18's derivative-free optimizers can stop after ~12-30 evaluations at
    a vertex of the feasible set or on a bound and report success ("trust region radius reaches
    its lower bound"); three such runs found by this check were reproduced with
    scipy.optimize.minimize alone on the same (scaled) QP, so a wrong optimum cannot be blamed on
    OpenMDAO: no optimality claim (faithfulness and feasibility are still checked; the dict-style
    and new-style constraint code they share with SLSQP / trust-constr is covered by those).
    differential_evolution: default tolerance, no optimality claim."""
    opt = case['opt']
    if opt == 'SLSQP':
        return OPT_TOL
    if opt == 'trust-constr':
        return 5e-3 if case.get('hess', 'exact') == 'exact' else None
    return None


def sig_class(case):
    """structural class for signatures: how the optimizer receives constraints, linear flag"""
    opt = case['opt']
    style = 'newstyle' if opt in _NEW_STYLE else 'dictstyle'
    return '%s/%s' % (style, 'linear' if case.get('linear') else 'nonlinear')


def elem_class(case, j, side):
    """class of a violated constraint element: which side; the bound kind of the element (L, U,
    T = two-sided, i.e. both bounds or lower == upper inside an inequality constraint, E = element
    of an equality constraint); its position inside its add_constraint call (only/first/middle/
    last); and whether that call's first element is one-sided or unbounded (1), two-sided (2) or
    an equality (E)."""
    pat, form = case['pat'], case['form']
    for g in groups(pat, form):
        if j in g:
            break
    q = g.index(j)
    pos = 'only' if len(g) == 1 else ('first' if q == 0 else ('last' if q == len(g) - 1
                                                              else 'middle'))
    as_ineq = not all(pat[i] == 'E' for i in g)

    def kind(i):
        k = pat[i]
        if k == 'E':
            return 'T' if as_ineq else 'E'
        return 'T' if k == 'B' else k
    if kind(j) == 'E':
        side = 'equals'
    first = {'N': '1', 'L': '1', 'U': '1', 'T': '2', 'E': 'E'}[kind(g[0])]
    return '%s_of_%s_%s_first%s' % (side, kind(j), pos, first)


def run_one(case, ti):
    """One optimisation.  Returns (outcome, nontrivial, violations)."""
    pd = problem_data(case)
    ts = all_targets(pd, case)
    t = ts[ti]
    xref, active, nk = reference_optimum(pd, t)
    one = dict(case)
    one['tgt'] = [ti]
    opt = case['opt']
    cls = sig_class(case)
    vio = []

    def V(what, extra, msg):
        vio.append({'sig': 'C21:%s:%s%s' % (what, cls, (':' + extra) if extra else ''),
                    'msg': '%s opt=%s pat=%s form=%s linear=%s dvb=%s scal=%s n=%d tgt=%d: %s' % (
                        what, opt, case['pat'], case['form'], case.get('linear', False),
                        case.get('dvb', 'none'), case.get('scal', 'none'), case['n'], ti, msg),
                    'case': one})

    buf = io.StringIO()
    try:
        with warnings.catch_warnings():
            warnings.simplefilter('ignore')
            with contextlib.redirect_stdout(buf), contextlib.redirect_stderr(buf):
                p = build_problem(case, pd, t)
                res = p.run_driver()
    except Exception as exc:
        import traceback
        loc = traceback.extract_tb(exc.__traceback__)[-1]
        msg = str(exc)
        what = ('x0_infeasible' if 'is infeasible' in msg else
                'bounds_not_broadcastable' if 'broadcastable' in msg else 'other')
        V('raises', '%s_%s' % (type(exc).__name__, what),
          'valid problem rejected: %s: %s (at %s:%d)' % (type(exc).__name__, str(exc)[:200],
                                                        loc.filename.split('/')[-1], loc.lineno))
        return '%s:exception' % opt, 0, vio

    success = bool(res.success)
    if success != (not p.driver.fail):
        V('success_flag', '', 'DriverResult.success=%s but driver.fail=%s' % (success,
                                                                              p.driver.fail))
    if not success:
        return '%s:reported_failure' % opt, 0, vio

    sres = p.driver._scipy_optimize_result
    x_model = np.array(p.get_val('x'), dtype=float).ravel()      # model units
    x_ret = unscale_result_x(case, sres.x, pd['n'])
    g_model = np.array(p.get_val('g'), dtype=float).ravel()
    f_model = float(np.asarray(p.get_val('f')).ravel()[0])

    # (i) the model is left at the design the optimizer returned (and has been run there)
    dx = float(np.max(np.abs(x_model - x_ret)))
    if dx > SAME_TOL * max(1.0, float(np.max(np.abs(x_ret)))):
        V('model_not_at_returned_design', opt,
          'model x=%s, optimizer returned x=%s (model units), diff %.3g' % (
              x_model.tolist(), x_ret.tolist(), dx))
    g_at = pd['A'] @ x_model + pd['c']
    d = x_model - t
    f_at = 0.5 * np.sum(pd['D'] * d * d)
    if np.max(np.abs(g_at - g_model)) > 1e-9 or abs(f_at - f_model) > 1e-9 * max(1, abs(f_at)):
        V('model_outputs_stale', opt, 'outputs f,g do not belong to the design in the model')

    # (ii) feasibility of every element, at the model's design and at the returned design
    for which, x in (('model', x_model), ('returned', x_ret)):
        worst, label = max_violation(pd, x)
        if worst > FEAS_TOL:
            kind, j, side = label
            if kind == 'g':
                extra = 'con_%s' % elem_class(case, j, side)
            else:
                extra = 'desvar_%s' % side
            if case.get('scal', 'none') == 'units' and case.get('linear'):
                extra += ':units'       # the linear-constraint Jacobian has its own unit path
            V('infeasible_on_success', extra,
              '%s design x=%s violates %s[%d] %s bound by %.3g (pattern %s, reference optimum %s)'
              % (which, x.tolist(), kind, j, side, worst, case['pat'], xref.tolist()))
            break

    # (iii) optimality
    opt_tol = _opt_tol(case)
    if opt_tol is not None and not vio:
        err = float(np.max(np.abs(x_model - xref)))
        if err > opt_tol:
            V('not_optimal_on_success', 'scal_%s' % case.get('scal', 'none'),
              'x=%s, reference optimum %s (active %s), error %.3g' % (
                  x_model.tolist(), xref.tolist(), list(active), err))

    nontriv = int(len(active) > 0)
    oc = '%s:success:%s' % (opt, 'active%d' % len(active))
    return oc, nontriv, vio


# ------------------------------------------------------------------ enumeration

def _patterns(m):
    return [''.join(p) for p in itertools.product('NLUBE', repeat=m)]


def _valid(n, pat, form, opt):
    m = len(pat)
    ne = pat.count('E')
    if ne > n:
        return False              # more independent equalities than unknowns
    if ne and opt in _NO_EQ:
        return False
    if form == 'scalar' and len(set(pat)) != 1:
        return False
    if form == 'scalar' and pat[0] == 'N':
        return False
    if form == 'split' and m < 2:
        return False
    return True


def cases(tier, seed):
    """E1 enumeration: full product (pattern x optimizer x linear flag) on the default spelling,
    then the <= 1-deviation ball (spelling, design-variable bounds, scaling, inf spelling) around
    it, then (thorough) the 2-deviation ball on the size-2 patterns."""
    pal = seed % len(_PALETTES)
    out = []
    seen = set()
    quick = tier == 'quick'

    def add(**kw):
        kw.setdefault('form', 'array')
        kw.setdefault('linear', False)
        kw.setdefault('dvb', 'none')
        kw.setdefault('scal', 'none')
        kw['pal'] = pal
        if not _valid(kw['n'], kw['pat'], kw['form'], kw['opt']):
            return
        if kw['opt'] == 'differential_evolution' and kw['dvb'] not in ('box', 'scalar'):
            return
        if kw.pop('prune', False) or (quick and kw['opt'] != 'SLSQP'):
            # expensive optimizers (quick tier; size-3 deviations in the thorough tier): besides
            # x0 only the targets that make some bound active at the reference optimum
            kw['prune'] = True
        key = tuple(sorted((k, str(v)) for k, v in kw.items()))
        if key in seen:
            return
        seen.add(key)
        kw['tgt'] = None
        out.append(kw)

    # 1. full product: pattern x optimizer x linear flag (array spelling, defaults elsewhere)
    if quick:
        prod = [((2, 2), OPTS_Q), ((2, 3), OPTS_Q), ((3, 3), ['SLSQP', 'COBYLA'])]
    else:
        prod = [((2, 2), OPTS_T), ((2, 3), OPTS_T), ((3, 2), OPTS_Q), ((3, 3), OPTS_Q)]
    for (n, m), opts in prod:
        for pat in _patterns(m):
            for opt in opts:
                for linear in (False, True):
                    add(n=n, pat=pat, opt=opt, linear=linear,
                        dvb='box' if opt == 'differential_evolution' else 'none')
    # 2. one deviation: spelling, design-variable bounds, scaling, +-inf spelling
    if quick:
        dev = [((2, 2), 'SLSQP', 'all'), ((2, 2), 'COBYLA', 'some'),
               ((2, 2), 'trust-constr', 'some')]
    else:
        dev = [((2, 2), o, 'all') for o in OPTS_Q] + \
              [((2, 2), 'COBYQA', 'some'), ((3, 3), 'SLSQP', 'all'),
               ((3, 3), 'trust-constr', 'some_pruned'), ((3, 3), 'COBYLA', 'some_pruned')]
    for (n, m), opt, how in dev:
        forms = ('indices', 'split', 'scalar')
        dvbs = ('box', 'mixed', 'scalar') if how == 'all' else ('box',)
        scals = ('ref', 'ref0', 'array', 'units') if how == 'all' else ('array', 'units')
        pr = how.endswith('pruned')
        for pat in _patterns(m):
            for linear in (False, True):
                for form in forms:
                    add(n=n, pat=pat, opt=opt, linear=linear, form=form, prune=pr)
                for dvb in dvbs:
                    add(n=n, pat=pat, opt=opt, linear=linear, dvb=dvb, prune=pr)
                for scal in scals:
                    add(n=n, pat=pat, opt=opt, linear=linear, scal=scal, prune=pr)
                if how == 'all':
                    add(n=n, pat=pat, opt=opt, linear=linear, inf='np.inf', prune=pr)
    if not quick:
        # 3. two simultaneous deviations on the size-2 patterns
        for pat in _patterns(2):
            for opt in OPTS_Q:
                for linear in (False, True):
                    for form in ('indices', 'split', 'scalar'):
                        for scal in ('ref0', 'array', 'units'):
                            add(n=2, pat=pat, opt=opt, linear=linear, form=form, scal=scal)
                        if opt == 'trust-constr':
                            continue
                        for dvb in ('box', 'mixed'):
                            add(n=2, pat=pat, opt=opt, linear=linear, form=form, dvb=dvb)
                    if opt == 'trust-constr':
                        continue
                    for dvb in ('box', 'mixed', 'scalar'):
                        for scal in ('ref0', 'array', 'units'):
                            add(n=2, pat=pat, opt=opt, linear=linear, dvb=dvb, scal=scal)
        # trust-constr with its default quasi-Newton Hessian (the sweep hands it the exact one)
        for pat in _patterns(2):
            for linear in (False, True):
                add(n=2, pat=pat, opt='trust-constr', linear=linear, hess='bfgs')
    return out


def check_case(case):
    import collections
    pd = problem_data(case)
    nt_all = len(all_targets(pd, case))
    tgts = case.get('tgt')
    if tgts is None:
        tgts = list(range(nt_all))
        if case.get('prune'):
            ts = all_targets(pd, case)
            tgts = [ti for ti in tgts if ti == 0 or reference_optimum(pd, ts[ti])[1]]
    outcomes = collections.Counter()
    evals = nontriv = 0
    vios = []
    seen = collections.Counter()
    for ti in tgts:
        oc, nt, vio = run_one(case, ti)
        evals += 1
        nontriv += nt
        outcomes[oc] += 1
        for v in vio:
            seen[v['sig']] += 1
            if seen[v['sig']] <= 1:
                vios.append(v)
    return {'evals': evals, 'nontrivial': nontriv, 'outcome': dict(outcomes), 'violations': vios}
