"""C22 - constraint violation is measured elementwise and in driver units (DESIGN.md 4, C22).

Driver.get_constraint_values(viol=True), Driver._compute_con_viol and Problem.find_feasible are
driven on tiny models whose constraint values are placed on a lattice straddling the bounds.
Reference: per element  v - lower (v < lower),  v - upper (v > upper),  v - equals,  0 otherwise,
with v and the bounds in the declared units of the constraint, times the constraint's scaler when
driver_scaling is requested (no adder: it is a distance).
"""
import collections
import contextlib
import io
import itertools

import numpy as np

ID = 'C22'
LEVEL = 'exploration'
TECHNIQUE = ('bounded exhaustive enumeration of (constraint size, per-element bound pattern given as '
             'scalars or arrays, scaling/units declaration, linear flag) x all value vectors of a '
             'lattice straddling the bounds x driver_scaling, compared with the elementwise distance '
             'formula; multi-constraint models for ctype/lintype filters and the ordering of '
             '_compute_con_viol; find_feasible on witness-constructed feasible/infeasible linear '
             'problems')
RULE = ('one evaluation = one (declaration, value vector, driver_scaling) query of the violation, one '
        '(filter, value vector) query, one _compute_con_viol call or one find_feasible run; '
        'non-trivial = at least one element violates a bound or an equality and another element of '
        'the same query is satisfied or violates a different side (size 1: violated); for '
        'find_feasible: the start point is infeasible; plus the least-squares point of an infeasible '
        'pair of constraints (every linear-flag assignment x driver {base, SLSQP} x declaration order '
        'x driver_scaling x 3 ref pairs x 2 slopes) against its closed form.  Every combination is '
        'enumerated once.')
LEVEL_TEXT = ('The violation is a per-element case distinction (below / inside / above, equality) '
              'combined with per-element bounds and scalers; every combination of element state, bound '
              'form (scalar/array, one/two sided, +-INF_BOUND entries), scaling form and flag inside '
              'the bound is enumerated and compared with the closed form, so a wrong element '
              'association, a missed scaler, an added adder or a sign error is seen.')
LEVEL_NOTE = ('Reference = three-line NumPy formula from the property text; unit factors are literal '
              'constants; feasibility of the find_feasible problems is known by construction (explicit '
              'witness point / interval bound), not computed by an optimizer.')
ASSUMPTIONS = [
    'bounds are in the declared units of the constraint; the distance is measured there',
    'the violation is signed (v - bound), as the property states; negative scalers multiply it as is',
    'find_feasible: linear constraints over a box, trf least squares; feasible problems have a '
    'witness with slack >= 0.5, infeasible ones miss by >= 1 by interval arithmetic; reported '
    'success requires a feasible problem and a final model state with zero violation (1e-5) inside '
    'the design-variable bounds; a reported failure on a feasible problem is only counted (the '
    'property does not promise convergence of the least-squares search)',
    'sizes 1..3, lattice of 5 positions per element (quick: 3 positions for size 3)',
]
MIN_NONTRIVIAL = {'quick': 4000, 'thorough': 20000}

INF_BOUND = 1.0e30

# palettes: per-element bounds, scaling numbers, affine component map
_PAL = []
for _k in range(4):
    _PAL.append(dict(
        L=np.array([-1.25, -2.5, -0.75]) + 0.125 * _k,
        U=np.array([3.5, 5.25, 2.75]) + 0.25 * _k,
        E=np.array([0.375, -1.125, 2.625]) - 0.125 * _k,
        a=np.roll(np.array([2.0, 4.0, 0.5]), _k), b=np.roll(np.array([0.5, -0.25, 1.0]), _k),
        S=np.array([2.0, 0.25, 8.0]) * [1.0, 2.0, 0.5, 4.0][_k],
        Sneg=np.array([-4.0, -0.5, -16.0]) * [1.0, 2.0, 0.5, 4.0][_k],
        Ad=np.array([1.5, -2.75, 0.625]) + 0.25 * _k,
        R=np.array([3.0, 5.0, 1.5]) + 0.5 * _k, R0=np.array([1.0, -3.0, 1.25]) + 0.5 * _k,
    ))

SCALINGS = ['none', 'scaler', 'neg_scaler', 'adder', 'scaler_adder', 'ref_ref0', 'ref_lt_ref0',
            'arr_scaler', 'arr_scaler_adder', 'arr_ref_ref0', 'arr_mix_scaler',
            'units', 'units_scaler', 'units_arr_scaler_adder', 'offset_units', 'offset_units_ref_ref0']

_UNITS = {None: ('m', None, 1.0, 0.0), 'units': ('m', 'cm', 100.0, 0.0),
          'offset': ('degC', 'degF', 1.8, 32.0)}


def scaling_kwargs(name, n, pal):
    """(add_constraint keyword arguments, reference scaler array, units key)"""
    def arr(k):
        return np.array(pal[k][:n], dtype=float)
    ukey = None
    base = name
    if name.startswith('offset_units'):
        ukey = 'offset'
        base = name[len('offset_units'):].lstrip('_') or 'none'
    elif name.startswith('units'):
        ukey = 'units'
        base = name[len('units'):].lstrip('_') or 'none'
    t = {
        'none': {},
        'scaler': {'scaler': float(pal['S'][0])},
        'neg_scaler': {'scaler': float(pal['Sneg'][0])},
        'adder': {'adder': float(pal['Ad'][0])},
        'scaler_adder': {'scaler': float(pal['S'][1]), 'adder': float(pal['Ad'][1])},
        'ref_ref0': {'ref': float(pal['R'][0]), 'ref0': float(pal['R0'][0])},
        'ref_lt_ref0': {'ref': float(pal['R0'][1]), 'ref0': float(pal['R'][1])},
        'arr_scaler': {'scaler': arr('S')},
        'arr_scaler_adder': {'scaler': arr('S'), 'adder': arr('Ad')},
        'arr_ref_ref0': {'ref': arr('R'), 'ref0': arr('R0')},
        'arr_mix_scaler': {'scaler': arr('S') * np.array([1.0, -1.0, 1.0])[:n], 'adder': arr('Ad')},
    }
    kw = t[base]
    if 'ref' in kw:
        sc = 1.0 / (np.broadcast_to(np.asarray(kw['ref'], dtype=float), (n,)) -
                    np.broadcast_to(np.asarray(kw['ref0'], dtype=float), (n,)))
    else:
        sc = np.broadcast_to(np.asarray(kw.get('scaler', 1.0), dtype=float), (n,)).copy()
    return dict(kw), sc, ukey


# ------------------------------------------------------------------ bound patterns

def patterns(n):
    """bound patterns for a constraint of size n: (label, class, per-element kinds)"""
    out = []
    for k in ('lo', 'up', 'both', 'eq'):
        out.append(('sc_' + k, 'scalar', (k,) * n))
    out.append(('eq_arr', 'eq_array', ('eq',) * n))
    for kinds in itertools.product(('lo', 'up', 'both'), repeat=n):
        out.append(('arr_' + '-'.join(kinds), 'array', kinds))
    if n > 1:
        out.append(('arrlo_scup', 'array', ('both',) * n))
        out.append(('sclo_arrup', 'array', ('both',) * n))
    return out


def bound_kwargs(label, kinds, n, pal):
    """(add_constraint kwargs in declared units, reference lower/upper/equals arrays)"""
    L, U, E = pal['L'][:n].copy(), pal['U'][:n].copy(), pal['E'][:n].copy()
    if label.startswith('sc_'):
        k = kinds[0]
        if k == 'lo':
            return {'lower': float(L[0])}, np.full(n, L[0]), np.full(n, INF_BOUND), None
        if k == 'up':
            return {'upper': float(U[0])}, np.full(n, -INF_BOUND), np.full(n, U[0]), None
        if k == 'both':
            return {'lower': float(L[0]), 'upper': float(U[0])}, np.full(n, L[0]), \
                np.full(n, U[0]), None
        return {'equals': float(E[0])}, None, None, np.full(n, E[0])
    if label == 'eq_arr':
        return {'equals': E}, None, None, E
    if label == 'arrlo_scup':
        return {'lower': L, 'upper': float(U[0])}, L, np.full(n, U[0]), None
    if label == 'sclo_arrup':
        return {'lower': float(L[0]), 'upper': U}, np.full(n, L[0]), U, None
    lo = np.where([k in ('lo', 'both') for k in kinds], L, -INF_BOUND)
    up = np.where([k in ('up', 'both') for k in kinds], U, INF_BOUND)
    kw = {}
    if any(k in ('lo', 'both') for k in kinds):
        kw['lower'] = lo
    if any(k in ('up', 'both') for k in kinds):
        kw['upper'] = up
    lo_ref = lo if 'lower' in kw else np.full(n, -INF_BOUND)
    up_ref = up if 'upper' in kw else np.full(n, INF_BOUND)
    return kw, lo_ref, up_ref, None


def lattice(kind, i, pal, small):
    """declared-unit values of element i straddling its bounds"""
    L, U, E = pal['L'][i], pal['U'][i], pal['E'][i]
    if kind == 'eq':
        return [E - 0.5, E, E + 1.25]
    if small:
        return [L - 1.5, L + 0.25, U + 0.75]
    return [L - 1.5, L, L + 0.25, U, U + 0.75]


def ref_viol(v, lo, up, eq, scaler, driver_scaling):
    """the property's formula; v, bounds in declared units"""
    if eq is not None:
        out = v - eq
    else:
        out = np.where(v < lo, v - lo, np.where(v > up, v - up, 0.0))
    if driver_scaling:
        out = out * scaler
    return out


def _tol(v, lo, up, eq, scaler, ds):
    b = np.abs(eq) if eq is not None else np.where(np.abs(lo) < INF_BOUND, np.abs(lo), 0.0) + \
        np.where(np.abs(up) < INF_BOUND, np.abs(up), 0.0)
    t = 1e-12 * (np.abs(v) + b + 1.0)
    return t * (np.abs(scaler) if ds else 1.0)


# ------------------------------------------------------------------ models

_CLS = {}


def _aff_class():
    if 'Aff' in _CLS:
        return _CLS['Aff']
    import openmdao.api as om

    class Aff(om.ExplicitComponent):
        """g_k = a * x_k + b for each declared pair (x_k, g_k)"""

        def initialize(self):
            self.options.declare('vars')     # list of (suffix, n, units)
            self.options.declare('pal', types=int)

        def setup(self):
            for suf, n, u in self.options['vars']:
                self.add_input('x' + suf, np.zeros(n))
                self.add_output('g' + suf, np.zeros(n), units=u)
                self.declare_partials('g' + suf, 'x' + suf, rows=np.arange(n), cols=np.arange(n))

        def compute(self, inputs, outputs):
            pal = _PAL[self.options['pal']]
            for suf, n, u in self.options['vars']:
                outputs['g' + suf] = pal['a'][:n] * inputs['x' + suf] + pal['b'][:n]

        def compute_partials(self, inputs, partials):
            pal = _PAL[self.options['pal']]
            for suf, n, u in self.options['vars']:
                partials['g' + suf, 'x' + suf] = pal['a'][:n]
    _CLS['Aff'] = Aff
    return Aff


def _lin_class():
    if 'Lin' in _CLS:
        return _CLS['Lin']
    import openmdao.api as om

    class Lin(om.ExplicitComponent):
        """g = A x"""

        def initialize(self):
            self.options.declare('A')
            self.options.declare('units', default=None)

        def setup(self):
            A = self.options['A']
            self.add_input('x', np.zeros(A.shape[1]))
            self.add_output('g', np.zeros(A.shape[0]), units=self.options['units'])
            self.declare_partials('g', 'x', val=A)

        def compute(self, inputs, outputs):
            outputs['g'] = self.options['A'] @ inputs['x']
    _CLS['Lin'] = Lin
    return Lin


def _x_for(gdecl, n, pal, u):
    """model input that produces the declared-unit constraint value gdecl"""
    gmodel = (np.asarray(gdecl, dtype=float) - u[3]) / u[2]
    return (gmodel - pal['b'][:n]) / pal['a'][:n]


def _sig_scale(name):
    arr = 'arr' if 'arr' in name else 'sc'
    if name in ('none', 'units', 'offset_units'):
        arr = 'noscaler'
    if name == 'adder':
        arr = 'adder_only'
    neg = '-neg' if ('neg' in name or 'lt' in name or 'mix' in name) else ''
    un = '+offset_units' if name.startswith('offset') else ('+units' if name.startswith('units')
                                                           else '')
    return arr + neg + un


def check_single(case):
    """one declaration, all lattice value vectors (or the given one), both driver_scaling flags"""
    import openmdao.api as om
    n, label, kinds = case['n'], case['pattern'], tuple(case['kinds'])
    pal = _PAL[case['pal']]
    skw, scaler, ukey = scaling_kwargs(case['scaling'], n, pal)
    u = _UNITS[ukey]
    bkw, lo, up, eq = bound_kwargs(label, kinds, n, pal)
    bcls = case['bcls']
    oc = collections.Counter()
    vio = []
    evals = nt = 0

    def V(obs, msg, cls, values=None, ds=None):
        sig = 'C22:%s:%s' % (obs, cls)
        if sum(1 for v in vio if v['sig'] == sig) >= 2:
            oc['more_violations_same_signature'] += 1
            return
        c = {k: case[k] for k in ('kind', 'n', 'pattern', 'kinds', 'pal', 'scaling', 'bcls',
                                  'linear')}
        if values is not None:
            c['values'] = [list(map(float, values))]
            c['ds'] = [bool(ds)]
        vio.append({'sig': sig, 'case': c, 'msg': '%s [n=%d bounds=%s scaling=%s linear=%s%s]: %s' % (
            obs, n, label, case['scaling'], case['linear'],
            '' if values is None else ' g=%s driver_scaling=%s' % (list(values), ds), msg)})

    p = om.Problem(reports=None)
    p.model.add_subsystem('c', _aff_class()(vars=[('', n, u[0])], pal=case['pal']), promotes=['*'])
    p.model.add_design_var('x', lower=-1e3, upper=1e3)
    p.model.add_objective('x', index=0)
    try:
        with contextlib.redirect_stdout(io.StringIO()):
            p.model.add_constraint('g', units=u[1], linear=bool(case['linear']), **bkw, **skw)
            p.setup()
            p.final_setup()
    except Exception as exc:
        V('setup_raises', '%s: %s' % (type(exc).__name__, str(exc)[:300]),
          '%s/%s:%s' % (bcls, _sig_scale(case['scaling']), type(exc).__name__))
        return {'evals': 1, 'nontrivial': 0, 'outcome': {'violation': 1}, 'violations': vio}

    if 'values' in case:
        vals = [tuple(v) for v in case['values']]
        flags = case.get('ds', [False, True])
    else:
        vals = list(itertools.product(*[lattice(kinds[i], i, pal, case['small'])
                                        for i in range(n)]))
        flags = [False, True]
    d = p.driver
    for gd in vals:
        gd = np.array(gd, dtype=float)
        p.set_val('x', _x_for(gd, n, pal, u))
        p.run_model()
        for ds in flags:
            evals += 1
            want = ref_viol(gd, lo, up, eq, scaler, ds)
            try:
                got = d.get_constraint_values(driver_scaling=ds, viol=True)
            except Exception as exc:
                oc['raises'] += 1
                V('viol_raises', '%s: %s' % (type(exc).__name__, str(exc)[:200]),
                  '%s:%s' % (bcls, type(exc).__name__), gd, ds)
                continue
            if set(got) != {'g'}:
                V('viol_keys', 'keys %s' % sorted(got), bcls, gd, ds)
                continue
            g = np.asarray(got['g'], dtype=float)
            if g.shape != want.shape or not np.all(np.abs(g - want) <= _tol(gd, lo, up, eq,
                                                                             scaler, ds)):
                obs = 'viol_value'
                cls = '%s/%s/ds=%s' % (bcls, _sig_scale(case['scaling']), ds)
                if ds and g.shape == want.shape:
                    unsc = ref_viol(gd, lo, up, eq, scaler, False)
                    if np.all(np.abs(g - unsc) <= _tol(gd, lo, up, eq, scaler, False)):
                        obs = 'viol_not_scaled'           # diagnosed: the scaler was not applied
                        cls = _sig_scale(case['scaling']).split('+')[0]
                oc[obs] += 1
                V(obs, 'got %s expected %s' % (g.tolist(), want.tolist()), cls, gd, ds)
                continue
            oc['agree'] += 1
            nz = np.count_nonzero(ref_viol(gd, lo, up, eq, scaler, False))
            pos = np.any(want > 0) and np.any(want < 0)
            nt += int(nz >= 1 and (n == 1 or nz < n or pos))
    return {'evals': evals, 'nontrivial': nt, 'outcome': dict(oc),
            'violations': vio, 'sample': {k: case[k] for k in ('n', 'pattern', 'scaling', 'linear')}}


# ------------------------------------------------------------------ filters and _compute_con_viol

# four constraints of sizes 2,1,3,2: (suffix, n, pattern label, kinds, scaling, linear)
_MULTI = [
    [('a', 2, 'eq_arr', ('eq', 'eq'), 'arr_scaler_adder', True),
     ('b', 1, 'sc_both', ('both',), 'ref_ref0', False),
     ('c', 3, 'sc_up', ('up',) * 3, 'scaler', True),
     ('d', 2, 'sc_eq', ('eq', 'eq'), 'units_scaler', False)],
    [('a', 2, 'sc_lo', ('lo', 'lo'), 'neg_scaler', False),
     ('b', 3, 'sc_both', ('both',) * 3, 'scaler_adder', True),
     ('c', 1, 'sc_eq', ('eq',), 'none', False),
     ('d', 2, 'sc_up', ('up', 'up'), 'ref_lt_ref0', True)],
    [('a', 1, 'sc_eq', ('eq',), 'scaler', False),
     ('b', 2, 'sc_both', ('both', 'both'), 'units', False),
     ('c', 2, 'sc_lo', ('lo', 'lo'), 'adder', False),
     ('d', 3, 'sc_up', ('up',) * 3, 'offset_units_ref_ref0', False)],
]


def check_multi(case):
    import openmdao.api as om
    pal = _PAL[case['pal']]
    spec = _MULTI[case['model']]
    oc = collections.Counter()
    vio = []
    evals = nt = 0

    def V(obs, msg, cls):
        sig = 'C22:%s:%s' % (obs, cls)
        if any(v['sig'] == sig for v in vio):
            return
        vio.append({'sig': sig, 'case': dict(case), 'msg': '%s [multi model %d]: %s' % (
            obs, case['model'], msg)})

    info = {}
    vars_ = []
    for suf, n, label, kinds, scaling, linear in spec:
        skw, scaler, ukey = scaling_kwargs(scaling, n, pal)
        u = _UNITS[ukey]
        bkw, lo, up, eq = bound_kwargs(label, kinds, n, pal)
        info[suf] = (n, kinds, skw, scaler, u, bkw, lo, up, eq, linear, scaling)
        vars_.append((suf, n, u[0]))
    p = om.Problem(reports=None)
    p.model.add_subsystem('c', _aff_class()(vars=vars_, pal=case['pal']), promotes=['*'])
    dvsc = {'a': dict(scaler=0.5, adder=1.0), 'b': dict(ref=4.0, ref0=-2.0), 'c': {},
            'd': dict(scaler=-2.0)}
    for suf, n, label, kinds, scaling, linear in spec:
        p.model.add_design_var('x' + suf, lower=-1e3, upper=1e3, **dvsc[suf])
        i = info[suf]
        p.model.add_constraint('g' + suf, units=i[4][1], linear=linear, **i[5], **i[2])
    p.model.add_objective('xa', index=0)
    with contextlib.redirect_stdout(io.StringIO()):
        p.setup()
        p.final_setup()
    d = p.driver
    # value vectors: every constraint cycles through its own lattice (diagonal product, all shifts)
    lats = {suf: list(itertools.product(*[lattice(info[suf][1][i], i, pal, True)
                                          for i in range(info[suf][0])])) for suf in info}
    nmax = max(len(v) for v in lats.values())
    order = [s[0] for s in spec]
    for shift in range(nmax):
        gvals = {suf: np.array(lats[suf][(shift * (j + 1)) % len(lats[suf])])
                 for j, suf in enumerate(order)}
        for suf in order:
            i = info[suf]
            p.set_val('x' + suf, _x_for(gvals[suf], i[0], pal, i[4]))
        p.run_model()
        want_all = {ds: {suf: ref_viol(gvals[suf], info[suf][6], info[suf][7], info[suf][8],
                                       info[suf][3], ds) for suf in order} for ds in (False, True)}
        for ctype, lintype, ds in itertools.product(('all', 'eq', 'ineq'),
                                                    ('all', 'linear', 'nonlinear'), (False, True)):
            evals += 1
            sel = [suf for suf in order
                   if (ctype == 'all' or (ctype == 'eq') == (info[suf][8] is not None)) and
                   (lintype == 'all' or (lintype == 'linear') == bool(info[suf][9]))]
            try:
                got = d.get_constraint_values(ctype=ctype, lintype=lintype, driver_scaling=ds,
                                              viol=True)
            except Exception as exc:
                V('filter_raises', '%s: %s' % (type(exc).__name__, str(exc)[:200]),
                  '%s/%s:%s' % (ctype, lintype, type(exc).__name__))
                continue
            if list(got) != ['g' + s for s in sel]:
                V('filter_keys', 'ctype=%s lintype=%s: keys %s expected %s' % (
                    ctype, lintype, list(got), ['g' + s for s in sel]), '%s/%s' % (ctype, lintype))
                continue
            bad = [s for s in sel if np.asarray(got['g' + s]).shape != want_all[ds][s].shape or
                   not np.all(np.abs(got['g' + s] - want_all[ds][s]) <= _tol(
                       gvals[s], info[s][6], info[s][7], info[s][8], info[s][3], ds))]
            if bad:
                s = bad[0]
                obs = 'filter_value'
                if ds and np.asarray(got['g' + s]).shape == want_all[False][s].shape and np.all(
                        np.abs(got['g' + s] - want_all[False][s]) <= _tol(
                            gvals[s], info[s][6], info[s][7], info[s][8], info[s][3], False)):
                    obs = 'filter_value_not_scaled'
                V(obs, 'ctype=%s lintype=%s ds=%s g%s: got %s expected %s' % (
                    ctype, lintype, ds, s, np.asarray(got['g' + s]).tolist(),
                    want_all[ds][s].tolist()), _sig_scale(info[s][10]).split('+')[0] + (
                        '/ds=%s' % ds if obs == 'filter_value' else ''))
                continue
            oc['filter_agree'] += 1
            nt += int(0 < len(sel) < len(order))
        # _compute_con_viol: design vector given in driver-scaled space, linear constraints first
        for ds in (False, True):
            evals += 1
            xs = []
            for suf in order:
                i = info[suf]
                xm = _x_for(gvals[suf], i[0], pal, i[4])
                sc = dvsc[suf]
                if 'ref' in sc:
                    a_, s_ = -sc['ref0'], 1.0 / (sc['ref'] - sc['ref0'])
                else:
                    a_, s_ = sc.get('adder', 0.0), sc.get('scaler', 1.0)
                xs.append((xm + a_) * s_)
            xs = np.concatenate(xs)
            lin = [s for s in order if info[s][9]]
            nl = [s for s in order if not info[s][9]]
            want = np.concatenate([want_all[ds][s] for s in lin + nl])
            # move the model away first so that the call has to set the design variables itself
            for suf in order:
                p.set_val('x' + suf, np.zeros(info[suf][0]))
            d._exc_info = None
            try:
                with contextlib.redirect_stdout(io.StringIO()):
                    got = np.asarray(d._compute_con_viol(np.array(xs), ['x' + s for s in order],
                                                         driver_scaling=ds), dtype=float)
            except Exception as exc:
                V('con_viol_raises', '%s: %s' % (type(exc).__name__, str(exc)[:200]),
                  type(exc).__name__)
                continue
            if d._exc_info is not None:
                exc = d._exc_info[1]
                d._exc_info = None
                V('con_viol_swallowed_exception', '%s: %s (returned %s)' % (
                    type(exc).__name__, str(exc)[:200], got.tolist()), type(exc).__name__)
                continue
            tol = np.concatenate([_tol(gvals[s], info[s][6], info[s][7], info[s][8], info[s][3],
                                       ds) * 1e3 for s in lin + nl])
            if got.shape != want.shape or not np.all(np.abs(got - want) <= tol):
                obs = 'con_viol_vector'
                w0 = np.concatenate([want_all[False][s] for s in lin + nl])
                if ds and got.shape == w0.shape and np.all(np.abs(got - w0) <= tol + 1e-9):
                    obs = 'con_viol_vector_not_scaled'
                V(obs, 'ds=%s got %s expected %s (order %s)' % (ds, got.tolist(), want.tolist(),
                                                              lin + nl), 'ds=%s' % ds)
                continue
            oc['con_viol_agree'] += 1
            nt += int(bool(lin) and bool(nl) and np.count_nonzero(want) >= 1)
    return {'evals': evals, 'nontrivial': nt, 'outcome': dict(oc), 'violations': vio}


# ------------------------------------------------------------------ find_feasible

_FF_A = [np.array([[1.0, 0.5], [-0.25, 1.0]]),
         np.array([[1.0, -1.0], [0.5, 2.0], [2.0, 0.25]])]
_FF_BOX = (np.array([-2.0, -1.5]), np.array([2.5, 3.0]))
_FF_WIT = [np.array([1.0, 2.0]), np.array([-1.5, -0.5]), np.array([2.0, -1.0])]
_FF_START = [np.array([-1.75, -1.25]), np.array([2.25, 2.75]), np.array([0.25, 0.5])]
FF_SCALINGS = ['none', 'scaler', 'scaler_adder', 'ref_ref0', 'arr_scaler', 'arr_scaler_adder',
               'units_scaler', 'offset_units_ref_ref0']
FF_BOUNDS = ['sc_eq', 'eq_arr', 'arr_box', 'sc_both', 'arr_mixed']


def ff_problem(case):
    """returns (A, bounds kwargs in model units, lo, up, eq, feasible)"""
    A = _FF_A[case['A']]
    m = A.shape[0]
    w = _FF_WIT[case['wit']]
    gw = A @ w
    xl, xu = _FF_BOX
    gmin = np.minimum(A * xl, A * xu).sum(axis=1)
    gmax = np.maximum(A * xl, A * xu).sum(axis=1)
    kind = case['bounds']
    feas = case['feasible']
    eq = None
    lo = np.full(m, -INF_BOUND)
    up = np.full(m, INF_BOUND)
    if kind in ('sc_eq', 'eq_arr'):
        if m > 2:
            return None     # three equalities on two unknowns: generically infeasible; excluded
        eq = gw.copy()
        if kind == 'sc_eq':
            # a scalar equality value: both rows must equal the same number
            x = np.linalg.solve(A, np.full(m, 0.75))
            eq = np.full(m, 0.75)
            if np.any(x < xl + 0.25) or np.any(x > xu - 0.25):
                return None
        if not feas:
            eq = eq.copy()
            eq[0] = gmax[0] + 1.0
            if kind == 'sc_eq':
                eq = np.full(m, max(gmax) + 1.0)
    elif kind == 'arr_box':
        lo = gw - 0.5
        up = gw + 0.5
        if not feas:
            lo[-1] = gmax[-1] + 1.0
            up[-1] = gmax[-1] + 2.0
    elif kind == 'sc_both':
        lo = np.full(m, gw.min() - 0.5)
        up = np.full(m, gw.max() + 0.5)
        if not feas:
            lo = np.full(m, max(gmax) + 1.0)
            up = np.full(m, max(gmax) + 2.0)
    elif kind == 'arr_mixed':
        lo[0] = gw[0] - 0.5
        up[1] = gw[1] + 0.5
        if m > 2:
            lo[2] = gw[2] - 0.5
            up[2] = gw[2] + 0.5
        if not feas:
            up[1] = gmin[1] - 1.0
    return A, lo, up, eq


def check_ff(case):
    import openmdao.api as om
    pal = _PAL[case['pal']]
    prob = ff_problem(case)
    if prob is None:
        return {'evals': 0, 'nontrivial': 0, 'outcome': {'ff_inadmissible': 1}, 'violations': []}
    A, lo, up, eq = prob
    m = A.shape[0]
    skw, scaler, ukey = scaling_kwargs(case['scaling'], m, pal)
    u = _UNITS[ukey]
    xl, xu = _FF_BOX
    x0 = _FF_START[case['start']]
    vio = []
    bcls = 'eq_scalar' if case['bounds'] == 'sc_eq' else ('eq_array' if case['bounds'] == 'eq_arr'
                                                          else ('scalar' if case['bounds'] ==
                                                                'sc_both' else 'array'))

    def V(obs, msg, cls):
        vio.append({'sig': 'C22:%s:%s' % (obs, cls), 'case': dict(case),
                    'msg': '%s [A%d bounds=%s scaling=%s ds=%s feasible=%s start=%s]: %s' % (
                        obs, case['A'], case['bounds'], case['scaling'], case['ds'],
                        case['feasible'], x0.tolist(), msg)})

    def dec(b):       # model-unit bound -> declared units
        return np.where(np.abs(b) >= INF_BOUND, b, b * u[2] + u[3])
    bkw = {}
    if eq is not None:
        e = dec(eq)
        bkw['equals'] = float(e[0]) if case['bounds'] == 'sc_eq' else e
    else:
        if case['bounds'] == 'sc_both':
            bkw['lower'] = float(dec(lo)[0])
            bkw['upper'] = float(dec(up)[0])
        else:
            if np.any(lo > -INF_BOUND):
                bkw['lower'] = dec(lo)
            if np.any(up < INF_BOUND):
                bkw['upper'] = dec(up)
    p = om.Problem(reports=None)
    p.model.add_subsystem('c', _lin_class()(A=A, units=u[0]), promotes=['*'])
    p.model.add_design_var('x', lower=xl, upper=xu, ref=np.array([2.0, 4.0]),
                           ref0=np.array([-1.0, 0.5]))
    p.model.add_constraint('g', units=u[1], linear=bool(case['linear']), **bkw, **skw)
    p.model.add_objective('x', index=0)
    out = io.StringIO()
    try:
        with contextlib.redirect_stdout(out):
            p.setup()
            p.set_val('x', x0)
            failed = p.find_feasible(driver_scaling=bool(case['ds']), iprint=0)
    except Exception as exc:
        V('find_feasible_raises', '%s: %s' % (type(exc).__name__, str(exc)[:300]),
          '%s:%s' % (bcls, type(exc).__name__))
        return {'evals': 1, 'nontrivial': 0, 'outcome': {'violation': 1}, 'violations': vio}
    x = np.array(p.get_val('x')).ravel()
    g = A @ x
    viol = ref_viol(g, lo, up, eq, np.ones(m), False)
    start_viol = np.max(np.abs(ref_viol(A @ x0, lo, up, eq, np.ones(m), False)))
    vmax = float(np.max(np.abs(viol)))
    inbox = bool(np.all(x >= xl - 1e-9) and np.all(x <= xu + 1e-9))
    cls = '%s/%s/ds=%s' % (bcls, _sig_scale(case['scaling']).split('+')[0], bool(case['ds']))
    oc = {}
    swallowed = getattr(p.driver, '_exc_info', None)
    if swallowed is not None and not failed:
        # diagnosed: a callback raised, the exception was swallowed and success is reported
        exc = swallowed[1]
        V('find_feasible_success_with_swallowed_exception', '%s: %s; final x=%s violation %s' % (
            type(exc).__name__, str(exc)[:200], x.tolist(), viol.tolist()),
          '%s:%s' % (bcls, type(exc).__name__))
    elif case['feasible']:
        if failed:
            # the property does not promise that the least-squares search converges
            oc['ff_failure_reported_on_feasible_problem'] = 1
        elif vmax > 1e-5 or not inbox:
            V('find_feasible_success_but_violated', 'final x=%s g=%s violation %s in box %s' % (
                x.tolist(), g.tolist(), viol.tolist(), inbox), cls)
        else:
            oc['ff_feasible_found'] = 1
    else:
        if not failed:
            V('find_feasible_success_on_infeasible', 'final x=%s g=%s violation %s' % (
                x.tolist(), g.tolist(), viol.tolist()), cls)
        else:
            oc['ff_infeasible_reported'] = 1
    if vio:
        oc = {'violation': 1}
    return {'evals': 1, 'nontrivial': int(not vio and start_viol > 0.1 and (
        'ff_feasible_found' in oc or 'ff_infeasible_reported' in oc)), 'outcome': oc,
        'violations': vio}


# ------------------------------------------------------------------ enumeration

def _bcls(label):
    if label == 'sc_eq':
        return 'eq_scalar'
    if label == 'eq_arr':
        return 'eq_array'
    return 'scalar' if label.startswith('sc_') else 'array'


# ------------------------------------------------------------------ find_feasible, least-squares point

def check_ffmix(case):
    """An infeasible pair of scalar constraints on x (one flagged linear, one not): find_feasible
    minimises the sum of squared violations in the requested units, so the point it converges to is
    known in closed form:  g_a = ka*x >= 2 (scaler sa), g_b = kb*x <= 0 (scaler sb)
        min (wa (ka x - 2))^2 + (wb kb x)^2   ->  x = 2 ka wa^2 / (ka^2 wa^2 + kb^2 wb^2)
    with w = scaler under driver_scaling and 1 otherwise."""
    import openmdao.api as om
    ka, kb = case['k']
    ra, rb = case['refs']
    vio = []
    cls = '%s/lin=%s/ds=%s' % (case['driver'], case['lin'], case['ds'])
    p = om.Problem(reports=None)
    if case['driver'] == 'slsqp':
        p.driver = om.ScipyOptimizeDriver(optimizer='SLSQP', disp=False)
    p.model.add_subsystem('comp', om.ExecComp(['ga = %r * x' % ka, 'gb = %r * x' % kb,
                                               'f = x * x']), promotes=['*'])
    p.model.add_design_var('x', lower=-50., upper=50.)
    p.model.add_objective('f')
    decl = [('ga', dict(lower=2.0, ref=ra)), ('gb', dict(upper=0.0, ref=rb))]
    if case['order'] == 'ba':
        decl = decl[::-1]
    for name, kw in decl:
        p.model.add_constraint(name, linear=(name[1] in case['lin']), **kw)
    try:
        with contextlib.redirect_stdout(io.StringIO()):
            p.setup()
            p.set_val('x', case['x0'])
            p.final_setup()
            p.find_feasible(driver_scaling=bool(case['ds']), iprint=0, ftol=1e-14, xtol=1e-14,
                            gtol=1e-14)
    except Exception as exc:
        vio.append({'sig': 'C22:ffmix_raises:%s' % cls, 'case': dict(case),
                    'msg': '%s: %s' % (type(exc).__name__, str(exc)[:300])})
        return {'evals': 1, 'nontrivial': 0, 'outcome': {'violation': 1}, 'violations': vio}
    x = float(p.get_val('x')[0])
    wa, wb = (1.0 / ra, 1.0 / rb) if case['ds'] else (1.0, 1.0)
    want = 2.0 * ka * wa ** 2 / (ka ** 2 * wa ** 2 + kb ** 2 * wb ** 2)
    if abs(x - want) > 1e-5 * max(1.0, abs(want)):
        vio.append({'sig': 'C22:ffmix_point:%s' % cls, 'case': dict(case),
                    'msg': 'find_feasible [%s k=%s refs=%s order=%s x0=%s] converged to x=%.9g; the '
                           'minimiser of the squared violations in the requested units is %.9g' % (
                               cls, case['k'], case['refs'], case['order'], case['x0'], x, want)})
    return {'evals': 1, 'nontrivial': int(not vio), 'outcome': {'violation' if vio else 'ffmix_ok': 1},
            'violations': vio}


def cases(tier, seed):
    pal = seed % 4
    out = []
    for driver in ('base', 'slsqp'):
        for lin in ('', 'a', 'b', 'ab'):
            for ds in (True, False):
                for order in ('ab', 'ba'):
                    for refs in ((0.1, 1.0), (0.25, 2.0), (1.0, 1.0)):
                        for k in ((1.0, 1.0), (2.0, 0.5)):
                            out.append({'kind': 'ffmix', 'driver': driver, 'lin': lin, 'ds': ds,
                                        'order': order, 'refs': list(refs), 'k': list(k),
                                        'x0': 0.5 if pal % 2 == 0 else -0.75})
    pals = [pal] if tier == 'quick' else [pal, (pal + 1) % 4]
    for pl in pals:
        for n in (1, 2, 3):
            for label, bcls, kinds in patterns(n):
                for scaling in SCALINGS:
                    for linear in (False, True):
                        out.append({'kind': 'single', 'n': n, 'pattern': label, 'kinds': list(kinds),
                                    'pal': pl, 'scaling': scaling, 'linear': linear,
                                    'bcls': _bcls(label),
                                    'small': bool(n == 3 and tier == 'quick')})
        for mi in range(len(_MULTI)):
            out.append({'kind': 'multi', 'model': mi, 'pal': pl})
        for Ai, wit, start, bounds, scaling, ds, feas, linear in itertools.product(
                range(len(_FF_A)), range(len(_FF_WIT)), range(len(_FF_START)), FF_BOUNDS,
                FF_SCALINGS, (True, False), (True, False), (False, True)):
            if tier == 'quick' and (wit != start or (linear and scaling not in ('none', 'scaler'))):
                continue
            out.append({'kind': 'ff', 'A': Ai, 'wit': wit, 'start': start, 'bounds': bounds,
                        'scaling': scaling, 'ds': ds, 'feasible': feas, 'linear': linear,
                        'pal': pl})
    return out


def check_case(case):
    import warnings
    with warnings.catch_warnings():
        warnings.simplefilter('ignore')
        kind = case['kind']
        if kind == 'single':
            return check_single(case)
        if kind == 'multi':
            return check_multi(case)
        if kind == 'ff':
            return check_ff(case)
        if kind == 'ffmix':
            return check_ffmix(case)
    raise ValueError(kind)
