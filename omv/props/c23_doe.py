"""C23 - DOE generators stay within bounds and cover their designs; DOEDriver evaluates the model at
exactly the generated values (DESIGN.md section 4, C23).

Complete enumeration of (design-variable set, generator, generator arguments, API) within the bound;
oracles are NumPy formulas (linspace level tables, Cartesian product, strata counting) and the
third-party pyDOE index designs called directly.  The DOEDriver part runs a probe model and a
recorder and compares what the model saw with what the generator yielded.
"""
import collections
import contextlib
import io
import itertools
import os
import warnings

import numpy as np

ID = 'C23'
LEVEL = 'exploration'
TECHNIQUE = ('bounded exhaustive enumeration of design-variable sets x DOE generators x generator '
             'arguments (both generator APIs) against NumPy/pyDOE reference designs; probe-component '
             'and recorder comparison for DOEDriver; generator reuse histories')
RULE = ('generator cases: every (variable set, generator class, argument tuple, api in '
        '{doe_generators, drivers.sampling}) in the bound, plus reuse of one generator object on a '
        'second, differently sized variable set; driver cases: (variable set, generator, scaling, '
        'recorder) run through DOEDriver with a probe component.  Non-trivial = the design has >= 2 '
        'rows over >= 2 scalar factors and the generator was accepted (pyDOE accepts the arguments); '
        'each tuple is enumerated once')
LEVEL_TEXT = ('All generator classes, all argument values within the bound (levels 2-4 and the dict '
              'forms, samples 1-6, every LHS criterion spelling, seeds 0/1/7) and all variable sets '
              '(1-3 variables of size 1-2, scalar/array/negative bounds, units, driver scaling) are '
              'enumerated completely; the defects of this code are row/column bookkeeping errors of '
              'the level table and the sample-to-bounds map, which exist at these sizes.')
LEVEL_NOTE = ('Trusted: NumPy (linspace, product), pyDOE\'s index designs (called directly with the '
              'same arguments), and for the driver part the probe component.  Admissibility of '
              'generator arguments is decided by calling pyDOE directly.')
ASSUMPTIONS = [
    'bounds are finite with lower < upper and are given as floats or ndarrays (list-valued bounds in '
    'a sampling var_dict are not exercised: the statement is silent)',
    'a configuration is admissible iff pyDOE itself accepts the arguments (e.g. it raises for '
    'samples=1 with maximin/correlation criteria) and, for Box-Behnken, the total size is >= 3 '
    '(documented RuntimeError)',
    'order of the rows of factorial-type designs is not part of the property: designs are compared '
    'as multisets of rows; DOEDriver must evaluate the rows in the order its generator yields them',
    'GeneralizedSubset is run with n=1 only: for n > 1 pyDOE returns a list of complementary '
    'designs and the statement does not say what the generator should yield (OpenMDAO raises '
    'AttributeError there - reported as an observation, not checked)',
    'reproducibility is only required of seeded generators (seed is not None); it is also required '
    'when the same generator object is called again on the same variables',
    'DOEDriver sets design variables in the units of add_design_var and ignores scaler/ref (values '
    'are sampled between the unscaled lower/upper): the model must see unit_map(generated value)',
    'DOEDriver evaluates the model exactly once per generated row and nowhere else (probe sequence '
    '== generated list); AnalysisDriver runs of the sampling generators are outside the statement',
]
MIN_NONTRIVIAL = {'quick': 1200, 'thorough': 4500}
CHUNK = 8

TOL = 1e-12

# ------------------------------------------------------------------ palettes

# variable specs: name, size, lower, upper (in design-variable units), model units, dv units,
# scaling kwargs.  Four palettes of numbers; structure identical.
_PAL = [
    dict(a=(-1.5, 0.25), b=([-4.0, -0.5], [-1.0, 2.5]), c=(0.5, 3.0), d=(200.0, 600.0),
         e=([1.0, -3.0], [2.5, -0.75]), f=(50.0, 86.0)),
    dict(a=(-2.25, -0.5), b=([0.25, -6.0], [1.75, -2.0]), c=(-1.0, 1.5), d=(125.0, 350.0),
         e=([-0.5, 2.0], [0.75, 5.0]), f=(41.0, 95.0)),
    dict(a=(0.75, 4.0), b=([-1.0, 3.0], [0.5, 3.5]), c=(-3.5, -0.25), d=(-300.0, 150.0),
         e=([2.0, -8.0], [6.0, -1.0]), f=(14.0, 68.0)),
    dict(a=(-0.125, 0.875), b=([-2.5, 1.5], [-2.0, 4.5]), c=(1.25, 2.0), d=(75.0, 1025.0),
         e=([-7.0, 0.5], [-3.0, 1.0]), f=(23.0, 104.0)),
]


def var_specs(pal):
    P = _PAL[pal % len(_PAL)]
    return {
        # scalar variable, scalar bounds straddling zero / negative
        'a': dict(size=1, lower=P['a'][0], upper=P['a'][1], munits=None, dvunits=None, scal={}),
        # array variable, array bounds (element 0 and 1 differ, one range negative)
        'b': dict(size=2, lower=np.array(P['b'][0]), upper=np.array(P['b'][1]), munits=None,
                  dvunits=None, scal={}),
        # array variable, scalar bounds shared by both elements
        'c': dict(size=2, lower=P['c'][0], upper=P['c'][1], munits=None, dvunits=None, scal={}),
        # scalar variable with a unit map (model in m, design variable in cm) and driver scaling
        'd': dict(size=1, lower=P['d'][0], upper=P['d'][1], munits='m', dvunits='cm',
                  scal=dict(ref=50.0, ref0=-10.0)),
        # array variable with array scaler/adder
        'e': dict(size=2, lower=np.array(P['e'][0]), upper=np.array(P['e'][1]), munits=None,
                  dvunits=None, scal=dict(scaler=np.array([2.0, 0.25]),
                                          adder=np.array([1.0, -3.0]))),
        # scalar variable with an offset unit map (model degC, design variable degF)
        'f': dict(size=1, lower=P['f'][0], upper=P['f'][1], munits='degC', dvunits='degF',
                  scal={}),
    }


VARSETS = ['a', 'b', 'c', 'ab', 'ba', 'ac', 'bc', 'abc', 'd', 'e', 'db', 'fe', 'dea']
VARSETS_Q = ['a', 'b', 'ab', 'ba', 'bc', 'abc', 'db', 'fe']
# second problem for reuse histories (different total size than the first)
REUSE_PAIRS = [('a', 'ab'), ('abc', 'b'), ('b', 'a'), ('db', 'fe'), ('bc', 'a'), ('ab', 'abc')]

LHS_CRIT = [None, 'center', 'c', 'maximin', 'm', 'centermaximin', 'cm', 'correlation', 'corr']


def to_model_units(spec, v):
    v = np.asarray(v, dtype=float)
    if spec['dvunits'] == 'cm':
        return v / 100.0
    if spec['dvunits'] == 'degF':
        return (v - 32.0) / 1.8
    return v


def eff_size(spec, api):
    """number of scalar factors of a variable: its size for DOEDriver generators; the size of its
    bounds for the drivers.sampling generators (documented in sampling_util._get_size)"""
    if api == 'sampling':
        return int(np.size(spec['lower']))
    return spec['size']


def factors(vs, specs, api='doe'):
    """flat list of (lower, upper) per scalar factor in variable order"""
    out = []
    for nm in vs:
        s = specs[nm]
        sz = eff_size(s, api)
        lo = np.broadcast_to(np.asarray(s['lower'], dtype=float), (sz,))
        up = np.broadcast_to(np.asarray(s['upper'], dtype=float), (sz,))
        out.extend(zip(lo.tolist(), up.tolist()))
    return out


# ------------------------------------------------------------------ generator argument space

def gen_specs(tier):
    """list of (class name, kwargs) - complete within the bound"""
    out = []
    lv = [2, 3, 4] if tier == 'thorough' else [2, 3]
    for L in lv:
        out.append(('FullFactorial', dict(levels=L)))
    out.append(('FullFactorial', dict(levels='dict_all')))       # one entry per variable
    out.append(('FullFactorial', dict(levels='dict_default')))   # first variable + 'default'
    out.append(('FullFactorial', dict(levels='dict_missing')))   # first variable only -> others 2
    for L in ([2, 3, 'dict_all'] if tier == 'thorough' else [3, 'dict_all']):
        for red in (2, 3):
            out.append(('GeneralizedSubset', dict(levels=L, reduction=red, n=1)))
    out.append(('PlackettBurman', {}))
    for center in (None, 1, 3):
        out.append(('BoxBehnken', dict(center=center)))
    samples = [None, 1, 2, 3, 4, 5, 6] if tier == 'thorough' else [None, 1, 2, 3, 5]
    iters = [5, 2] if tier == 'thorough' else [5]
    for s in samples:
        for crit in LHS_CRIT:
            for it in iters:
                for seed in (0, 1, 7):
                    out.append(('LatinHypercube', dict(samples=s, criterion=crit, iterations=it,
                                                       seed=seed)))
    for ns in ([1, 2, 3, 4, 5, 6] if tier == 'thorough' else [1, 2, 4]):
        for seed in (0, 1, 7):
            out.append(('Uniform', dict(num_samples=ns, seed=seed)))
    return out


def _levels_arg(levels, vs):
    """concrete `levels` argument and the per-variable level count it means (docstring rules)"""
    if isinstance(levels, int):
        return levels, {nm: levels for nm in vs}
    counts = [3, 2, 4]
    if levels == 'dict_all':
        d = {nm: counts[i % 3] for i, nm in enumerate(vs)}
        return dict(d), d
    if levels == 'dict_default':
        d = {vs[0]: 4, 'default': 3}
        return dict(d), {nm: d.get(nm, 3) for nm in vs}
    if levels == 'dict_missing':
        d = {vs[0]: 3}
        return dict(d), {nm: d.get(nm, 2) for nm in vs}      # documented fallback: 2 levels
    raise ValueError(levels)


# ------------------------------------------------------------------ reference designs

def reference(gname, kw, vs, specs, api='doe'):
    """Returns dict(kind=..., ...) describing what the property demands, or
    dict(kind='inadmissible', why=...)."""
    fac = factors(vs, specs, api)
    nf = len(fac)
    sizes = [eff_size(specs[nm], api) for nm in vs]
    with warnings.catch_warnings():
        warnings.simplefilter('ignore')
        import pydoe
        if gname in ('FullFactorial', 'GeneralizedSubset', 'PlackettBurman', 'BoxBehnken'):
            if gname == 'PlackettBurman':
                per_var = {nm: 2 for nm in vs}
            elif gname == 'BoxBehnken':
                per_var = {nm: 3 for nm in vs}
            else:
                _, per_var = _levels_arg(kw['levels'], vs)
            flv = []
            for nm, sz in zip(vs, sizes):
                flv.extend([per_var[nm]] * sz)
            tables = [np.linspace(lo, up, num=L) for (lo, up), L in zip(fac, flv)]
            try:
                if gname == 'FullFactorial':
                    rows = [list(r) for r in itertools.product(*tables)]
                    return dict(kind='rows', rows=np.array(rows, dtype=float).reshape(-1, nf))
                if gname == 'GeneralizedSubset':
                    idx = pydoe.gsd(levels=list(flv), reduction=kw['reduction'], n=kw['n'])
                    if isinstance(idx, list):       # n > 1: list of complementary designs
                        idx = np.vstack(idx)
                elif gname == 'PlackettBurman':
                    idx = (np.asarray(pydoe.pbdesign(nf)) > 0).astype(int)
                else:
                    if nf < 3:
                        return dict(kind='inadmissible', why='BoxBehnken needs total size >= 3')
                    idx = np.asarray(pydoe.bbdesign(nf, center=kw['center'])).astype(int) + 1
            except Exception as exc:
                return dict(kind='inadmissible', why='pyDOE raises %s' % type(exc).__name__)
            idx = np.asarray(idx).astype(int)
            rows = np.array([[tables[j][i] for j, i in enumerate(r)] for r in idx],
                            dtype=float).reshape(-1, nf)
            return dict(kind='rows', rows=rows)
        if gname == 'LatinHypercube':
            S = kw['samples'] if kw['samples'] is not None else nf
            try:
                np.random.seed(12345)
                pydoe.lhs(nf, samples=S, criterion=kw['criterion'], iterations=kw['iterations'],
                          random_state=kw['seed'])
            except Exception as exc:
                return dict(kind='inadmissible', why='pyDOE raises %s' % type(exc).__name__)
            return dict(kind='lhs', nrows=S,
                        centered=kw['criterion'] in ('center', 'c', 'centermaximin', 'cm'))
        if gname == 'Uniform':
            return dict(kind='uniform', nrows=kw['num_samples'])
    raise ValueError(gname)


# ------------------------------------------------------------------ implementation side

_PROBS = {}


def _make_problem(vs, pal, scaling, om):
    specs = var_specs(pal)
    seen = []

    class Probe(om.ExplicitComponent):
        def setup(self):
            for nm in vs:
                s = specs[nm]
                self.add_input(nm, val=np.zeros(s['size']), units=s['munits'])
            self.add_output('obj', val=0.0)

        def compute(self, inputs, outputs):
            seen.append([np.array(inputs[nm], dtype=float).ravel().copy() for nm in vs])
            outputs['obj'] = sum(float(np.sum(inputs[nm])) for nm in vs)

    p = om.Problem(reports=None)
    p.model.add_subsystem('probe', Probe(), promotes=['*'])
    for nm in vs:
        s = specs[nm]
        kw = dict(lower=s['lower'], upper=s['upper'])
        if s['dvunits']:
            kw['units'] = s['dvunits']
        if scaling:
            kw.update(s['scal'])
        p.model.add_design_var(nm, **kw)
    p.model.add_objective('obj')
    return p, seen, specs


def get_designvars(vs, pal, scaling):
    """real driver._designvars of a set-up Problem (cached per worker)"""
    key = (vs, pal, scaling)
    if key not in _PROBS:
        import openmdao.api as om
        p, seen, specs = _make_problem(vs, pal, scaling, om)
        p.driver = om.DOEDriver()
        with warnings.catch_warnings():
            warnings.simplefilter('ignore')
            p.setup()
            p.final_setup()
        _PROBS[key] = (p, p.driver._designvars, specs)
    return _PROBS[key]


def make_generator(api, gname, kw, vs, specs):
    kw = dict(kw)
    if 'levels' in kw:
        kw['levels'], _ = _levels_arg(kw['levels'], vs)
    if api == 'doe':
        import openmdao.drivers.doe_generators as G
        return getattr(G, gname + 'Generator')(**kw)
    import openmdao.drivers.sampling.pyDOE_generators as S
    import openmdao.drivers.sampling.uniform_generator as U
    var_dict = {}
    for nm in vs:
        s = specs[nm]
        var_dict[nm] = {'lower': s['lower'], 'upper': s['upper']}
        if s['dvunits']:
            var_dict[nm]['units'] = s['dvunits']
    mod = U if gname == 'Uniform' else S
    return getattr(mod, gname + 'Generator')(var_dict, **kw)


def run_generator(api, gen, vs, dvmeta, model):
    """rows (n_rows x n_factors) the generator yields, in order, as a float array; also the raw
    list for name/shape checks"""
    rows = []
    if api == 'doe':
        for case in gen(dvmeta, model):
            names = [nm for nm, _ in case]
            if names != list(vs):
                raise AssertionError('names %s' % names)
            rows.append(np.concatenate([np.atleast_1d(np.asarray(v, dtype=float)).ravel()
                                        for _, v in case]))
    else:
        for d in gen:
            if list(d.keys()) != list(vs):
                raise AssertionError('names %s' % list(d.keys()))
            rows.append(np.concatenate([np.atleast_1d(np.asarray(d[nm]['val'],
                                                                 dtype=float)).ravel()
                                        for nm in vs]))
    nf = sum(1 for _ in rows[0]) if rows else 0
    return np.array(rows, dtype=float).reshape(len(rows), nf if rows else 0)


def _sorted_rows(a):
    a = np.asarray(a, dtype=float)
    if a.size == 0:
        return a
    order = np.lexsort(a.T[::-1])
    return a[order]


def check_rows(ref, rows, fac, V):
    """property checks on a generated design.  V(what, msg) records a violation."""
    nf = len(fac)
    lo = np.array([f[0] for f in fac])
    up = np.array([f[1] for f in fac])
    if rows.ndim != 2 or (rows.shape[0] and rows.shape[1] != nf):
        V('row_shape', 'rows have shape %s, expected (*, %d)' % (rows.shape, nf))
        return
    if rows.shape[0] and not np.all(np.isfinite(rows)):
        V('non_finite', 'design contains nan/inf: %s' % rows[~np.isfinite(rows).all(axis=1)][:2])
        return
    span = up - lo
    if rows.shape[0]:
        below = rows < lo - TOL * np.maximum(1.0, np.abs(lo))
        above = rows > up + TOL * np.maximum(1.0, np.abs(up))
        if below.any() or above.any():
            i, j = np.argwhere(below | above)[0]
            V('out_of_bounds', 'row %d factor %d value %r outside [%r, %r]' % (
                i, j, rows[i, j], lo[j], up[j]))
            return
    kind = ref['kind']
    if kind == 'rows':
        exp = ref['rows']
        if rows.shape != exp.shape:
            V('design_size', 'design has %d rows, reference %d' % (rows.shape[0], exp.shape[0]))
            return
        a, b = _sorted_rows(rows), _sorted_rows(exp)
        if not np.allclose(a, b, rtol=0, atol=TOL * max(1.0, float(np.max(np.abs(b))))):
            bad = np.argwhere(~np.isclose(a, b, rtol=0, atol=1e-9))
            V('design_values', 'design differs from reference as a multiset of rows, e.g. sorted '
              'row %s: got %s expected %s' % (bad[0][0] if len(bad) else '?',
                                              a[bad[0][0]].tolist() if len(bad) else '',
                                              b[bad[0][0]].tolist() if len(bad) else ''))
    elif kind == 'lhs':
        S = ref['nrows']
        if rows.shape[0] != S:
            V('design_size', 'LHS yields %d rows, expected samples=%d' % (rows.shape[0], S))
            return
        u = (rows - lo) / span
        strata = np.minimum(np.floor(u * S).astype(int), S - 1)
        for j in range(nf):
            if sorted(strata[:, j].tolist()) != list(range(S)):
                V('lhs_strata', 'factor %d: strata hit %s, expected each of 0..%d once' % (
                    j, sorted(strata[:, j].tolist()), S - 1))
                return
        if ref['centered']:
            frac = u * S - np.floor(u * S)
            if np.max(np.abs(frac - 0.5)) > 1e-9:
                V('lhs_center', 'centered criterion but samples are not at stratum centres')
    elif kind == 'uniform':
        if rows.shape[0] != ref['nrows']:
            V('design_size', 'Uniform yields %d rows, expected %d' % (rows.shape[0], ref['nrows']))


def _is_seeded(gname, kw):
    return gname in ('LatinHypercube', 'Uniform') and kw.get('seed') is not None


def _deterministic(gname, kw):
    return gname not in ('LatinHypercube', 'Uniform') or kw.get('seed') is not None


def gen_class(api, gname, kw, vs, specs):
    """structural class of a generator case for signatures"""
    parts = [api, gname]
    if 'levels' in kw:
        parts.append('levels_%s' % (kw['levels'] if isinstance(kw['levels'], str) else 'int'))
    if gname == 'LatinHypercube':
        parts.append('crit_%s' % kw['criterion'])
        parts.append('samples_%s' % ('None' if kw['samples'] is None else
                                     ('1' if kw['samples'] == 1 else 'n')))
    nv = len(vs)
    arr = any(specs[nm]['size'] > 1 for nm in vs)
    arrb = any(isinstance(specs[nm]['lower'], np.ndarray) for nm in vs)
    parts.append('%dvars%s%s' % (nv, '_arrayvar' if arr else '', '_arraybounds' if arrb else ''))
    return '/'.join(parts)


def check_gen(case):
    api, gname, kw, vs, pal = case['api'], case['gen'], case['kw'], case['vs'], case['pal']
    scaling = case.get('scaling', False)
    _, dvmeta, specs = get_designvars(vs, pal, scaling)
    p = _PROBS[(vs, pal, scaling)][0]
    fac = factors(vs, specs, api)
    ref = reference(gname, kw, vs, specs, api)
    cls = gen_class(api, gname, kw, vs, specs)
    vio = []

    def V(what, msg):
        vio.append({'sig': 'C23:%s:%s' % (what, cls),
                    'msg': '%s api=%s gen=%s kw=%s vars=%s scaling=%s: %s' % (
                        what, api, gname, kw, vs, scaling, msg), 'case': dict(case)})

    def produce(gen=None):
        with warnings.catch_warnings():
            warnings.simplefilter('ignore')
            with contextlib.redirect_stdout(io.StringIO()):
                if gen is None:
                    gen = make_generator(api, gname, kw, vs, specs)
                return gen, run_generator(api, gen, vs, dvmeta, p.model)

    try:
        gen, rows = produce()
    except Exception as exc:
        if ref['kind'] == 'inadmissible':
            return 'inadmissible:%s' % gname, 0, vio
        import traceback
        loc = traceback.extract_tb(exc.__traceback__)[-1]
        V('raises_%s' % type(exc).__name__, 'admissible configuration rejected: %s: %s (%s:%d)' % (
            type(exc).__name__, str(exc)[:200], os.path.basename(loc.filename), loc.lineno))
        return 'violation', 0, vio
    if ref['kind'] == 'inadmissible':
        return 'inadmissible_but_accepted:%s' % gname, 0, vio
    check_rows(ref, rows, fac, V)

    # reproducibility: same object called again (doe api), fresh object with the same arguments
    if _deterministic(gname, kw) and not vio:
        try:
            if api == 'doe':
                _, rows2 = produce(gen)
                if rows2.shape != rows.shape or not np.array_equal(rows2, rows):
                    V('not_reproducible_same_object', 'second call of the same generator object '
                      'yields a different design (%s vs %s rows)' % (rows2.shape[0], rows.shape[0]))
            _, rows3 = produce()
            if rows3.shape != rows.shape or not np.array_equal(rows3, rows):
                V('not_reproducible_fresh_object', 'a fresh generator with the same arguments yields '
                  'a different design')
        except Exception as exc:
            V('raises_on_second_use_%s' % type(exc).__name__, str(exc)[:200])

    nontriv = int(rows.shape[0] >= 2 and rows.shape[1] >= 2 and not vio)
    return '%s:%s:%s' % (api, gname, ref['kind']), nontriv, vio


def check_reuse(case):
    """history: one doe_generators object is called on variable set A, then on B (different
    size).  The design for B must satisfy the property for B; a deterministic/seeded generator must
    give what a fresh generator gives for B."""
    gname, kw, pal = case['gen'], case['kw'], case['pal']
    vsA, vsB = case['vs'], case['vs2']
    pA, dvA, specsA = get_designvars(vsA, pal, False)
    pB, dvB, specsB = get_designvars(vsB, pal, False)
    cls = 'reuse/%s%s' % (gname, '/samples_None' if kw.get('samples', 0) is None else '')
    vio = []

    def V(what, msg):
        vio.append({'sig': 'C23:%s:%s' % (what, cls),
                    'msg': '%s gen=%s kw=%s first vars=%s then vars=%s: %s' % (
                        what, gname, kw, vsA, vsB, msg), 'case': dict(case)})

    # levels dicts are keyed by variable name: use B's names so that the dict is meaningful for
    # the second problem (the first call then exercises the documented fall-backs)
    refA = reference(gname, kw, vsA, specsA)
    kwB = dict(kw)
    refB = reference(gname, kwB, vsB, specsB)
    if refA['kind'] == 'inadmissible' or refB['kind'] == 'inadmissible':
        return 'reuse_inadmissible', 0, vio
    if isinstance(kw.get('levels'), str):
        return 'reuse_skipped_dict_levels', 0, vio
    try:
        with warnings.catch_warnings():
            warnings.simplefilter('ignore')
            gen = make_generator('doe', gname, kw, vsA, specsA)
            run_generator('doe', gen, vsA, dvA, pA.model)
            rowsB = run_generator('doe', gen, vsB, dvB, pB.model)
            fresh = make_generator('doe', gname, kw, vsB, specsB)
            rowsF = run_generator('doe', fresh, vsB, dvB, pB.model)
    except Exception as exc:
        V('raises_%s' % type(exc).__name__, str(exc)[:200])
        return 'violation', 0, vio
    if refB['kind'] == 'lhs' and kw['samples'] is None:
        # the statement fixes one sample per stratum, not the default number of samples: judge
        # the strata by the number of rows actually produced; the default (docstring: number of
        # factors) is covered by the comparison with a fresh generator below
        refB = dict(refB, nrows=rowsB.shape[0])
    check_rows(refB, rowsB, factors(vsB, specsB), V)
    if _deterministic(gname, kw) and not vio:
        if rowsB.shape != rowsF.shape or not np.array_equal(rowsB, rowsF):
            V('reuse_differs_from_fresh', 'design for the second problem differs from a fresh '
              'generator\'s (%d vs %d rows)' % (rowsB.shape[0], rowsF.shape[0]))
    return 'reuse:%s' % gname, int(rowsB.shape[0] >= 2 and not vio), vio


# ------------------------------------------------------------------ DOEDriver runs

def drv_specs(tier):
    out = [('FullFactorial', dict(levels=2)), ('FullFactorial', dict(levels=3)),
           ('FullFactorial', dict(levels='dict_all')),
           ('PlackettBurman', {}), ('BoxBehnken', dict(center=1)),
           ('GeneralizedSubset', dict(levels=3, reduction=2, n=1)),
           ('LatinHypercube', dict(samples=4, criterion=None, iterations=5, seed=1)),
           ('LatinHypercube', dict(samples=None, criterion='center', iterations=5, seed=7)),
           ('Uniform', dict(num_samples=3, seed=0)),
           ('List', {}), ('CSV', {}), ('PlainList', {})]
    if tier == 'thorough':
        out += [('FullFactorial', dict(levels=4)), ('FullFactorial', dict(levels='dict_default')),
                ('LatinHypercube', dict(samples=6, criterion='maximin', iterations=2, seed=0)),
                ('LatinHypercube', dict(samples=3, criterion='corr', iterations=5, seed=1)),
                ('Uniform', dict(num_samples=6, seed=7)),
                ('GeneralizedSubset', dict(levels='dict_all', reduction=2, n=1))]
    return out


def _list_data(vs, specs):
    """hand-made case list inside the bounds (for List/CSV generators): 3 rows"""
    rows = []
    for k, w in enumerate((0.0, 0.625, 1.0)):
        case = []
        for nm in vs:
            s = specs[nm]
            lo = np.broadcast_to(np.asarray(s['lower'], dtype=float), (s['size'],))
            up = np.broadcast_to(np.asarray(s['upper'], dtype=float), (s['size'],))
            ww = np.array([w, 1.0 - w])[:s['size']] if k == 1 else np.full(s['size'], w)
            case.append((nm, lo + ww * (up - lo)))
        rows.append(case)
    return rows


def check_drv(case):
    import openmdao.api as om
    gname, kw, vs, pal = case['gen'], case['kw'], case['vs'], case['pal']
    scaling, record = case['scaling'], case['record']
    specs = var_specs(pal)
    fac = factors(vs, specs)
    cls = 'driver/%s/%s%s' % (gname, 'scaled' if scaling else 'unscaled',
                              '/units' if any(specs[nm]['dvunits'] for nm in vs) else '')
    vio = []

    def V(what, msg):
        vio.append({'sig': 'C23:%s:%s' % (what, cls),
                    'msg': '%s gen=%s kw=%s vars=%s scaling=%s: %s' % (what, gname, kw, vs, scaling,
                                                                       msg), 'case': dict(case)})

    expected_rows = None
    if gname in ('List', 'CSV', 'PlainList'):
        data = _list_data(vs, specs)
        expected_rows = np.array([np.concatenate([v for _, v in c]) for c in data])
        ref = dict(kind='given')
    else:
        ref = reference(gname, kw, vs, specs)
        if ref['kind'] == 'inadmissible':
            return 'driver_inadmissible', 0, vio

    def mkgen():
        if gname == 'List':
            return om.ListGenerator([[(nm, v.copy()) for nm, v in c] for c in data])
        if gname == 'PlainList':
            return [[(nm, v.copy()) for nm, v in c] for c in data]
        if gname == 'CSV':
            fn = 'c23_cases_%d.csv' % os.getpid()
            with open(fn, 'w') as f:
                f.write(','.join(vs) + '\n')
                for c in data:
                    f.write(','.join('"%s"' % np.array2string(v, precision=17, max_line_width=400)
                                     for _, v in c) + '\n')
            return om.CSVGenerator(fn)
        return make_generator('doe', gname, kw, vs, specs)

    p, seen, _ = _make_problem(vs, pal, scaling, om)
    buf = io.StringIO()
    try:
        with warnings.catch_warnings():
            warnings.simplefilter('ignore')
            with contextlib.redirect_stdout(buf):
                p.driver = om.DOEDriver(mkgen())
                recfile = None
                if record:
                    recfile = 'c23_%d.sql' % os.getpid()
                    if os.path.exists(recfile):
                        os.remove(recfile)
                    p.driver.add_recorder(om.SqliteRecorder(recfile))
                p.setup()
                p.final_setup()
                # the generator's own design for these design variables (verified separately by
                # the generator cases) - needs a fresh generator for seeded ones
                g2 = mkgen()
                if isinstance(g2, list):
                    g2 = om.ListGenerator(g2)
                gen_rows = run_generator('doe', g2, vs, p.driver._designvars, p.model)
                seen.clear()
                p.run_driver()
                after = [np.array(p.get_val(nm), dtype=float).ravel() for nm in vs]
                cases_rec = None
                if record:
                    p.cleanup()
                    cr = om.CaseReader(p.get_outputs_dir() / recfile if not os.path.exists(recfile)
                                       else recfile)
                    cases_rec = []
                    for cid in cr.list_cases('driver', out_stream=None):
                        c = cr.get_case(cid)
                        cases_rec.append(np.concatenate([np.asarray(c.outputs[nm],
                                                                    dtype=float).ravel()
                                                         for nm in vs]))
    except Exception as exc:
        import traceback
        loc = traceback.extract_tb(exc.__traceback__)[-1]
        V('raises_%s' % type(exc).__name__, 'DOEDriver run failed: %s: %s (%s:%d)' % (
            type(exc).__name__, str(exc)[:300], os.path.basename(loc.filename), loc.lineno))
        return 'violation', 0, vio

    if expected_rows is not None:
        if gen_rows.shape != expected_rows.shape or not np.allclose(gen_rows, expected_rows,
                                                                    rtol=1e-15, atol=0):
            V('given_cases_altered', 'generator yields %s, data given %s' % (
                gen_rows.tolist()[:2], expected_rows.tolist()[:2]))
    else:
        check_rows(ref, gen_rows, fac, V)

    # what the model must see: the unit map of each generated value, row by row
    def model_rows(rows):
        out = []
        for r in rows:
            k = 0
            vals = []
            for nm in vs:
                sz = specs[nm]['size']
                vals.append(to_model_units(specs[nm], r[k:k + sz]))
                k += sz
            out.append(np.concatenate(vals))
        return np.array(out, dtype=float).reshape(len(rows), len(fac))

    want = model_rows(gen_rows)
    got = np.array([np.concatenate(s) for s in seen], dtype=float).reshape(len(seen), len(fac))

    def same(a, b):
        return a.shape == b.shape and np.allclose(a, b, rtol=1e-12, atol=1e-12)

    if got.shape[0] != want.shape[0]:
        V('evaluation_count', 'model evaluated %d times, generator yields %d rows' % (
            got.shape[0], want.shape[0]))
    elif not same(got, want):
        i = int(np.argwhere(~np.isclose(got, want, rtol=1e-12, atol=1e-12))[0][0])
        V('evaluated_values', 'evaluation %d: model saw %s, generated (model units) %s' % (
            i, got[i].tolist(), want[i].tolist()))
    # bounds in model units
    if got.size and not vio:
        lo = model_rows(np.array([[f[0] for f in fac]]))[0]
        up = model_rows(np.array([[f[1] for f in fac]]))[0]
        if (got < lo - 1e-9).any() or (got > up + 1e-9).any():
            V('evaluated_out_of_bounds', 'model evaluated outside the design-variable bounds')
    if want.shape[0] and not vio:
        last = np.concatenate(after)
        if not np.allclose(last, want[-1], rtol=1e-12, atol=1e-12):
            V('final_state', 'after run_driver the model holds %s, last generated row %s' % (
                last.tolist(), want[-1].tolist()))
    if cases_rec is not None and not vio:
        rec = np.array(cases_rec, dtype=float).reshape(len(cases_rec), len(fac))
        if rec.shape[0] != want.shape[0]:
            V('recorded_count', '%d driver cases recorded, %d rows generated' % (rec.shape[0],
                                                                                 want.shape[0]))
        elif not same(rec, want):
            V('recorded_values', 'recorded design variables differ from the generated rows')
    nontriv = int(want.shape[0] >= 2 and not vio)
    return 'driver:%s:%s' % (gname, 'rec' if record else 'norec'), nontriv, vio


# ------------------------------------------------------------------ enumeration

def cases(tier, seed):
    pal = seed % len(_PAL)
    out = []
    vsets = VARSETS if tier == 'thorough' else VARSETS_Q
    specs = gen_specs(tier)
    for vs in vsets:
        for api in ('doe', 'sampling'):
            for gname, kw in specs:
                out.append({'kind': 'gen', 'api': api, 'gen': gname, 'kw': kw, 'vs': vs,
                            'pal': pal, 'scaling': False})
    # driver scaling must not change what the generators yield (doe api reads driver metadata)
    for vs in ('d', 'e', 'db', 'fe', 'dea'):
        for gname, kw in specs:
            if gname == 'LatinHypercube' and (kw['seed'] != 1 or kw['iterations'] != 5):
                continue
            out.append({'kind': 'gen', 'api': 'doe', 'gen': gname, 'kw': kw, 'vs': vs, 'pal': pal,
                        'scaling': True})
    # reuse histories
    for vsA, vsB in REUSE_PAIRS:
        for gname, kw in specs:
            if gname == 'LatinHypercube' and (kw['seed'] != 7 or kw['iterations'] != 5):
                continue
            out.append({'kind': 'reuse', 'gen': gname, 'kw': kw, 'vs': vsA, 'vs2': vsB,
                        'pal': pal})
    # DOEDriver runs
    for vs in vsets:
        for gname, kw in drv_specs(tier):
            for scaling in (False, True):
                for record in ((False, True) if tier == 'thorough' else (True,)):
                    out.append({'kind': 'drv', 'gen': gname, 'kw': kw, 'vs': vs, 'pal': pal,
                                'scaling': scaling, 'record': record})
    return out


def check_case(case):
    kind = case['kind']
    if kind == 'gen':
        oc, nt, vio = check_gen(case)
    elif kind == 'reuse':
        oc, nt, vio = check_reuse(case)
    elif kind == 'drv':
        oc, nt, vio = check_drv(case)
    else:
        raise ValueError(kind)
    return {'evals': 1, 'nontrivial': nt, 'outcome': oc, 'violations': vio}
