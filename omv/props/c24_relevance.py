"""C24 - relevance pruning is unobservable in results (DESIGN.md 4, C24)."""
import contextlib
import io
import itertools

import numpy as np

from omv.core import ir, models
from omv import lib_c24_special as special

ID = 'C24'
LEVEL = 'exploration'
TECHNIQUE = ('exhaustive enumeration of small labelled DAG models x design-variable/response choices x '
             'solver stacks x modes; differential oracle: the same Problem built with relevance '
             'disabled (and the independent NumPy reference)')
RULE = ('models = every DAG on 3 (quick) / 4 (thorough, <= 2 sources per component) components over two '
        'independent sources where each component reads a non-empty set of <= 2 earlier nodes; x every '
        'non-empty set of design variables x every response set of size <= 2 x linear-solver stack '
        '{RunOnce, LNBGS, Direct, Newton subgroup} x mode {fwd, rev} x linear-constraint flag; a slice '
        'is also optimised with SLSQP; plus four hand-built families (omv/lib_c24_special.py: two-state '
        'implicit component with sparse partials x coupling pattern x response x solver stack x mode; '
        'every compute_totals query history of length <= 2 (3 thorough) on groups that approximate '
        'their totals, with coloring and indexed design variables; compute_totals aborted by a '
        'non-converging linear solver then continued; SLSQP with pre/iter/post splitting x design '
        'variable kinds) each compared with a closed form; non-trivial = at least one component is irrelevant to the '
        'chosen (design variables, responses) pair; each configuration is enumerated once')
LEVEL_TEXT = ('For every configuration two real Problems are built from the same IR, one with the '
              'relevance machinery active and one with openmdao.utils.relevance._no_relevance = True; '
              'responses, total derivatives (and optimiser iterates on a slice) must agree to 1e-12 '
              'and with the NumPy reference to 1e-9.')
LEVEL_NOTE = ('bounded DAG size; no MPI so parallel derivative colours are not exercised; the module '
              'flag is the documented switch behind OPENMDAO_NO_RELEVANCE.')
ASSUMPTIONS = ['relevance is disabled through the module-level switch that the documented environment '
               'variable OPENMDAO_NO_RELEVANCE sets',
               'optimizer comparison uses SLSQP with maxiter=4 on box-bounded problems']
MIN_NONTRIVIAL = {'quick': 1500, 'thorough': 8000}

STACKS = ['runonce', 'lnbgs', 'direct', 'newton_sub']


def _dags(n):
    comps = ['c%d' % (i + 1) for i in range(n)]
    per = []
    for i, c in enumerate(comps):
        nodes = ['p', 'q'] + comps[:i]
        opts = [list(t) for k in (1, 2) for t in itertools.combinations(nodes, k)]
        per.append(opts)
    for combo in itertools.product(*per):
        yield [(c, srcs) for c, srcs in zip(comps, combo)]


def cases(tier, seed):
    pal = seed % 3
    out = []
    n = 3
    k = 0
    for dag in _dags(n):
        used = set(s for _, srcs in dag for s in srcs)
        comps = [c for c, _ in dag]
        dv_opts = [d for d in (['p'], ['q'], ['p', 'q']) if all(x in used for x in d)]
        resp_opts = [list(t) for r in (1, 2) for t in itertools.combinations(comps, r)]
        for dvs in dv_opts:
            for resp in resp_opts:
                k += 1
                for si, stack in enumerate(STACKS):
                    if tier == 'quick' and stack in ('direct', 'newton_sub') and (k + si) % 3:
                        continue
                    for mode in ('fwd', 'rev'):
                        if tier == 'quick' and (k + si + (mode == 'rev')) % 2:
                            continue
                        out.append({'dag': dag, 'dvs': dvs, 'resp': resp, 'stack': stack,
                                    'mode': mode, 'linear': (k % 4 == 0), 'kinds': 'lin' if k % 2
                                    else 'mix', 'opt': (k % 10 == 0 and stack == 'runonce'),
                                    'palette': pal})
    if tier == 'thorough':
        j = 0
        for dag in _dags(4):
            j += 1
            if j % 7:
                continue
            used = set(s for _, srcs in dag for s in srcs)
            comps = [c for c, _ in dag]
            for dvs in (['p'], ['p', 'q']):
                if not all(x in used for x in dvs):
                    continue
                for resp in (['c4'], ['c2', 'c3'], ['c1', 'c4']):
                    for stack in ('runonce', 'lnbgs'):
                        out.append({'dag': dag, 'dvs': dvs, 'resp': resp, 'stack': stack,
                                    'mode': 'rev' if j % 2 else 'fwd', 'linear': False,
                                    'kinds': 'mix', 'opt': False, 'palette': pal})
    for c in special.families(tier):
        c = dict(c)
        c['special'] = True
        c['palette'] = pal
        out.append(c)
    return out


def _relevant_comps(dag, dvs, resp):
    fwd = set(dvs)
    changed = True
    while changed:
        changed = False
        for c, srcs in dag:
            if c not in fwd and any(s in fwd for s in srcs):
                fwd.add(c)
                changed = True
    back = set(resp)
    changed = True
    while changed:
        changed = False
        for c, srcs in dag:
            if c in back:
                for s in srcs:
                    if s not in back:
                        back.add(s)
                        changed = True
    return set(c for c, _ in dag if c in fwd and c in back)


def _spec(case):
    dag = [(c, list(s)) for c, s in case['dag']]
    comps = [c for c, _ in dag]
    kinds = {}
    if case['kinds'] == 'mix':
        kinds = {'c1': 'quad', 'c2': 'imp', 'c3': 'quad', 'c4': 'impquad'}
    stack = case['stack']
    hier = 'flat'
    nl, ln = 'RunOnce', 'RunOnce'
    if stack == 'lnbgs':
        ln = 'LNBGS'
    elif stack == 'direct':
        ln = 'Direct'
    elif stack == 'newton_sub':
        hier = {'c2': 'G', 'c3': 'G', 'c4': 'G'}
    responses = []
    for i, c in enumerate(case['resp']):
        r = {'name': c + '.y', 'type': 'con'}
        if case['linear'] and i == 0 and case['kinds'] == 'lin':
            r['linear'] = True
        responses.append(r)
    dvs = [{'name': d, 'lower': -5.0, 'upper': 5.0} for d in case['dvs']]
    spec = models.make(topology=dag, hier=hier, kinds=kinds, nl=nl, ln=ln,
                       palette=case.get('palette', 0), responses=responses, dvs=dvs)
    if stack == 'newton_sub':
        spec['groups']['G'] = {'nl': 'Newton', 'ln': 'Direct'}
    return spec


def _run(spec, mode, no_rel, opt=False):
    import openmdao.utils.relevance as relmod
    import openmdao.api as om
    old = relmod._no_relevance
    relmod._no_relevance = bool(no_rel)
    buf = io.StringIO()
    try:
        with contextlib.redirect_stdout(buf), contextlib.redirect_stderr(buf):
            if opt:
                s2 = dict(spec)
                s2['responses'] = [dict(r) for r in spec['responses']]
                s2['responses'][0] = dict(s2['responses'][0], type='obj', index=0)
                s2['responses'][0].pop('linear', None)
                prob, info = ir.build(s2, mode=mode, setup=False)
                prob.driver = om.ScipyOptimizeDriver(optimizer='SLSQP', maxiter=4, disp=False)
                prob.setup(mode=mode)
                prob.run_driver()
                res = {'dv': {d['name']: np.array(prob.get_val(d['name'])) for d in spec['dvs']},
                       'iter': prob.driver.iter_count}
                return prob, res
            prob, info = ir.build(spec, mode=mode)
            prob.run_model()
            of = [r['name'] for r in spec['responses']]
            wrt = [d['name'] for d in spec['dvs']]
            J = prob.compute_totals(of=of, wrt=wrt, return_format='flat_dict')
            Jd = prob.compute_totals(return_format='flat_dict')
            vals = {n: np.array(prob.get_val(n)) for n in of}
            return prob, {'J': J, 'Jd': Jd, 'vals': vals}
    finally:
        relmod._no_relevance = old


def check_case(case):
    if case.get('special'):
        return special.check(case)
    spec = _spec(case)
    cls = '%s/%s/%s/dv=%s/resp=%s/%s%s' % (
        case['stack'], case['mode'], case['kinds'], '+'.join(case['dvs']), '+'.join(case['resp']),
        ';'.join('%s<%s' % (c, ','.join(s)) for c, s in case['dag']),
        '/lin' if case['linear'] and case['kinds'] == 'lin' else '')
    vio = []

    def V(what, msg):
        vio.append({'sig': 'C24:%s:%s' % (what, cls), 'case': case,
                    'msg': '%s [%s]: %s' % (what, cls, msg)})
    try:
        p_on, r_on = _run(spec, case['mode'], False)
        p_off, r_off = _run(spec, case['mode'], True)
    except Exception as exc:
        if type(exc).__name__ == 'AnalysisError':
            return {'evals': 1, 'outcome': 'not_converged', 'violations': []}
        V('raises', '%s: %s' % (type(exc).__name__, str(exc)[:300]))
        return {'evals': 1, 'outcome': 'violation', 'violations': vio}
    for n, v in r_off['vals'].items():
        if not np.allclose(r_on['vals'][n], v, rtol=0, atol=1e-12 * max(1.0, np.max(np.abs(v)))):
            V('response_value', '%s: relevance on %s off %s' % (n, r_on['vals'][n].tolist(),
                                                               v.tolist()))
    for key in ('J', 'Jd'):
        for k2, v in r_off[key].items():
            a = r_on[key].get(k2)
            if a is None or a.shape != v.shape or not np.allclose(
                    a, v, rtol=0, atol=1e-11 * max(1.0, float(np.max(np.abs(v), initial=0.0)))):
                V('totals_differ_' + key, 'd %s/d %s: relevance on %s off %s' % (
                    k2[0], k2[1], None if a is None else np.round(a, 8).tolist(),
                    np.round(v, 8).tolist()))
    # reference
    ref = ir.Ref(spec)
    U = ir.gather_U(p_on, ref)
    R = ref.residual(U)
    if float(np.max(np.abs(R[~ref.free]), initial=0.0)) > 1e-9:
        V('state_not_solution', 'reference residual %.3e with relevance on' % float(
            np.max(np.abs(R[~ref.free]))))
    else:
        Jr = ref.totals(U, [(r['_ref'], None) for r in spec['responses']],
                        [(d['_ref'], None) for d in spec['dvs']])
        for r in spec['responses']:
            for d in spec['dvs']:
                want = Jr[(r['_ref'], d['_ref'])]
                got = r_on['J'][(r['name'], d['name'])]
                if got.shape != want.shape or not np.allclose(got, want, rtol=0, atol=1e-9 * max(
                        1.0, float(np.max(np.abs(want), initial=0.0)))):
                    V('totals_vs_reference', 'd %s/d %s: got %s expected %s' % (
                        r['name'], d['name'], np.round(got, 8).tolist(), np.round(want, 8).tolist()))
    evals = 2
    if case.get('opt') and not vio:
        try:
            _, o_on = _run(spec, case['mode'], False, opt=True)
            _, o_off = _run(spec, case['mode'], True, opt=True)
            evals += 2
            for n, v in o_off['dv'].items():
                if not np.allclose(o_on['dv'][n], v, rtol=0, atol=1e-10 * max(1.0, np.max(np.abs(v)))):
                    V('optimizer_result', '%s: relevance on %s off %s' % (n, o_on['dv'][n].tolist(),
                                                                         v.tolist()))
            if o_on['iter'] != o_off['iter']:
                V('optimizer_iterations', 'iter_count on %d off %d' % (o_on['iter'], o_off['iter']))
        except Exception as exc:
            if type(exc).__name__ != 'AnalysisError':
                V('optimizer_raises', '%s: %s' % (type(exc).__name__, str(exc)[:300]))
    comps = set(c for c, _ in case['dag'])
    rel = _relevant_comps(case['dag'], case['dvs'], case['resp'])
    nontriv = int(len(rel) < len(comps))
    return {'evals': evals, 'nontrivial': nontriv if not vio else 0,
            'outcome': 'violation' if vio else ('ok_pruned' if nontriv else 'ok_all_relevant'),
            'violations': vio, 'sample': cls}
