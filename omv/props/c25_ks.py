"""C25 - KS aggregation brackets the extremum and has exact gradients (DESIGN.md section 4, C25).

Complete enumeration of the constraint arrays g in P^n (ties and huge magnitudes included) x rho x
option flags.  Three observation points of the real code:

* ``KSfunction.compute / derivatives`` (1-D call form and the vectorised 2-D form KSComp uses),
* jax ``ks_max`` / ``ks_min`` (value and ``jax.grad``),
* ``KSComp`` in a one-component Problem: output and assembled total Jacobian in fwd and rev mode for
  every combination of rho, upper, lower_flag, minimum, units, vec_size.

Oracle.  For the function level an *unshifted* log-sum-exp evaluated with 50-digit ``decimal``
arithmetic (no shift trick, so an error in the shift cannot cancel); for the component level the
NumPy closed form, which is itself compared with the decimal oracle on the whole lattice in the
function-level cases.  The bracket max(g') <= KS <= max(g') + ln(n)/rho is checked separately from
the closed-form value.
"""
import collections
import contextlib
import decimal
import io
import itertools
import math
import os
import warnings

import numpy as np

os.environ.setdefault('TF_CPP_MIN_LOG_LEVEL', '3')     # XLA's C++ logging: workers must not print

ID = 'C25'
LEVEL = 'exploration'
TECHNIQUE = ('bounded exhaustive enumeration of the lattice P^n of constraint arrays x rho x KSComp '
             'flag/option product against a 50-digit unshifted log-sum-exp reference')
RULE = ('every array of P^n (7-value palette with ties, zeros and +-1e6; n <= 4 quick, <= 5 thorough) x '
        'rho x {KSfunction 1-D and batched, jax ks_max/ks_min value+grad, KSComp over the full product '
        'of upper, lower_flag, minimum, units, vec_size, fwd/rev}; one evaluation = one (array, rho, '
        'observation point, option set); non-trivial = n >= 2 and the array is not constant (the '
        'aggregate has to select); outcomes are classed by observation point, flags, tie multiplicity '
        'at the extremum and whether any non-extremal softmax weight is non-zero (soft/sharp)')
LEVEL_TEXT = ('Complete enumeration of a small lattice of constraint arrays chosen to contain every '
              'qualitative situation of a shifted log-sum-exp (ties at the extremum, zeros, sign '
              'changes, magnitudes that overflow an unshifted exp) crossed with the full product of '
              'the component options; the discrete part (signs implied by the flags, row/column maps '
              'of the vectorised partials, shift by upper) is covered completely, the continuous '
              'part is probed on the palette.')
LEVEL_NOTE = ('Trusted: Python decimal (50 digits) for exp/ln, NumPy.  Values outside the palette are '
              'not covered.  add_constraint/scaler/adder/ref options only forward to add_constraint '
              'and are outside the property.')
ASSUMPTIONS = [
    'g\' = s*(g - upper) with s = -1 iff lower_flag; minimum=False: max(g\') <= KS <= max(g\')+ln(n)/rho; '
    'minimum=True: min(g\') - ln(n)/rho <= KS <= min(g\') (docstring of the minimum option: inputs and '
    'output multiplied by -1)',
    'bracket tolerance: 4 ulp of the larger bound (two roundings in g_max + log(S)/rho; XLA exp/log '
    'are not correctly rounded); value tolerance 1e-13 relative; softmax weights 1e-12 relative + '
    '4e-16 absolute (exp of an argument of magnitude <= 745 carries a relative error <= 745 ulp)',
    'KSfunction.derivatives()[1] is documented as dKS/drho and is compared with the exact derivative '
    'of KSfunction.compute with respect to rho',
    'units option: only declared metadata and set_val/get_val conversion (km in, mm out) are observed',
    'jax functions: default rho=100 and KSfunction default rho=50 checked by omitting the argument',
]
MIN_NONTRIVIAL = {'quick': 150000, 'thorough': 1500000}
CHUNK = 1
CAP_S = {'thorough': 1700}

_PALETTES = [
    [-1e6, -3.0, -0.25, 0.0, 0.25, 3.0, 1e6],
    [-3e6, -5.0, -0.5, 0.0, 0.125, 2.0, 1e6],
]
_RHO = {'quick': [0.5, 1.0, 50.0, 1e3], 'thorough': [0.125, 0.5, 1.0, 8.0, 50.0, 1e3]}
_UPPER = {'quick': [0.0, 1.5], 'thorough': [0.0, 1.5, -2.0]}
_VEC = {'quick': [1, 2], 'thorough': [1, 2, 3]}

_EPS = np.finfo(float).eps
_CTX = decimal.Context(prec=50, Emax=decimal.MAX_EMAX, Emin=decimal.MIN_EMIN)


def _lattice(pal, n, pre=None):
    if pre:
        return np.array([tuple(pre) + t for t in itertools.product(_PALETTES[pal],
                                                                   repeat=n - len(pre))], dtype=float)
    return np.array(list(itertools.product(_PALETTES[pal], repeat=n)), dtype=float)


def _companion(pal, row, k):
    """deterministic different lattice row for vector row k (so that rows of a vectorised component
    never coincide and a row/column mix-up cannot cancel)"""
    P = _PALETTES[pal]
    idx = [P.index(v) for v in row]
    return np.array([P[(j + 2 * k + i + 1) % len(P)] for i, j in enumerate(idx)], dtype=float)


def _prefixes(pal, n):
    """split the lattice P^n into sub-lattices of <= 343 arrays (fixed leading entries)"""
    if n <= 3:
        return [None]
    return [list(t) for t in itertools.product(_PALETTES[pal], repeat=n - 3)]


def cases(tier, seed):
    pal = seed % len(_PALETTES)
    out = []
    nmax_f = 4 if tier == 'quick' else 5
    for n in range(1, nmax_f + 1):
        for rho in _RHO[tier]:
            for pre in _prefixes(pal, n):
                out.append({'kind': 'func', 'n': n, 'rho': rho, 'pal': pal, 'pre': pre})
                out.append({'kind': 'jax', 'n': n, 'rho': rho, 'pal': pal, 'pre': pre})
    for n in range(1, 5):
        for vec in _VEC[tier]:
            for rho in _RHO[tier]:
                for upper in _UPPER[tier]:
                    for lf in (False, True):
                        for mn in (False, True):
                            for units in (None, 'm'):
                                if tier == 'quick' and n == 4 and (units is not None or vec > 1):
                                    continue      # quick: units and vec_size axes on n <= 3 only
                                for mode in ('fwd', 'rev'):
                                    for pre in _prefixes(pal, n):
                                        out.append({'kind': 'comp', 'n': n, 'vec': vec, 'rho': rho,
                                                    'upper': upper, 'lower_flag': lf, 'minimum': mn,
                                                    'units': units, 'mode': mode, 'pal': pal,
                                                    'pre': pre})
    if tier == 'thorough':
        # width 5, vec_size 1: the flags x rho product on the 16 807-array lattice
        for rho in (0.5, 50.0):
            for lf in (False, True):
                for mn in (False, True):
                    for mode in ('fwd', 'rev'):
                        for pre in _prefixes(pal, 5):
                            out.append({'kind': 'comp', 'n': 5, 'vec': 1, 'rho': rho, 'upper': 1.5,
                                        'lower_flag': lf, 'minimum': mn, 'units': None, 'mode': mode,
                                        'pal': pal, 'pre': pre})
    return out


# ------------------------------------------------------------------ oracles

def ref_dec(g, rho):
    """Unshifted log-sum-exp in 50-digit decimal arithmetic.
    Returns KS, softmax weights, dKS/drho as floats."""
    D = decimal.Decimal
    with decimal.localcontext(_CTX):
        r = D(float(rho))
        gs = [D(float(v)) for v in g]
        es = [(r * v).exp() for v in gs]
        s = sum(es, D(0))
        ks = s.ln() / r
        w = [e / s for e in es]
        dr = (sum((v * wi for v, wi in zip(gs, w)), D(0)) - ks) / r
        return float(ks), np.array([float(x) for x in w]), float(dr)


def ref_np(gp, rho):
    """NumPy closed form on rows of gp (2-D): KS value and softmax weights."""
    gp = np.atleast_2d(gp)
    m = gp.max(axis=1, keepdims=True)
    e = np.exp(rho * (gp - m))
    s = e.sum(axis=1, keepdims=True)
    return (m + np.log(s) / rho).ravel(), e / s


def _tol_bracket(lo, hi):
    return 4 * _EPS * max(abs(lo), abs(hi), 1e-300)


def _close_w(got, want):
    got = np.asarray(got, dtype=float)
    return got.shape == want.shape and bool(np.all(np.abs(got - want) <= 1e-12 * np.abs(want) + 4e-16))


def _class(g, w):
    """outcome class: tie multiplicity at the extremum + soft/sharp"""
    g = np.asarray(g)
    ties = int(np.sum(w == w.max()))
    soft = bool(np.any((w > 0) & (w < w.max())))
    return 'ties%d:%s' % (ties, 'soft' if soft else 'sharp')


def _shape_cls(g):
    g = np.asarray(g, dtype=float).ravel()
    c = 'n%d' % g.size
    if g.size > 1 and np.all(g == g[0]):
        c += ':const'
    elif np.sum(g == g.max()) > 1:
        c += ':tie'
    if np.any(np.abs(g) >= 1e5):
        c += ':huge'
    return c


class _Acc(object):
    def __init__(self):
        self.evals = 0
        self.nontriv = 0
        self.outcomes = collections.Counter()
        self.vios = []
        self.seen = collections.Counter()

    def vio(self, sig, msg, case):
        self.seen[sig] += 1
        if self.seen[sig] <= 2:
            self.vios.append({'sig': sig, 'msg': msg, 'case': case})

    def result(self, sample=None):
        r = {'evals': self.evals, 'nontrivial': self.nontriv, 'outcome': dict(self.outcomes),
             'violations': self.vios}
        if sample is not None:
            r['sample'] = sample
        return r


def _bracket(acc, what, ks, ext, n, rho, minimum, case, cls):
    """ext = max(g') (or min(g') for minimum).  Checks the bracket of the property."""
    width = math.log(n) / rho
    lo, hi = (ext, ext + width) if not minimum else (ext - width, ext)
    tol = _tol_bracket(lo, hi)
    if not np.isfinite(ks):
        acc.vio('C25:%s.nonfinite:%s' % (what, cls), '%s returned %r for %r' % (what, ks, case), case)
        return False
    if ks < lo - tol:
        acc.vio('C25:%s.bracket_lo:%s' % (what, cls),
                '%s=%r below lower bound %r (n=%d rho=%r) %r' % (what, ks, lo, n, rho, case), case)
        return False
    if ks > hi + tol:
        acc.vio('C25:%s.bracket_hi:%s' % (what, cls),
                '%s=%r above upper bound %r (n=%d rho=%r) %r' % (what, ks, hi, n, rho, case), case)
        return False
    return True


def _value(acc, what, ks, want, case, cls, n, rho, ext):
    # conditioning: the sum S >= 1 carries an absolute rounding error <= n*eps, hence log(S)/rho an
    # absolute error <= n*eps/rho; the final addition rounds at the magnitude of the extremum
    if not abs(ks - want) <= 1e-13 * abs(want) + 4 * _EPS * abs(ext) + 8 * n * _EPS / rho:
        acc.vio('C25:%s.value:%s' % (what, cls), '%s=%r, log-sum-exp reference %r for %r' % (
            what, ks, want, case), case)
        return False
    return True


# ------------------------------------------------------------------ KSfunction

def _check_func_one(acc, g, rho, batch_val=None, batch_dg=None, batch_dr=None):
    from openmdao.components.ks_comp import KSfunction
    g = np.asarray(g, dtype=float)
    n = g.size
    case = {'kind': 'func1', 'g': g.tolist(), 'rho': rho}
    cls = _shape_cls(g)
    ks_d, w_d, dr_d = ref_dec(g, rho)
    ks_n, w_n = ref_np(g, rho)
    # harness self-check: the NumPy closed form used at component level == decimal oracle
    if not (abs(ks_n[0] - ks_d) <= 1e-13 * abs(ks_d) + 4 * _EPS * abs(g.max()) + 8 * n * _EPS / rho
            and _close_w(w_n[0], w_d)):
        acc.vio('C25:harness:oracle_disagreement', 'NumPy reference %r/%r vs decimal %r/%r for %r' % (
            ks_n[0], w_n[0], ks_d, w_d, case), case)
    ok = True
    try:
        with warnings.catch_warnings():
            warnings.simplefilter('error')
            v = np.asarray(KSfunction.compute(g, rho))
            dg, dr = KSfunction.derivatives(g, rho)
            if rho == 50.0:
                v_def = np.asarray(KSfunction.compute(g))
                dg_def = KSfunction.derivatives(g)[0]
            else:
                v_def = dg_def = None
    except Exception as exc:
        acc.vio('C25:KSfunction.raises:%s:%s' % (type(exc).__name__, cls), '%s: %s for %r' % (
            type(exc).__name__, exc, case), case)
        return
    forms = [('KSfunction.compute', v, dg, dr)]
    if batch_val is not None:
        forms.append(('KSfunction.compute2d', batch_val, batch_dg, batch_dr))
    for what, vv, dd, rr in forms:
        vv = np.asarray(vv, dtype=float)
        if vv.size != 1:
            acc.vio('C25:%s.shape:%s' % (what, cls), 'value shape %s' % (vv.shape,), case)
            ok = False
            continue
        ks = float(vv.ravel()[0])
        ok &= _bracket(acc, what, ks, g.max(), n, rho, False, case, cls)
        ok &= _value(acc, what, ks, ks_d, case, cls, n, rho, g.max())
        pre = what.replace('compute', 'derivatives')
        if not _close_w(np.asarray(dd, dtype=float).ravel(), w_d):
            acc.vio('C25:%s.dKS_dg:%s' % (pre, cls), 'dKS_dg=%r, exact softmax weights %r for %r' % (
                np.asarray(dd).tolist(), w_d.tolist(), case), case)
            ok = False
        rr = np.asarray(rr, dtype=float)
        m = g.max()
        e = np.exp(rho * (g - m))
        s = e.sum()
        scale = abs(math.log(s)) / rho ** 2 + float(np.sum(np.abs(g - m) * e)) / (rho * s)
        tol_r = 1e-11 * scale + 8 * n * _EPS / rho ** 2      # same conditioning argument as _value
        if rr.size != 1 or not abs(float(rr.ravel()[0]) - dr_d) <= tol_r:
            got = float(rr.ravel()[0]) if rr.size == 1 else float('nan')
            # structural class of the error: is the difference exactly the log(S)/rho^2 term?
            miss = math.log(s) / rho ** 2
            kind = 'off_by_logS_over_rho2' if abs(got - dr_d - miss) <= tol_r \
                else 'other'
            acc.vio('C25:%s.dKS_drho:%s' % (pre, kind),
                    'dKS_drho=%r, exact d/drho of compute() = %r (difference %r, log(S)/rho^2 = %r) '
                    'for %r' % (got, dr_d, got - dr_d, miss, case), case)
            ok = False
    if v_def is not None:
        if not (np.array_equal(v_def, v) and np.array_equal(dg_def, dg)):
            acc.vio('C25:KSfunction.default_rho', 'compute(g) != compute(g, 50.0) for %r' % case, case)
            ok = False
    acc.evals += len(forms)
    nt = int(n >= 2 and not np.all(g == g[0]))
    acc.nontriv += nt * len(forms)
    acc.outcomes['func:' + (_class(g, w_d) if ok else 'violation')] += len(forms)


def _check_func(case):
    from openmdao.components.ks_comp import KSfunction
    acc = _Acc()
    G = _lattice(case['pal'], case['n'], case.get('pre'))
    rho = case['rho']
    try:
        with warnings.catch_warnings():
            warnings.simplefilter('error')
            bv = np.asarray(KSfunction.compute(G, rho))
            bdg, bdr = KSfunction.derivatives(G, rho)
    except Exception as exc:
        acc.vio('C25:KSfunction.raises2d:%s' % type(exc).__name__, '%s: %s' % (
            type(exc).__name__, exc), dict(case))
        return acc.result()
    for i, g in enumerate(G):
        _check_func_one(acc, g, rho, bv[i], bdg[i], bdr[i])
    return acc.result({'kind': 'func', 'n': case['n'], 'rho': rho, 'arrays': len(G),
                       'e.g.': G[len(G) // 3].tolist()})


# ------------------------------------------------------------------ jax

_JAX = {}


def _jax_funcs():
    if not _JAX:
        import jax
        from openmdao.jax_funcs import ks_max, ks_min
        _JAX['ks_max'] = (ks_max, jax.jit(jax.grad(ks_max)))
        _JAX['ks_min'] = (ks_min, jax.jit(jax.grad(ks_min)))
    return _JAX


def _check_jax_one(acc, g, rho, form='array'):
    g = np.asarray(g, dtype=float)
    n = g.size
    case = {'kind': 'jax1', 'g': g.tolist(), 'rho': rho, 'form': form}
    cls = _shape_cls(g)
    arg = g
    if form == 'list':
        arg = g.tolist()
    elif form == '2d':
        arg = g.reshape((2, n // 2))
    for name, (f, gr) in _jax_funcs().items():
        mn = name == 'ks_min'
        gd = -g if mn else g
        ks_d, w_d, _ = ref_dec(gd, rho)
        if mn:
            ks_d = -ks_d
        ok = True
        try:
            ks = float(f(arg, rho))
            d = np.asarray(gr(arg, rho) if form != 'list' else gr(g, rho), dtype=float).ravel()
            if rho == 100.0:
                if float(f(arg)) != ks:
                    acc.vio('C25:%s.default_rho' % name, 'f(x) != f(x, 100.0) for %r' % case, case)
                    ok = False
        except Exception as exc:
            acc.vio('C25:%s.raises:%s:%s' % (name, type(exc).__name__, cls), '%s: %s for %r' % (
                type(exc).__name__, str(exc)[:300], case), case)
            continue
        ext = g.min() if mn else g.max()
        ok &= _bracket(acc, name, ks, ext, n, rho, mn, case, cls)
        ok &= _value(acc, name, ks, ks_d, case, cls, n, rho, ext)
        if not _close_w(d, w_d):
            acc.vio('C25:%s.grad:%s' % (name, cls), 'jax.grad=%r, exact softmax weights %r for %r' % (
                d.tolist(), w_d.tolist(), case), case)
            ok = False
        acc.evals += 1
        acc.nontriv += int(n >= 2 and not np.all(g == g[0]))
        acc.outcomes['%s:%s' % (name, (_class(gd, w_d) if ok else 'violation'))] += 1


def _check_jax(case):
    acc = _Acc()
    G = _lattice(case['pal'], case['n'], case.get('pre'))
    rho = case['rho']
    for i, g in enumerate(G):
        _check_jax_one(acc, g, rho)
        if i % 97 == 0:
            _check_jax_one(acc, g, rho, 'list')
            if case['n'] == 4:
                _check_jax_one(acc, g, rho, '2d')
    if case['n'] == 1 and rho == 0.5:
        # default rho (100) of the jax functions, on the 3-lattice
        for g in _lattice(case['pal'], 3):
            _check_jax_one(acc, g, 100.0)
    return acc.result({'kind': 'jax', 'n': case['n'], 'rho': rho, 'arrays': len(G)})


# ------------------------------------------------------------------ KSComp

def _build_comp(cfg):
    import openmdao.api as om
    p = om.Problem(reports=None)
    kw = dict(width=cfg['n'], vec_size=cfg['vec'], rho=cfg['rho'], upper=cfg['upper'],
              lower_flag=cfg['lower_flag'], minimum=cfg['minimum'])
    if cfg['units'] is not None:
        kw['units'] = cfg['units']
    p.model.add_subsystem('ks', om.KSComp(**kw), promotes=['*'])
    with contextlib.redirect_stdout(io.StringIO()):
        p.setup(mode=cfg['mode'])
        p.final_setup()
    return p


def _cfg_cls(cfg):
    return 'L%dM%d:%s:vec%s:%s' % (cfg['lower_flag'], cfg['minimum'], cfg['mode'],
                                   '1' if cfg['vec'] == 1 else 'N', 'units' if cfg['units'] else 'nounits')


def _check_comp_one(acc, p, cfg, Gm):
    """Gm: (vec, n) matrix given to the component (in km when units are set)."""
    Gm = np.asarray(Gm, dtype=float)
    vec, n = Gm.shape
    rho, upper = cfg['rho'], cfg['upper']
    case = dict(cfg)
    case['kind'] = 'comp1'
    case['g'] = Gm.tolist()
    ccls = _cfg_cls(cfg)
    fac_in = 1000.0 if cfg['units'] else 1.0        # km -> m (exact)
    s = -1.0 if cfg['lower_flag'] else 1.0
    gp = s * (Gm * fac_in - upper)                  # the transformed constraint g'
    mn = cfg['minimum']
    ks_ref, w_ref = ref_np(-gp if mn else gp, rho)
    if mn:
        ks_ref = -ks_ref
    dref = s * w_ref                                # d KS / d g, both signs of `minimum` cancel
    try:
        with contextlib.redirect_stdout(io.StringIO()), warnings.catch_warnings():
            warnings.simplefilter('ignore')
            if cfg['units']:
                p.set_val('g', Gm, units='km')
            else:
                p.set_val('g', Gm)
            p.run_model()
            if cfg['units']:
                ks = np.asarray(p.get_val('KS', units='mm'), dtype=float) / 1000.0
            else:
                ks = np.asarray(p.get_val('KS'), dtype=float)
            J = np.asarray(p.compute_totals(of=['KS'], wrt=['g'], return_format='array'), dtype=float)
    except Exception as exc:
        acc.vio('C25:KSComp.raises:%s:%s' % (type(exc).__name__, ccls), '%s: %s for %r' % (
            type(exc).__name__, str(exc)[:300], case), case)
        return
    ok = True
    if ks.shape != (vec, 1) or J.shape != (vec, vec * n):
        acc.vio('C25:KSComp.shape:%s' % ccls, 'KS shape %s, J shape %s' % (ks.shape, J.shape), case)
        return
    Jref = np.zeros((vec, vec * n))
    for k in range(vec):
        cls = ccls + ':' + _shape_cls(gp[k])
        ext = gp[k].min() if mn else gp[k].max()
        tol_u = 8 * _EPS * abs(ks_ref[k]) if cfg['units'] else 0.0   # mm round trip: 2 roundings
        okb = _bracket(acc, 'KSComp', float(ks[k, 0]), ext, n, rho, mn, case, cls) if not cfg['units'] \
            else True
        okv = abs(ks[k, 0] - ks_ref[k]) <= 1e-13 * abs(ks_ref[k]) + 4 * _EPS * abs(ext) + \
            8 * n * _EPS / rho + tol_u
        if not okv:
            acc.vio('C25:KSComp.value:%s' % cls, 'KS[%d]=%r, reference %r for %r' % (
                k, float(ks[k, 0]), float(ks_ref[k]), case), case)
        ok &= okb and okv
        Jref[k, k * n:(k + 1) * n] = dref[k]
    bad = np.abs(J - Jref) > 1e-12 * np.abs(Jref) + 4e-16
    if np.any(bad):
        r, c = [int(x) for x in np.argwhere(bad)[0]]
        where = 'diag_block' if c // n == r else 'off_block'
        acc.vio('C25:KSComp.partials:%s:%s' % (where, ccls),
                'd KS/d g [%d,%d] = %r, exact %r (s*softmax weights) for %r' % (
                    r, c, float(J[r, c]), float(Jref[r, c]), case), case)
        ok = False
    acc.evals += 1
    acc.nontriv += int(n >= 2 and any(not np.all(gp[k] == gp[k][0]) for k in range(vec)))
    acc.outcomes['comp:%s:%s' % (ccls.split(':')[0], (_class(gp[0], w_ref[0]) if ok else
                                                       'violation'))] += 1


def _check_units_meta(acc, p, cfg):
    meta = p.model.get_io_metadata(metadata_keys=['units'])
    got = {k.split('.')[-1]: v['units'] for k, v in meta.items()}
    if got.get('g') != cfg['units'] or got.get('KS') != cfg['units']:
        acc.vio('C25:KSComp.units_meta', 'declared units %r for option units=%r' % (got, cfg['units']),
                dict(cfg, kind='comp1', g=[[0.0] * cfg['n']] * cfg['vec']))


def _check_comp(case):
    acc = _Acc()
    cfg = {k: case[k] for k in ('n', 'vec', 'rho', 'upper', 'lower_flag', 'minimum', 'units', 'mode',
                                'pal')}
    try:
        p = _build_comp(cfg)
    except Exception as exc:
        acc.vio('C25:KSComp.setup_raises:%s' % type(exc).__name__, '%s: %s' % (
            type(exc).__name__, str(exc)[:300]), dict(case))
        return acc.result()
    _check_units_meta(acc, p, cfg)
    G = _lattice(cfg['pal'], cfg['n'], case.get('pre'))
    for g in G:
        rows = [g] + [_companion(cfg['pal'], g, k) for k in range(1, cfg['vec'])]
        _check_comp_one(acc, p, cfg, np.array(rows))
    smp = dict(cfg)
    smp['arrays'] = len(G)
    return acc.result(smp)


def check_case(case):
    kind = case['kind']
    if kind == 'func':
        return _check_func(case)
    if kind == 'jax':
        return _check_jax(case)
    if kind == 'comp':
        return _check_comp(case)
    acc = _Acc()
    if kind == 'func1':
        g = np.asarray(case['g'], dtype=float)
        from openmdao.components.ks_comp import KSfunction
        G2 = np.array([g, g[::-1]])
        bv = np.asarray(KSfunction.compute(G2, case['rho']))
        bdg, bdr = KSfunction.derivatives(G2, case['rho'])
        _check_func_one(acc, g, case['rho'], bv[0], bdg[0], bdr[0])
    elif kind == 'jax1':
        _check_jax_one(acc, case['g'], case['rho'], case.get('form', 'array'))
    elif kind == 'comp1':
        cfg = {k: case[k] for k in ('n', 'vec', 'rho', 'upper', 'lower_flag', 'minimum', 'units',
                                    'mode', 'pal')}
        p = _build_comp(cfg)
        _check_units_meta(acc, p, cfg)
        _check_comp_one(acc, p, cfg, np.asarray(case['g'], dtype=float))
    else:
        raise ValueError(kind)
    return acc.result()
