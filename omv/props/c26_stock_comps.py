"""C26 - stock math components compute their formulas and exact partials (DESIGN.md section 4, C26).

For each of AddSubtractComp, MuxComp, DotProductComp, CrossProductComp, MatrixVectorProductComp,
VectorMagnitudeComp, EQConstraintComp, BalanceComp, LinearSystemComp, SplineComp the full product of
a small option alphabet is enumerated.  Every option set is instantiated as a one-component Problem
(real OpenMDAO code) in fwd and in rev mode, fed with generic dyadic palette values and compared with

* the formula of the class docstring written directly in NumPy (`f`), and
* the exact Jacobian of that formula obtained by the harness' own complex step on `f`, entry by
  entry against `compute_totals` of the one-component model (explicit components, LinearSystemComp)
  or against the operator extracted column by column with `run_apply_linear` (BalanceComp),
* the declared units of every variable.
"""
import collections
import contextlib
import io
import itertools
import warnings

import numpy as np

ID = 'C26'
LEVEL = 'exploration'
TECHNIQUE = ('bounded exhaustive enumeration of each component\'s option alphabet; NumPy formula from '
             'the docstring as reference; harness complex step on the reference for exact partials; '
             'entrywise comparison with the assembled totals in fwd and rev')
RULE = ('full product of the option alphabet of each of the ten components (vec_size 1-3, lengths/'
        'shapes from a small set, scaling factors incl. negative, units on/off, axis, normalize, '
        'use_mult, rhs branch palette, vectorize_A, spline method x grid form x vec_size, construction '
        'form (constructor / add_* method / several equations sharing an input)) x {fwd, rev}; one '
        'evaluation = one (component instance, derivative mode); non-trivial = the instance has more '
        'than one scalar entry in its Jacobian and at least one option differs from the default; '
        'outcomes are classed by component, construction form and mode')
LEVEL_TEXT = ('The defects of these components are bookkeeping errors (row/column maps of vectorised '
              'partials, sign and scaling factors, which option reaches which variable), all of '
              'which occur at vec_size <= 3 and lengths <= 3; the alphabet product covers every '
              'combination inside that bound and the numeric palette is generic (distinct dyadic '
              'values, no symmetric matrices) so that a permutation or sign error cannot cancel.')
LEVEL_NOTE = ('Trusted: NumPy, SciPy CubicSpline/np.interp as references for spline values.  Sizes '
              'above the bound, distributed variables and driver-side options (add_constraint, ref, '
              'scaler) are not covered.')
ASSUMPTIONS = [
    'units options are observed through the declared metadata of every variable only (conversion is C06)',
    'MuxComp: negative axis is not in the alphabet (docstring silent); VectorMagnitudeComp: the zero '
    'vector (no derivative) is not in the palette',
    'AddSubtractComp with an input named twice in one equation is documented to "double count": the '
    'value and the partials are both required to count it twice',
    'EQConstraintComp/BalanceComp: f_norm as in the docstring (|rhs| >= 2 -> |rhs|, else .25 rhs^2 + 1, '
    '1 if not normalize); both branches agree in value and slope at |rhs| = 2',
    'BalanceComp: residual by run_apply_nonlinear, Jacobian by run_apply_linear in both modes (a lone '
    'balance has no total derivatives); guess_func observed through a Newton solve of 2x = rhs',
    'SplineComp: values against np.interp (slinear), scipy CubicSpline natural (cubic), interpolation '
    'of the control points and polynomial reproduction (lagrange2: degree 2, lagrange3: degree 3, '
    'akima: degree 1, bsplines: constants); partials against the exact derivative of the component\'s '
    'own output (unit steps for the methods that are linear in y_cp, OpenMDAO complex step for akima). '
    'The interpolation algorithms themselves are the subject of C15/C16.',
    'tolerances: 1e-12 relative to the largest entry for bilinear formulas (dyadic palette), 1e-10 '
    'after a linear solve with a diagonally dominant matrix (condition number < 10)',
]
MIN_NONTRIVIAL = {'quick': 4000, 'thorough': 15000}
CHUNK = 8

_MULTS = [37, 43, 59]


def _vals(shape, salt, pal):
    """generic dyadic values: pairwise distinct within an array (<= 51 entries), never the negative of
    one another, no zeros, and no arithmetic progression (quadratic index map modulo the prime 101:
    consecutive differences are all different, so e.g. Akima slopes never tie)"""
    n = int(np.prod(shape)) if len(shape) else 1
    assert n <= 51
    i = np.arange(n)
    k = (i * i * _MULTS[pal % len(_MULTS)] + 17 * salt + 5) % 101
    return ((k - 50) / 8.0 + 1.0 / 16.0).reshape(shape)


class _Acc(object):
    def __init__(self):
        self.evals = 0
        self.nontriv = 0
        self.outcomes = collections.Counter()
        self.vios = []

    def vio(self, sig, msg, case):
        self.vios.append({'sig': sig, 'msg': msg + ' :: ' + repr(case)[:400], 'case': case})

    def result(self):
        return {'evals': self.evals, 'nontrivial': self.nontriv, 'outcome': dict(self.outcomes),
                'violations': self.vios}


def _quiet():
    return contextlib.redirect_stdout(io.StringIO())


def _cs_jac(f, x, names_in, names_out):
    """exact Jacobian blocks of the NumPy formula by complex step: {(of, wrt): dense}"""
    h = 1e-30
    base = f(x)
    J = {}
    for wrt in names_in:
        n = x[wrt].size
        cols = {of: np.zeros((np.asarray(base[of]).size, n)) for of in names_out}
        for k in range(n):
            xc = {nm: np.asarray(v, dtype=complex).copy() for nm, v in x.items()}
            xc[wrt].reshape(-1)[k] += 1j * h
            out = f(xc)
            for of in names_out:
                cols[of][:, k] = np.asarray(out[of]).ravel().imag / h
        for of in names_out:
            J[of, wrt] = cols[of]
    return J


def _cabs(r):
    """complex-safe |r| for the reference formulas"""
    return np.where(np.real(r) >= 0, r, -r)


# ================================================================== explicit components: specs

def spec_addsub(o, pal):
    import openmdao.api as om
    v, ln, n, form = o['vec'], o['len'], o['nin'], o['form']
    shape = (v,) if ln == 1 else (v, ln)
    names = ['a', 'b', 'c'][:n]
    sf = {'none': None, 'pal': [2.0, -0.75, -4.0][:n], 'pm': [1.0, -1.0, 1.0][:n]}[o['sf']]
    kw = {} if o['units'] is None else {'units': o['units']}
    sfn = list(sf) if sf is not None else [1.0] * n
    eqs = [('y', names, sfn)]
    if form == 'two_eq':
        eqs.append(('y2', ['b', 'd'], [-3.0, 0.5]))
    elif form == 'dup':
        eqs = [('y', [names[0]] + names, [1.5] + sfn)]

    def comp():
        if form == 'ctor':
            c = om.AddSubtractComp('y', names, vec_size=v, length=ln, scaling_factors=sf, **kw)
        elif form == 'add_eq':
            c = om.AddSubtractComp()
            c.add_equation('y', names, vec_size=v, length=ln, scaling_factors=sf, **kw)
        elif form == 'two_eq':
            c = om.AddSubtractComp('y', names, vec_size=v, length=ln, scaling_factors=sf, **kw)
            c.add_equation('y2', ['b', 'd'], vec_size=v, length=ln, scaling_factors=[-3.0, 0.5], **kw)
        else:
            c = om.AddSubtractComp('y', eqs[0][1], vec_size=v, length=ln, scaling_factors=eqs[0][2],
                                   **kw)
        if o['complex']:
            c.options['complex'] = True
        return c

    ins = collections.OrderedDict()
    for _, nms, _ in eqs:
        for nm in nms:
            ins[nm] = shape

    def f(x):
        return {out: sum(s * x[nm] for nm, s in zip(nms, sfs)) for out, nms, sfs in eqs}
    units = {nm: o['units'] for nm in list(ins) + [e[0] for e in eqs]}
    return dict(comp=comp, ins=ins, outs=[e[0] for e in eqs], f=f, units=units,
                cls='%s%s' % (form, ':complex' if o['complex'] else ''), vcls=form,
                default=(form == 'ctor' and v == 1 and ln == 1 and sf is None))


def spec_mux(o, pal):
    import openmdao.api as om
    v, shape, ax, sform = o['vec'], tuple(o['shape']), o['axis'], o['shape_form']
    units = o['units']

    def comp():
        c = om.MuxComp(vec_size=v)
        if sform == 'tuple':
            c.add_var('m', shape=shape, axis=ax, units=units)
        elif sform == 'list':
            c.add_var('m', shape=list(shape), axis=ax, units=units)
        elif sform == 'int':
            c.add_var('m', shape=shape[0], axis=ax, units=units)
        else:
            c.add_var('m', val=np.ones(shape), axis=ax, units=units)
        if o['two']:
            c.add_var('q', shape=(2,), axis=1)
        return c

    ins = collections.OrderedDict(('m_%d' % k, shape) for k in range(v))
    if o['two']:
        for k in range(v):
            ins['q_%d' % k] = (2,)

    def stack(x, name, shp, axis):
        oshape = list(shp)
        oshape.insert(axis, v)
        out = np.zeros(oshape, dtype=x[name + '_0'].dtype)
        for k in range(v):
            idx = [slice(None)] * len(shp)
            idx.insert(axis, k)
            out[tuple(idx)] = x['%s_%d' % (name, k)]
        return out

    def f(x):
        r = {'m': stack(x, 'm', shape, ax)}
        if o['two']:
            r['q'] = stack(x, 'q', (2,), 1)
        return r
    un = {nm: (units if nm.startswith('m') else None) for nm in list(ins) + ['m'] + (
        ['q'] if o['two'] else [])}
    return dict(comp=comp, ins=ins, outs=['m'] + (['q'] if o['two'] else []), f=f, units=un,
                cls='shape_%s:%dD' % (sform, len(shape)), default=False)


def _ukw(o, keys, vals):
    return dict(zip(keys, vals)) if o['units'] else {}


def spec_dot(o, pal):
    import openmdao.api as om
    v, ln = o['vec'], o['len']
    uk = _ukw(o, ('a_units', 'b_units', 'c_units'), ('m', 'N', 'J'))

    def comp():
        c = om.DotProductComp(vec_size=v, length=ln, **uk)
        if o['multi']:
            c.add_product('c2', a_name='a', b_name='d', vec_size=v, length=ln,
                          a_units=uk.get('a_units'), b_units='kg' if uk else None)
            c.add_product('g', a_name='e', b_name='h', vec_size=v % 3 + 1, length=ln % 3 + 2,
                          c_units='s' if uk else None)
        return c
    ins = collections.OrderedDict([('a', (v, ln)), ('b', (v, ln))])
    units = {'a': uk.get('a_units'), 'b': uk.get('b_units'), 'c': uk.get('c_units')}
    outs = ['c']
    if o['multi']:
        ins['d'] = (v, ln)
        ins['e'] = ins['h'] = (v % 3 + 1, ln % 3 + 2)
        outs += ['c2', 'g']
        units.update({'d': 'kg' if uk else None, 'e': None, 'h': None, 'c2': None,
                      'g': 's' if uk else None})

    def f(x):
        r = {'c': np.sum(x['a'] * x['b'], axis=1)}
        if o['multi']:
            r['c2'] = np.sum(x['a'] * x['d'], axis=1)
            r['g'] = np.sum(x['e'] * x['h'], axis=1)
        return r
    return dict(comp=comp, ins=ins, outs=outs, f=f, units=units,
                cls='multi' if o['multi'] else 'single', default=(v == 1 and ln == 3 and not uk))


def _cross(a, b):
    a = a.reshape(-1, 3)
    b = b.reshape(-1, 3)
    return np.stack([a[:, 1] * b[:, 2] - a[:, 2] * b[:, 1],
                     a[:, 2] * b[:, 0] - a[:, 0] * b[:, 2],
                     a[:, 0] * b[:, 1] - a[:, 1] * b[:, 0]], axis=1)


def spec_cross(o, pal):
    import openmdao.api as om
    v = o['vec']
    uk = _ukw(o, ('a_units', 'b_units', 'c_units'), ('m', 'N', 'N*m'))
    shape = (v, 3) if v > 1 else (3,)
    v2 = v % 3 + 1
    shape2 = (v2, 3) if v2 > 1 else (3,)

    def comp():
        c = om.CrossProductComp(vec_size=v, **uk)
        if o['multi']:
            c.add_product('c2', a_name='d', b_name='b', vec_size=v, b_units=uk.get('b_units'))
            c.add_product('g', a_name='e', b_name='h', vec_size=v2, a_units='s' if uk else None)
        return c
    ins = collections.OrderedDict([('a', shape), ('b', shape)])
    units = {'a': uk.get('a_units'), 'b': uk.get('b_units'), 'c': uk.get('c_units')}
    outs = ['c']
    if o['multi']:
        ins['d'] = shape
        ins['e'] = ins['h'] = shape2
        outs += ['c2', 'g']
        units.update({'d': None, 'e': 's' if uk else None, 'h': None, 'c2': None, 'g': None})

    def f(x):
        r = {'c': _cross(x['a'], x['b']).reshape(shape)}
        if o['multi']:
            r['c2'] = _cross(x['d'], x['b']).reshape(shape)
            r['g'] = _cross(x['e'], x['h']).reshape(shape2)
        return r
    return dict(comp=comp, ins=ins, outs=outs, f=f, units=units,
                cls='multi' if o['multi'] else 'single', default=(v == 1 and not uk))


def spec_matvec(o, pal):
    import openmdao.api as om
    v, (nr, nc) = o['vec'], o['A_shape']
    uk = _ukw(o, ('A_units', 'x_units', 'b_units'), ('N/m', 'm', 'N'))
    bshape = (v, nr) if v > 1 else (nr,)
    v2, nr2, nc2 = v % 3 + 1, nc, nr + 1
    bshape2 = (v2, nr2) if v2 > 1 else (nr2,)

    def comp():
        c = om.MatrixVectorProductComp(vec_size=v, A_shape=(nr, nc), **uk)
        if o['multi']:
            c.add_product('b2', A_name='A', x_name='x2', vec_size=v, A_shape=(nr, nc),
                          A_units=uk.get('A_units'), x_units='s' if uk else None)
            c.add_product('g', A_name='E', x_name='h', vec_size=v2, A_shape=(nr2, nc2))
        return c
    ins = collections.OrderedDict([('A', (v, nr, nc)), ('x', (v, nc))])
    units = {'A': uk.get('A_units'), 'x': uk.get('x_units'), 'b': uk.get('b_units')}
    outs = ['b']
    if o['multi']:
        ins['x2'] = (v, nc)
        ins['E'] = (v2, nr2, nc2)
        ins['h'] = (v2, nc2)
        outs += ['b2', 'g']
        units.update({'x2': 's' if uk else None, 'E': None, 'h': None, 'b2': None, 'g': None})

    def mv(A, x, shp):
        return np.sum(A * x[:, np.newaxis, :], axis=2).reshape(shp)

    def f(x):
        r = {'b': mv(x['A'], x['x'], bshape)}
        if o['multi']:
            r['b2'] = mv(x['A'], x['x2'], bshape)
            r['g'] = mv(x['E'], x['h'], bshape2)
        return r
    return dict(comp=comp, ins=ins, outs=outs, f=f, units=units,
                cls=('multi' if o['multi'] else 'single') + (':square' if nr == nc else ':rect'),
                default=(v == 1 and (nr, nc) == (3, 3) and not uk))


def spec_vecmag(o, pal):
    import openmdao.api as om
    v, ln = o['vec'], o['len']
    units = 'm' if o['units'] else None
    v2, ln2 = v % 3 + 1, ln % 3 + 1

    def comp():
        c = om.VectorMagnitudeComp(vec_size=v, length=ln, units=units)
        if o['multi']:
            c.add_magnitude('mag2', in_name='a', vec_size=v, length=ln, units=units)
            c.add_magnitude('g', in_name='e', vec_size=v2, length=ln2, units='s' if units else None)
        return c
    ins = collections.OrderedDict([('a', (v, ln))])
    un = {'a': units, 'a_mag': units}
    outs = ['a_mag']
    if o['multi']:
        ins['e'] = (v2, ln2)
        outs += ['mag2', 'g']
        un.update({'mag2': units, 'e': 's' if units else None, 'g': 's' if units else None})

    def f(x):
        r = {'a_mag': np.sqrt(np.sum(x['a'] * x['a'], axis=1))}
        if o['multi']:
            r['mag2'] = np.sqrt(np.sum(x['a'] * x['a'], axis=1))
            r['g'] = np.sqrt(np.sum(x['e'] * x['e'], axis=1))
        return r
    return dict(comp=comp, ins=ins, outs=outs, f=f, units=un,
                cls='multi' if o['multi'] else 'single', default=(v == 1 and ln == 3 and not units))


_RHS = [[-3.0, 0.5, 2.0], [2.5, -2.0, 0.0], [-1.25, 4.0, 1.75], [2.0, -0.25, -5.0]]


def _fnorm(r, normalize):
    if not normalize:
        return np.ones_like(r)
    a = _cabs(r)
    return np.where(np.real(a) >= 2, a, 0.25 * r * r + 1.0)


def spec_eq(o, pal):
    import openmdao.api as om
    n, um, nz, form = o['n'], o['use_mult'], o['normalize'], o['form']
    units = 'm' if o['units'] else None
    rhs = np.array((_RHS[o['rhs']] * 2)[pal % 3:pal % 3 + n])
    mult_val = 1.5
    names = ('L', 'R', 'M') if o['names'] else ('lhs:y', 'rhs:y', 'mult:y')

    def comp():
        kw = dict(eq_units=units, use_mult=um, normalize=nz, shape=(n,))
        if o['names']:
            kw.update(lhs_name='L', rhs_name='R', mult_name='M')
        if o['defaults']:
            kw.update(rhs_val=rhs if o['rhs'] % 2 else float(rhs[0]), mult_val=mult_val)
        if form == 'ctor':
            c = om.EQConstraintComp('y', **kw)
        else:
            c = om.EQConstraintComp()
            c.add_eq_output('y', **kw)
        if o['two']:
            c.add_eq_output('z', eq_units='s' if units else None, use_mult=not um, normalize=not nz,
                            val=np.ones(2))
        return c
    ins = collections.OrderedDict([(names[0], (n,)), (names[1], (n,))])
    if um:
        ins[names[2]] = (n,)
    un = {names[0]: units, names[1]: units, names[2]: None, 'y': None}
    outs = ['y']
    if o['two']:
        ins['lhs:z'] = ins['rhs:z'] = (2,)
        if not um:
            ins['mult:z'] = (2,)
        outs.append('z')
        un.update({'lhs:z': 's' if units else None, 'rhs:z': 's' if units else None, 'mult:z': None,
                   'z': None})

    def f(x):
        m = x[names[2]] if um else 1.0
        r = {'y': (m * x[names[0]] - x[names[1]]) / _fnorm(x[names[1]], nz)}
        if o['two']:
            m2 = x['mult:z'] if not um else 1.0
            r['z'] = (m2 * x['lhs:z'] - x['rhs:z']) / _fnorm(x['rhs:z'], not nz)
        return r
    fixed = {names[1]: rhs}
    if o['two']:
        fixed['rhs:z'] = np.array([-2.0, 1.0])
    keep = {}
    if o['defaults']:
        # leave rhs (and mult) at the declared defaults: they must equal rhs_val / mult_val
        keep[names[1]] = (rhs if o['rhs'] % 2 else np.full(n, float(rhs[0])))
        if um:
            keep[names[2]] = np.full(n, mult_val)
    return dict(comp=comp, ins=ins, outs=outs, f=f, units=un, fixed=fixed, keep=keep,
                cls='%s:mult%d:norm%d%s' % (form, um, nz, ':defaults' if o['defaults'] else ''),
                vcls='mult%d:norm%d' % (um, nz), default=False)


def spec_linsys(o, pal):
    import openmdao.api as om
    size, v, vecA = o['size'], o['vec'], o['vecA']
    vA = v if vecA else 1
    bshape = (v, size) if v > 1 else (size,)
    Ashape = (vA, size, size) if vA > 1 else (size, size)

    def comp():
        return om.LinearSystemComp(size=size, vec_size=v, vectorize_A=vecA)
    ins = collections.OrderedDict([('A', Ashape), ('b', bshape)])
    A0 = _vals(Ashape, 5, pal) / 8.0
    eye = np.diag(4.0 + np.arange(size))
    A0 = A0 + (eye if vA == 1 else eye[np.newaxis, :, :])

    def f(x):
        A = x['A'].reshape((vA, size, size))
        b = x['b'].reshape((v, size))
        return {'x': np.stack([np.linalg.solve(A[k if vA > 1 else 0], b[k]) for k in range(v)]
                              ).reshape(bshape)}
    return dict(comp=comp, ins=ins, outs=['x'], f=f, units={'A': None, 'b': None, 'x': None},
                fixed={'A': A0}, tol=1e-10, implicit_state='x',
                cls='vec%s:%s' % ('1' if v == 1 else 'N', 'vecA' if vecA else 'sharedA'),
                default=(size == 1 and v == 1 and not vecA))


_SPECS = {'AddSubtractComp': spec_addsub, 'MuxComp': spec_mux, 'DotProductComp': spec_dot,
          'CrossProductComp': spec_cross, 'MatrixVectorProductComp': spec_matvec,
          'VectorMagnitudeComp': spec_vecmag, 'EQConstraintComp': spec_eq,
          'LinearSystemComp': spec_linsys}


# ================================================================== generic driver

def _units_meta(p):
    meta = p.model.get_io_metadata(metadata_keys=['units'])
    return {k.split('.', 1)[1]: v['units'] for k, v in meta.items() if k.startswith('c.')}


def run_generic(acc, fam, o, pal):
    import openmdao.api as om
    case = {'fam': fam, 'opt': o, 'pal': pal, 'single': True}
    try:
        sp = _SPECS[fam](o, pal)
    except Exception as exc:      # the spec builder only touches harness code
        raise
    cls = sp['cls']             # outcome label class
    vcls = sp.get('vcls', cls)  # coarse structural class used in violation signatures
    tol = sp.get('tol', 1e-12)
    x = {}
    for i, (nm, shp) in enumerate(sp['ins'].items()):
        x[nm] = _vals(shp, i + 1, pal)
    x.update({k: np.asarray(v, dtype=float) for k, v in sp.get('fixed', {}).items()})
    keep = sp.get('keep', {})
    x.update({k: np.asarray(v, dtype=float) for k, v in keep.items()})
    ref = sp['f'](x)
    Jref = _cs_jac(sp['f'], x, list(sp['ins']), sp['outs'])
    nentries = sum(j.size for j in Jref.values())
    for mode in ('fwd', 'rev'):
        acc.evals += 1
        lab = '%s:%s:%s' % (fam, cls, mode)
        cls_ = cls
        try:
            with _quiet(), warnings.catch_warnings():
                warnings.simplefilter('ignore')
                p = om.Problem(reports=None)
                p.model.add_subsystem('c', sp['comp'](), promotes=['*'])
                p.setup(mode=mode)
                p.final_setup()
        except Exception as exc:
            acc.vio('C26:%s.setup_raises:%s:%s' % (fam, type(exc).__name__, vcls), '%s: %s' % (
                type(exc).__name__, str(exc)[:300]), case)
            acc.outcomes[fam + ':violation'] += 1
            continue
        ok = True
        um = _units_meta(p)
        bad = {k: (um.get(k), v) for k, v in sp['units'].items() if k in um and um.get(k) != v}
        if bad:
            acc.vio('C26:%s.units_meta:%s' % (fam, vcls), 'declared units (got, expected): %r' % bad, case)
            ok = False
        try:
            with _quiet(), warnings.catch_warnings():
                warnings.simplefilter('ignore')
                for nm, val in x.items():
                    if nm in keep:
                        got0 = np.asarray(p.get_val(nm))
                        if got0.shape != val.shape or not np.array_equal(got0, val):
                            acc.vio('C26:%s.default_value:%s' % (fam, vcls),
                                    'default of %s is %r, option says %r' % (nm, got0, val), case)
                            ok = False
                            p.set_val(nm, val)
                    else:
                        p.set_val(nm, val)
                p.run_model()
                outs = {of: np.asarray(p.get_val(of)).copy() for of in sp['outs']}
                J = p.compute_totals(of=sp['outs'], wrt=list(sp['ins']))
        except Exception as exc:
            acc.vio('C26:%s.run_raises:%s:%s' % (fam, type(exc).__name__, vcls), '%s: %s' % (
                type(exc).__name__, str(exc)[:300]), case)
            acc.outcomes[fam + ':violation'] += 1
            continue
        for of in sp['outs']:
            want = np.asarray(ref[of])
            if outs[of].shape != want.shape:
                acc.vio('C26:%s.shape:%s' % (fam, vcls), 'output %s has shape %s, formula %s' % (
                    of, outs[of].shape, want.shape), case)
                ok = False
            elif not np.all(np.abs(outs[of] - want) <= tol * max(1.0, np.abs(want).max())):
                acc.vio('C26:%s.value:%s' % (fam, vcls), 'output %s = %r, formula %r' % (
                    of, outs[of].tolist(), want.tolist()), case)
                ok = False
        for (of, wrt), want in Jref.items():
            got = np.asarray(J[of, wrt])
            scale = max(1.0, np.abs(want).max())
            if got.shape != want.shape:
                acc.vio('C26:%s.totals_shape:%s' % (fam, vcls), 'd%s/d%s shape %s expected %s' % (
                    of, wrt, got.shape, want.shape), case)
                ok = False
            elif not np.all(np.abs(got - want) <= tol * scale):
                r, c = [int(t) for t in np.argwhere(np.abs(got - want) > tol * scale)[0]]
                acc.vio('C26:%s.totals_%s:%s' % (fam, mode, vcls),
                        'd %s/d %s [%d,%d] = %r, exact (complex step on the formula) %r; %d entries '
                        'differ' % (of, wrt, r, c, float(got[r, c]), float(want[r, c]),
                                    int(np.sum(np.abs(got - want) > tol * scale))), case)
                ok = False
        st = sp.get('implicit_state')
        if st and ok:
            # residual formula R = A x - b at a non-solution state
            try:
                xs = _vals(np.shape(ref[st]), 9, pal)
                with _quiet():
                    p.set_val(st, xs)
                    p.model.run_apply_nonlinear()
                res = np.asarray(p.model.c._residuals[st]).copy()
                vA = x['A'].shape[0] if x['A'].ndim == 3 else 1
                size = x['A'].shape[-1]
                A3 = x['A'].reshape((vA, size, size))
                xs2 = xs.reshape((-1, size))
                want = np.stack([A3[k if vA > 1 else 0].dot(xs2[k]) for k in range(xs2.shape[0])]
                                ).reshape(xs.shape) - x['b']
                if res.shape != want.shape or not np.all(np.abs(res - want) <= 1e-12 * np.abs(
                        want).max()):
                    acc.vio('C26:%s.residual:%s' % (fam, vcls), 'R = %r, A x - b = %r' % (
                        res.tolist(), want.tolist()), case)
                    ok = False
            except Exception as exc:
                acc.vio('C26:%s.residual_raises:%s:%s' % (fam, type(exc).__name__, vcls), str(exc)[:300],
                        case)
                ok = False
        acc.nontriv += int(nentries > 1 and not sp['default'])
        acc.outcomes[lab if ok else fam + ':violation'] += 1


# ================================================================== BalanceComp

def run_balance(acc, o, pal):
    import openmdao.api as om
    fam = 'BalanceComp'
    case = {'fam': fam, 'opt': o, 'pal': pal, 'single': True}
    n, um, nz, form = o['n'], o['use_mult'], o['normalize'], o['form']
    units = 'm' if o['units'] else None
    rhs = np.array((_RHS[o['rhs']] * 2)[pal % 3:pal % 3 + n])
    lcls = '%s:mult%d:norm%d' % (form, um, nz)     # outcome label
    cls = form                                      # violation signature class
    setup_failed = False

    def comp(guess=None):
        kw = dict(use_mult=um, normalize=nz, val=np.ones(n), rhs_val=rhs, mult_val=1.5)
        if guess is not None:
            kw['guess_func'] = guess
        if form in ('ctor', 'add'):
            kw['eq_units'] = units
        else:       # units through the per-side keyword dictionaries
            if not form.endswith('rhs_kwargs'):
                kw['lhs_kwargs'] = {'units': units}
            kw['rhs_kwargs'] = {'units': 'cm' if units else None}
        if form.startswith('ctor'):
            return om.BalanceComp('x', **kw)
        gf = kw.pop('guess_func', None)
        c = om.BalanceComp(guess_func=gf) if gf is not None else om.BalanceComp()
        c.add_balance('x', **kw)
        return c
    want_units = {'lhs:x': None if form.endswith('rhs_kwargs') else units,
                  'rhs:x': units if form in ('ctor', 'add') else ('cm' if units else None),
                  'mult:x': None, 'x': None}
    lhs = _vals((n,), 1, pal)
    mult = _vals((n,), 3, pal) if um else np.ones(n)
    xin = {'lhs:x': lhs, 'rhs:x': rhs}
    if um:
        xin['mult:x'] = mult

    def f(x):
        m = x['mult:x'] if um else 1.0
        return {'R': (m * x['lhs:x'] - x['rhs:x']) / _fnorm(x['rhs:x'], nz)}
    Rref = f(xin)['R']
    Jref = _cs_jac(f, xin, list(xin), ['R'])
    for mode in ('fwd', 'rev'):
        acc.evals += 1
        try:
            with _quiet(), warnings.catch_warnings():
                warnings.simplefilter('ignore')
                p = om.Problem(reports=None)
                p.model.add_subsystem('c', comp(), promotes=['*'])
                p.setup(mode=mode)
                p.final_setup()
        except Exception as exc:
            acc.vio('C26:%s.setup_raises:%s:%s' % (fam, type(exc).__name__, cls), '%s: %s' % (
                type(exc).__name__, str(exc)[:300]), case)
            acc.outcomes[fam + ':violation'] += 1
            setup_failed = True
            continue
        ok = True
        um_ = _units_meta(p)
        bad = {k: (um_.get(k), v) for k, v in want_units.items() if k in um_ and um_.get(k) != v}
        if bad:
            acc.vio('C26:%s.units_meta:%s' % (fam, cls), 'declared units (got, expected): %r' % bad, case)
            ok = False
        try:
            with _quiet(), warnings.catch_warnings():
                warnings.simplefilter('ignore')
                d0 = np.asarray(p.get_val('rhs:x'))
                if not np.array_equal(d0, rhs):
                    acc.vio('C26:%s.default_value:%s' % (fam, cls), 'default rhs %r, rhs_val %r' % (
                        d0, rhs), case)
                    ok = False
                for nm, val in xin.items():
                    p.set_val(nm, val)
                p.set_val('x', _vals((n,), 7, pal))
                p.model.run_apply_nonlinear()
                c = p.model.c
                res = np.asarray(c._residuals['x']).copy()
                p.model.run_linearize()
                # operator extraction column by column / row by row
                Jgot = {}
                names = list(xin) + ['x']
                if mode == 'fwd':
                    for wrt in names:
                        M = np.zeros((n, n))
                        for k in range(n):
                            c._dinputs.set_val(0.0)
                            c._doutputs.set_val(0.0)
                            c._dresiduals.set_val(0.0)
                            vec = c._doutputs if wrt == 'x' else c._dinputs
                            vec[wrt][k] = 1.0
                            c.run_apply_linear('fwd')
                            M[:, k] = np.asarray(c._dresiduals['x'])
                        Jgot[wrt] = M
                else:
                    Ms = {wrt: np.zeros((n, n)) for wrt in names}
                    for k in range(n):
                        c._dinputs.set_val(0.0)
                        c._doutputs.set_val(0.0)
                        c._dresiduals.set_val(0.0)
                        c._dresiduals['x'][k] = 1.0
                        c.run_apply_linear('rev')
                        for wrt in names:
                            vec = c._doutputs if wrt == 'x' else c._dinputs
                            Ms[wrt][k, :] = np.asarray(vec[wrt])
                    Jgot = Ms
        except Exception as exc:
            acc.vio('C26:%s.run_raises:%s:%s' % (fam, type(exc).__name__, cls), '%s: %s' % (
                type(exc).__name__, str(exc)[:300]), case)
            acc.outcomes[fam + ':violation'] += 1
            continue
        if res.shape != Rref.shape or not np.all(np.abs(res - Rref) <= 1e-12 * max(1.0, np.abs(
                Rref).max())):
            acc.vio('C26:%s.residual:%s' % (fam, cls), 'R = %r, formula %r' % (res.tolist(),
                                                                             Rref.tolist()), case)
            ok = False
        for wrt in list(xin) + ['x']:
            want = Jref['R', wrt] if wrt != 'x' else np.zeros((n, n))
            got = Jgot[wrt]
            if not np.all(np.abs(got - want) <= 1e-12 * max(1.0, np.abs(want).max())):
                acc.vio('C26:%s.jac_%s:%s' % (fam, mode, cls), 'dR/d%s = %r, exact %r' % (
                    wrt, got.tolist(), want.tolist()), case)
                ok = False
        acc.nontriv += 1
        acc.outcomes[('%s:%s:%s' % (fam, lcls, mode)) if ok else fam + ':violation'] += 1
    if o.get('guess') and not setup_failed:
        # guess_func: called by Newton before the first iteration with the current inputs; the solve
        # of mult * (2 x) = rhs must still converge to rhs / (2 mult)
        acc.evals += 1
        calls = []

        def guess(inputs, outputs, residuals):
            calls.append(np.array(inputs['rhs:x']).copy())
            outputs['x'] = 7.5
        try:
            with _quiet(), warnings.catch_warnings():
                warnings.simplefilter('ignore')
                p = om.Problem(reports=None)
                p.model.add_subsystem('e', om.ExecComp('y=2*x', x={'shape': (n,)}, y={'shape': (n,)}))
                p.model.add_subsystem('c', comp(guess))
                p.model.connect('c.x', 'e.x')
                p.model.connect('e.y', 'c.lhs:x')
                p.model.linear_solver = om.DirectSolver()
                p.model.nonlinear_solver = om.NewtonSolver(solve_subsystems=False, maxiter=8, iprint=-1,
                                                           atol=1e-12, rtol=1e-14)
                p.setup()
                if um:
                    p.set_val('c.mult:x', mult)
                p.run_model()
                xs = np.asarray(p.get_val('c.x')).copy()
            want = rhs / (2.0 * mult)
            if not calls or not np.array_equal(calls[0], rhs):
                acc.vio('C26:%s.guess_func_not_called:%s' % (fam, cls), 'calls %r' % calls, case)
            elif not np.all(np.abs(xs - want) <= 1e-9 * max(1.0, np.abs(want).max())):
                acc.vio('C26:%s.balance_solution:%s' % (fam, cls), 'x = %r, rhs/(2 mult) = %r' % (
                    xs.tolist(), want.tolist()), case)
            else:
                acc.nontriv += 1
                acc.outcomes['%s:%s:guess+newton' % (fam, lcls)] += 1
        except Exception as exc:
            acc.vio('C26:%s.guess_raises:%s:%s' % (fam, type(exc).__name__, cls), '%s: %s' % (
                type(exc).__name__, str(exc)[:300]), case)


# ================================================================== SplineComp

_XCP = {4: [0.0, 1.0, 2.5, 4.0], 5: [0.0, 1.0, 2.5, 4.0, 5.0], 6: [-1.0, 0.0, 1.0, 2.5, 4.0, 5.0]}
_POLYDEG = {'slinear': 1, 'lagrange2': 2, 'lagrange3': 3, 'cubic': 1, 'akima': 1, 'bsplines': 0,
            'scipy_slinear': 1, 'scipy_cubic': 3, 'scipy_quintic': 5}
_LINEAR_IN_Y = ('slinear', 'lagrange2', 'lagrange3', 'cubic', 'bsplines', 'scipy_slinear',
                'scipy_cubic', 'scipy_quintic')


def run_spline(acc, o, pal):
    import openmdao.api as om
    fam = 'SplineComp'
    case = {'fam': fam, 'opt': o, 'pal': pal, 'single': True}
    method, ncp, v, gridform = o['method'], o['ncp'], o['vec'], o['grid']
    units = 'm' if o['units'] else None
    if gridform == 'num_cp' or method == 'bsplines':
        xcp = np.linspace(0.0, 1.0, ncp)
    else:
        xcp = np.array(_XCP[ncp])
    lo, hi = xcp[0], xcp[-1]
    # interpolation points: strictly inside, generic fractions of the range, plus (optionally) nodes
    fr = np.array([0.0625, 0.34375, 0.5625, 0.90625]) if o['xi'] == 'inner' else None
    xi = lo + fr * (hi - lo) if fr is not None else xcp.copy()
    lcls = '%s:%s:xi_%s' % (method, gridform, o['xi_type'])       # outcome label
    cls = 'xi_%s:%s' % (o['xi_type'], method if method in ('bsplines', 'akima') else 'table_methods')

    def comp():
        kw = dict(method=method, vec_size=v)
        kw['x_interp_val'] = xi.tolist() if o['xi_type'] == 'list' else xi
        if method == 'bsplines' or gridform == 'num_cp':
            kw['num_cp'] = ncp
        else:
            kw['x_cp_val'] = xcp.tolist() if o['xi_type'] == 'cp_list' else xcp
        c = om.SplineComp(**kw)
        c.add_spline('ycp', 'yint', y_units=units)
        if o['two']:
            c.add_spline('y2cp', 'y2int', y_cp_val=np.arange(1.0, v * ncp + 1).reshape((v, ncp)))
        return c
    ycp = _vals((v, ncp), 2, pal)
    nontriv = int(v > 1 or o['two'])
    for mode in ('fwd', 'rev'):
        acc.evals += 1
        try:
            with _quiet(), warnings.catch_warnings():
                warnings.simplefilter('ignore')
                p = om.Problem(reports=None)
                p.model.add_subsystem('c', comp(), promotes=['*'])
                p.setup(mode=mode, force_alloc_complex=(method == 'akima'))
                p.final_setup()
        except Exception as exc:
            acc.vio('C26:%s.setup_raises:%s:%s' % (fam, type(exc).__name__, cls), '%s: %s' % (
                type(exc).__name__, str(exc)[:300]), case)
            acc.outcomes[fam + ':violation'] += 1
            continue
        ok = True
        um_ = _units_meta(p)
        wantu = {'ycp': units, 'yint': units, 'y2cp': None, 'y2int': None}
        bad = {k: (um_.get(k), w) for k, w in wantu.items() if k in um_ and um_.get(k) != w}
        if bad:
            acc.vio('C26:%s.units_meta:%s' % (fam, cls), 'declared units (got, expected): %r' % bad, case)
            ok = False

        def ev(y):
            p.set_val('ycp', y)
            p.run_model()
            return np.asarray(p.get_val('yint')).copy()
        try:
            with _quiet(), warnings.catch_warnings():
                warnings.simplefilter('ignore')
                if o['two']:
                    d0 = np.asarray(p.get_val('y2cp'))
                    if not np.array_equal(d0, np.arange(1.0, v * ncp + 1).reshape((v, ncp))):
                        acc.vio('C26:%s.default_value:%s' % (fam, cls), 'y_cp_val not used', case)
                        ok = False
                y0 = ev(ycp)
                J = np.asarray(p.compute_totals(of=['yint'], wrt=['ycp'], return_format='array'))
                # (1) value oracles
                ref = None
                if method in ('slinear', 'scipy_slinear'):
                    ref = np.stack([np.interp(xi, xcp, ycp[k]) for k in range(v)])
                elif method == 'cubic':
                    from scipy.interpolate import CubicSpline
                    ref = np.stack([CubicSpline(xcp, ycp[k], bc_type='natural')(xi) for k in range(v)])
                if ref is not None and (y0.shape != ref.shape or not np.all(
                        np.abs(y0 - ref) <= 1e-10 * max(1.0, np.abs(ref).max()))):
                    acc.vio('C26:%s.value:%s' % (fam, cls), 'y_interp = %r, reference %r' % (
                        y0.tolist(), ref.tolist()), case)
                    ok = False
                if y0.shape != (v, len(xi)):
                    acc.vio('C26:%s.shape:%s' % (fam, cls), 'shape %s' % (y0.shape,), case)
                    ok = False
                if o['xi'] == 'nodes' and method != 'bsplines' and not np.all(
                        np.abs(y0 - ycp) <= 1e-10 * np.abs(ycp).max()):
                    acc.vio('C26:%s.interpolation:%s' % (fam, cls),
                            'at the control points y_interp = %r, y_cp = %r' % (y0.tolist(),
                                                                              ycp.tolist()), case)
                    ok = False
                # (2) polynomial reproduction; a different polynomial in every row
                deg = _POLYDEG[method]
                coef = _vals((v, deg + 1), 4, pal) / 4.0
                xs = (xcp - lo) / (hi - lo)
                xis = (xi - lo) / (hi - lo)
                ypoly = np.stack([np.polyval(coef[k], xs) for k in range(v)])
                want = np.stack([np.polyval(coef[k], xis) for k in range(v)])
                yp = ev(ypoly)
                if not np.all(np.abs(yp - want) <= 1e-10 * max(1.0, np.abs(want).max())):
                    acc.vio('C26:%s.poly_reproduction:%s' % (fam, cls),
                            'degree-%d polynomial data: y_interp = %r, polynomial %r' % (
                                deg, yp.tolist(), want.tolist()), case)
                    ok = False
                # (3) partials == exact derivative of the component's own output
                y0 = ev(ycp)
                J = np.asarray(p.compute_totals(of=['yint'], wrt=['ycp'], return_format='array'))
                Jex = np.zeros_like(J)
                if method in _LINEAR_IN_Y:
                    for k in range(ycp.size):
                        e = np.zeros(ycp.size)
                        e[k] = 1.0
                        Jex[:, k] = (ev(ycp + e.reshape(ycp.shape)) - y0).ravel()
                    ev(ycp)
                else:
                    p.set_complex_step_mode(True)
                    try:
                        for k in range(ycp.size):
                            yc = ycp.astype(complex).ravel()
                            yc[k] += 1e-30j
                            p.set_val('ycp', yc.reshape(ycp.shape))
                            p.run_model()
                            Jex[:, k] = np.asarray(p.get_val('yint')).ravel().imag / 1e-30
                    finally:
                        p.set_complex_step_mode(False)
                if J.shape != Jex.shape or not np.all(np.abs(J - Jex) <= 1e-10 * max(
                        1.0, np.abs(Jex).max())):
                    r, c_ = [int(t) for t in np.argwhere(np.abs(J - Jex) > 1e-10 * max(
                        1.0, np.abs(Jex).max()))[0]]
                    blk = 'off_block' if (r // len(xi)) != (c_ // ncp) else 'diag_block'
                    acc.vio('C26:%s.totals_%s:%s:%s' % (fam, mode, blk, cls),
                            'd yint/d ycp [%d,%d] = %r, exact derivative of the output %r' % (
                                r, c_, float(J[r, c_]), float(Jex[r, c_])), case)
                    ok = False
        except Exception as exc:
            acc.vio('C26:%s.run_raises:%s:%s' % (fam, type(exc).__name__, cls), '%s: %s' % (
                type(exc).__name__, str(exc)[:300]), case)
            acc.outcomes[fam + ':violation'] += 1
            continue
        acc.nontriv += nontriv
        acc.outcomes[('%s:%s:%s' % (fam, lcls, mode)) if ok else fam + ':violation'] += 1


# ================================================================== enumeration

def _prod(**axes):
    keys = list(axes)
    return [dict(zip(keys, t)) for t in itertools.product(*[axes[k] for k in keys])]


def enum_options(tier):
    T = tier == 'thorough'
    out = []
    vecs = [1, 2, 3]
    for o in _prod(vec=vecs, len=[1, 2, 3], nin=[2, 3], sf=['none', 'pal', 'pm'], units=[None, 'm'],
                   form=['ctor', 'add_eq', 'two_eq', 'dup'], complex=[False, True]):
        out.append(('AddSubtractComp', o))
    shapes = [(1,), (2,), (3,), (2, 2), (2, 3)] + ([(3, 2), (2, 2, 2), (1, 3)] if T else [])
    for shp in shapes:
        for ax in range(len(shp) + 1):
            for o in _prod(vec=vecs, units=[None, 'm'], two=[False, True],
                           shape_form=['tuple', 'list', 'val'] + (['int'] if len(shp) == 1 else [])):
                o.update(shape=list(shp), axis=ax)
                out.append(('MuxComp', o))
    for o in _prod(vec=vecs, len=[1, 2, 3, 4], units=[False, True], multi=[False, True]):
        out.append(('DotProductComp', o))
    for o in _prod(vec=vecs, units=[False, True], multi=[False, True]):
        out.append(('CrossProductComp', o))
    ash = [(1, 1), (2, 2), (2, 3), (3, 2), (3, 3), (1, 3), (3, 1)] + ([(4, 2), (2, 4)] if T else [])
    for o in _prod(vec=vecs, A_shape=ash, units=[False, True], multi=[False, True]):
        out.append(('MatrixVectorProductComp', o))
    for o in _prod(vec=vecs, len=[1, 2, 3], units=[False, True], multi=[False, True]):
        out.append(('VectorMagnitudeComp', o))
    for o in _prod(n=[1, 2, 3], use_mult=[False, True], normalize=[False, True], units=[False, True],
                   form=['ctor', 'add'], rhs=[0, 1, 2, 3], two=[False, True], names=[False, True],
                   defaults=[False, True]):
        out.append(('EQConstraintComp', o))
    for o in _prod(n=[1, 2, 3], use_mult=[False, True], normalize=[False, True], units=[False, True],
                   form=['ctor', 'add', 'ctor_kwargs', 'add_kwargs', 'ctor_rhs_kwargs', 'add_rhs_kwargs'],
                   rhs=[0, 1, 2, 3],
                   guess=[False, True]):
        out.append(('BalanceComp', o))
    for o in _prod(size=[1, 2, 3] + ([4] if T else []), vec=vecs, vecA=[False, True]):
        out.append(('LinearSystemComp', o))
    methods = ['slinear', 'lagrange2', 'lagrange3', 'cubic', 'akima', 'bsplines', 'scipy_slinear',
               'scipy_cubic', 'scipy_quintic']
    for o in _prod(method=methods, ncp=[5, 6] + ([4] if T else []), vec=vecs, grid=['x_cp', 'num_cp'],
                   xi=['inner', 'nodes'], xi_type=['array', 'list', 'cp_list'], units=[False, True],
                   two=[False, True]):
        if o['method'] == 'bsplines' and o['grid'] == 'x_cp':
            continue        # documented: x_cp_val is not valid for bsplines
        if o['method'] == 'scipy_quintic' and o['ncp'] < 6:
            continue        # scipy needs k+1 = 6 points for a quintic
        if o['xi_type'] == 'cp_list' and (o['grid'] == 'num_cp' or o['method'] == 'bsplines'):
            continue        # no x_cp_val to give as a list
        if not T and (o['units'] and o['two']):
            continue
        out.append(('SplineComp', o))
    return out


_ORDER = ['CrossProductComp', 'LinearSystemComp', 'VectorMagnitudeComp', 'DotProductComp',
          'MatrixVectorProductComp', 'MuxComp', 'AddSubtractComp', 'BalanceComp', 'EQConstraintComp',
          'SplineComp']       # smallest option spaces first


def cases(tier, seed):
    pal = seed % len(_MULTS)
    opts = sorted(enum_options(tier), key=lambda fo: _ORDER.index(fo[0]))      # stable sort
    pals = [pal] if tier == 'quick' else [(pal + k) % len(_MULTS) for k in range(len(_MULTS))]
    return [{'fam': fam, 'opt': o, 'pal': q} for q in pals for fam, o in opts]


def check_case(case):
    acc = _Acc()
    fam, o, pal = case['fam'], case['opt'], case['pal']
    if fam == 'BalanceComp':
        run_balance(acc, o, pal)
    elif fam == 'SplineComp':
        run_spline(acc, o, pal)
    else:
        run_generic(acc, fam, o, pal)
    return acc.result()
