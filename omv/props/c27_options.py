"""C27 - option declarations are enforced; temporary values always restored (DESIGN.md, C27).

Explicit-state search (engine E2) over operation histories on a real OptionsDictionary.  One runner
case = one declaration (or declaration pair); the whole breadth-first search for that declaration
runs inside `check_case`.  A state is the history that reaches it: every explored history is
replayed from scratch on a *fresh* OptionsDictionary and on the reference model (a dict plus a
predicate written from the docstring of `declare`) in lock-step; after the last step the public
observables (`opts[name]`, `name in opts`, `items()`) are compared, the state is canonicalised and
hashed, unseen states are queued.  A violating history is not extended (implementation and
reference have diverged) and is reported as a small replayable case {'opts', 'history'}.
"""
import collections
import itertools
import warnings

ID = 'C27'
LEVEL = 'model_checking'
TECHNIQUE = ('explicit-state breadth-first search over operation histories (assign / set / update / '
             'temporary enter / normal exit / exit by exception / nested temporary / failed entry / '
             'undeclare) on a fresh real OptionsDictionary per history, reference dict + predicate in '
             'lock-step, canonical state hashing')
RULE = ('one case = one declaration (kind x bounds x allow_none x default x check_valid/set_function/'
        'deprecation x read_only; complete product) or one pair of declarations (incl. deprecation '
        'alias); all histories up to the depth bound over the operation alphabet, pruned by state '
        'hash; non-trivial transition = an operation the reference rejects (the previous values must '
        'survive) or a context exit / failed entry that has to restore a value different from the '
        'temporary one; distinct = distinct canonical states')
LEVEL_TEXT = ('Every history of option operations up to the depth bound is executed on the real '
              'OptionsDictionary for every declaration of a bounded declaration alphabet and compared '
              'step by step with a reference dictionary; the state space per declaration is finite '
              '(value palette x stack of open temporary contexts) and is explored completely up to '
              'the bound, which is what a state-dependent defect (restore after exception, restore '
              'order, partial entry) needs.')
LEVEL_NOTE = ('Reference = dict + predicate from the docstring of declare(); Python `in`, `isinstance` '
              'and `<`/`>` are trusted; histories longer than the bound and values outside the '
              'palettes are not covered.')
ASSUMPTIONS = [
    'validity predicate from declare(): value in values / isinstance(value, types) / lower <= value '
    '<= upper / allow_none admits None regardless of values, types and bounds / check_valid must not '
    'raise; both values and types given is a declaration error; a given default must be valid',
    'a rejected operation must raise some Exception (the class is recorded in the outcome histogram '
    'but not demanded: the statement does not name classes) and leave every option unchanged',
    'temporary(**kw): all kw valid -> values set, restored at exit (normal or by exception, the '
    'exception must propagate); some kw invalid -> raises and no option is left changed',
    'set()/update() with several options of which a later one is invalid: must raise, the invalid '
    'one keeps its value, the valid ones may be old or new (atomicity is not stated)',
    'excluded corners (statement silent): types=bool or numeric values with values that == a member '
    'but have another type (1, 0.0, True); types=list together with values; bounds on non-numeric '
    'options; None for an option without types/values and allow_none=False; temporary() on an '
    'option that has never been set; set_function that changes validity (the normaliser used maps '
    'int -> float only); check_valid that rejects None; undeclare of an alias target or while a '
    'context is open; number of deprecation warnings',
    'the private _context_cache is part of the canonical state but a stale cache alone is not '
    'reported (not observable through the public API); it is counted as outcome stale_private_cache',
]
MIN_NONTRIVIAL = {'quick': 350000, 'thorough': 1700000}
CHUNK = 1

_UNSET = '<unset>'
_DEPTH = {'quick': 4, 'thorough': 5}
_MAXV_PER_SIG = 2


class _Boom(Exception):
    """exception raised 'inside the with block'"""


class _Odd(ValueError):
    pass


def _check_valid_odd(name, value):
    # rejects odd ints only (accepts None and every non-int: those are the business of types)
    if isinstance(value, int) and not isinstance(value, bool) and value % 2 == 1:
        raise _Odd('odd value %r for %s' % (value, name))


def _set_function_float(meta, value):
    # idempotent normaliser that does not change validity: int -> float
    if isinstance(value, int) and not isinstance(value, bool):
        return float(value)
    return value


# --------------------------------------------------------------------------- declaration alphabet

_KINDS = ['int', 'intfloat', 'str', 'list', 'bool', 'vnum', 'vstr', 'vnumlist', 'vstrset', 'free']
_TYPES = {'int': int, 'intfloat': (int, float), 'str': str, 'list': list, 'bool': bool}
_VALUES = {'vnum': (1, 2, 3), 'vstr': ('a', 'b'), 'vnumlist': [1, 2, 3], 'vstrset': {'a', 'b'}}

# value palettes: (valid, valid2, low-boundary, high-boundary, below, above, wrong-type, ...)
# four palettes per kind, selected by seed % 4; boundaries 0 and 10 are fixed by the declarations.
_PAL = {
    'int': [[2, 7, 0, 10, -1, 11, 2.5, 'q', None], [4, 3, 0, 10, -2, 12, 0.5, 'z', None],
            [6, 5, 0, 10, -3, 13, 1.5, 'w', None], [8, 9, 0, 10, -5, 15, 7.5, 'k', None]],
    'intfloat': [[2, 7.5, 0, 10, -1, 10.5, 'q', None, [1]], [4, 3.25, 0, 10, -0.5, 12, 'z', None, [2]],
                 [6, 5.5, 0, 10, -3, 10.25, 'w', None, (1,)], [8, 9.75, 0, 10, -5.5, 15, 'k', None, [0]]],
    'str': [['a', 'b', '', 5, None, ['a']], ['x', 'yy', '', 7, None, ['x']],
            ['p', 'a b', '', 2.5, None, ('p',)], ['m', 'N', '', 0, None, ['m', 'N']]],
    'list': [[[1, 2], [], ['x'], (1, 2), 'ab', None, 3], [[3], [], [None], (3,), 'c', None, 1.5],
             [[2, 1], [], [[1]], (), 'ab', None, 0], [['a', 'b'], [], [0], ('a',), 'a', None, 7]],
    'bool': [[True, False, 'a', 2, None], [False, True, 'True', 3, None],
             [True, False, '', -1, None], [False, True, 'b', 2.5, None]],
    'vnum': [[1, 3, 2, 0, 4, 'a', None, 2.5], [2, 1, 3, 0, 5, '1', None, 1.5],
             [3, 2, 1, -1, 4, 'b', None, 0.5], [1, 2, 3, 10, 4, '', None, 3.5]],
    'vstr': [['a', 'b', 'c', '', 1, None], ['b', 'a', 'ab', 'A', 2, None],
             ['a', 'b', 'B', ' a', 0, None], ['b', 'a', 'aa', 'd', 3, None]],
    'free': [[1, 'a', [1], 2.5], [2, 'b', [2], 0.5], [3, 'c', (1,), 1.5], [4, 'd', [], 3.5]],
}
_PAL['vnumlist'] = _PAL['vnum']
_PAL['vstrset'] = _PAL['vstr']


def _opt(name, kind, lower=None, upper=None, allow_none=False, default='undef', extra=None,
         alias=None):
    return {'name': name, 'kind': kind, 'lower': lower, 'upper': upper, 'allow_none': allow_none,
            'default': default, 'extra': extra, 'alias': alias}


def _single_decls():
    out = []
    for kind in _KINDS:
        if kind in ('int', 'intfloat', 'vnumlist'):
            bounds = [(None, None), (0, None), (None, 10), (0, 10)]
        elif kind == 'vnum':
            bounds = [(None, None), (2, None), (None, 2)]
        else:
            bounds = [(None, None)]
        extras = [None, 'deprecation']
        if kind in ('int', 'intfloat'):
            extras.append('check_valid')
        if kind == 'intfloat':
            extras.append('set_function')
        defaults = ['undef', 'valid', 'none', 'invalid']
        if kind == 'free':
            defaults = ['undef', 'valid', 'none']
        for (lo, up), an, df, ex, ro in itertools.product(bounds, (False, True), defaults, extras,
                                                          (False, True)):
            out.append({'read_only': ro,
                        'opts': [_opt('a', kind, lo, up, an, df, ex)]})
    # declaration errors: both types and values
    for kind in ('int', 'str', 'intfloat'):
        out.append({'read_only': False, 'opts': [dict(_opt('a', kind), both=True)]})
    return out


def _pair_decls():
    A = [_opt('a', 'int', 0, 10, default='valid'),
         _opt('a', 'intfloat', 0, 10, default='valid', extra='set_function'),
         _opt('a', 'vnum', default='valid'),
         _opt('a', 'int', default='valid', extra='check_valid'),
         _opt('a', 'int', None, 10, allow_none=True, default='none')]
    B = [_opt('b', 'vstr', default='valid'),
         _opt('b', 'str', default='valid', allow_none=True),
         _opt('b', 'int', 0, None, default='undef'),
         _opt('b', 'list', default='valid', extra='deprecation'),
         _opt('old', 'str', alias='a'),
         _opt('old', 'free', default='valid', alias='a')]
    out = []
    for a, b in itertools.product(A, B):
        out.append({'read_only': False, 'opts': [a, b]})
    out.append({'read_only': True, 'opts': [A[0], B[0]]})
    out.append({'read_only': True, 'opts': [A[0], B[4]]})
    return out


def cases(tier, seed):
    out = []
    depth = _DEPTH[tier]
    pal = seed % 4
    for d in _single_decls():
        out.append(dict(d, kind='bfs', depth=depth, pal=pal))
    for d in _pair_decls():
        out.append(dict(d, kind='bfs', depth=depth - 1, pal=pal))    # pairs: 3 (quick) / 4 (thorough)
    return out


# --------------------------------------------------------------------------- reference model

def _ref_valid(o, v):
    """The predicate of declare()'s docstring."""
    kind = o['kind']
    if not (v is None and o['allow_none']):
        if kind in _VALUES:
            try:
                if v not in _VALUES[kind]:
                    return False
            except TypeError:       # unhashable against a set of values: certainly not a member
                return False
        elif kind in _TYPES:
            if not isinstance(v, _TYPES[kind]):
                return False
        if o['upper'] is not None and v > o['upper']:
            return False
        if o['lower'] is not None and v < o['lower']:
            return False
    if o['extra'] == 'check_valid':
        if isinstance(v, int) and not isinstance(v, bool) and v % 2 == 1:
            return False
    return True


def _palette(o, pal):
    """Candidate values for option o that are inside the stated alphabet (silent corners removed)."""
    # (non-numeric candidates against bounded options are always rejected by types/values before a
    # bound comparison would be made, so they stay in the alphabet; None for an unconstrained option
    # is only a candidate when allow_none is declared)
    keep = list(_PAL[o['kind']][pal])
    if o['kind'] == 'free' and o['allow_none']:
        keep.append(None)
    return keep


def _valid_values(o, pal):
    return [v for v in _palette(o, pal) if _ref_valid(o, v)]


def _default_of(o, pal):
    """(provided, value) for the declaration; 'invalid' picks the first invalid palette value that
    is not None"""
    df = o['default']
    if df == 'undef':
        return False, None
    if df == 'none':
        return True, None
    if df == 'valid':
        vv = [v for v in _valid_values(o, pal) if v is not None]
        if o['extra'] == 'set_function':
            vv = [v for v in vv if isinstance(v, float)] or vv
        return (True, vv[0]) if vv else (False, None)
    for v in _palette(o, pal):
        if v is not None and not _ref_valid(o, v):
            return True, v
    return False, None


def _norm(o, v):
    if o['extra'] == 'set_function' and isinstance(v, int) and not isinstance(v, bool):
        return float(v)
    return v


class Ref(object):
    """dict + predicate.  vals: name -> value or _UNSET for every declared non-alias option."""

    def __init__(self, opts, read_only, pal):
        self.read_only = read_only
        self.meta = {}
        self.vals = {}
        self.alias = {}
        self.stack = []       # open contexts: list of (keys, saved {target: value})
        self.decl_ok = True
        self.pal = pal
        self.after = ''      # '+after_unwound_context' once the history contains an exception exit
        #                      or a failed entry: goes into the signatures of later context exits
        #                      (and into the canonical state)
        for o in opts:
            allow_none = o['allow_none']
            prov, dv = _default_of(o, pal)
            if prov and dv is None:
                allow_none = True       # "specifying default=None implies allow_none"
            o = dict(o, allow_none=allow_none)
            if o.get('both'):
                self.decl_ok = False
            if prov and not _ref_valid(o, dv):
                self.decl_ok = False
            self.meta[o['name']] = o
            if o['alias']:
                self.alias[o['name']] = o['alias']
            else:
                self.vals[o['name']] = dv if prov else _UNSET

    def target(self, name):
        return self.alias.get(name, name)

    def declared(self, name):
        if name in self.alias:
            return self.alias[name] in self.vals
        return name in self.vals

    def ok(self, name, v):
        """would `opts[name] = v` be accepted?"""
        if not self.declared(name) or self.read_only:
            return False
        return _ref_valid(self.meta[self.target(name)], v)

    def store(self, name, v):
        t = self.target(name)
        self.vals[t] = _norm(self.meta[t], v)


# --------------------------------------------------------------------------- implementation driver

class Impl(object):
    def __init__(self, opts, read_only, pal):
        from openmdao.utils.options_dictionary import OptionsDictionary
        self.od = OptionsDictionary(read_only=read_only)
        self.stack = []
        self.decl_exc = None
        for o in opts:
            kw = {}
            if o['kind'] in _TYPES:
                kw['types'] = _TYPES[o['kind']]
            if o['kind'] in _VALUES:
                kw['values'] = _VALUES[o['kind']]
            if o.get('both'):
                kw['values'] = (1, 2, 3) if o['kind'] != 'str' else ('a', 'b')
            if o['lower'] is not None:
                kw['lower'] = o['lower']
            if o['upper'] is not None:
                kw['upper'] = o['upper']
            if o['allow_none']:
                kw['allow_none'] = True
            prov, dv = _default_of(o, pal)
            if prov:
                kw['default'] = dv
            if o['extra'] == 'check_valid':
                kw['check_valid'] = _check_valid_odd
            elif o['extra'] == 'set_function':
                kw['set_function'] = _set_function_float
            elif o['extra'] == 'deprecation':
                kw['deprecation'] = 'option %s is deprecated' % o['name']
            if o['alias']:
                kw['deprecation'] = ('option %s is deprecated' % o['name'], o['alias'])
            try:
                self.od.declare(o['name'], **kw)
            except Exception as exc:
                self.decl_exc = exc
                break

    def get(self, name):
        try:
            return ('val', self.od[name])
        except Exception as exc:
            return ('raises', type(exc).__name__)

    def apply(self, op):
        """returns ('ok', info) or ('raised', classname)"""
        k = op[0]
        od = self.od
        try:
            if k == 'assign':
                od[op[1]] = op[2]
            elif k == 'set':
                od.set(**dict((a, b) for a, b in op[1]))
            elif k == 'update':
                od.update(dict((a, b) for a, b in op[1]))
            elif k == 'enter':
                cm = od.temporary(**dict((a, b) for a, b in op[1]))
                cm.__enter__()
                self.stack.append(cm)
            elif k == 'exit':
                cm = self.stack.pop()
                r = cm.__exit__(None, None, None)
                return ('ok', bool(r))
            elif k == 'exit_exc':
                cm = self.stack.pop()
                exc = _Boom('raised inside the with block')
                r = cm.__exit__(_Boom, exc, None)
                return ('ok', bool(r))     # True would mean: exception swallowed
            elif k == 'undeclare':
                od.undeclare(op[1])
            elif k == 'get_undeclared':
                od['zz']
            elif k == 'set_undeclared':
                od['zz'] = 1
            else:
                raise RuntimeError('harness: unknown op %r' % (op,))
        except _Boom:
            return ('raised', '_Boom')
        except Exception as exc:
            return ('raised', type(exc).__name__)
        return ('ok', None)


def _same(a, b):
    if a is _UNSET or b is _UNSET:
        return a is b
    return type(a) is type(b) and a == b


def _r(v):
    return _UNSET if v is _UNSET else repr(v)


def _ctx_class(ref, keys):
    al = [k for k in keys if k in ref.alias]
    if al:
        tg = [k for k in keys if k not in ref.alias]
        return 'alias_and_target' if tg else 'alias_only'
    return 'one_option' if len(keys) == 1 else 'two_options'


def _vclass(ref, name, v):
    """structural class of a candidate value (for signatures)"""
    if not ref.declared(name):
        return 'undeclared'
    o = ref.meta[ref.target(name)]
    if v is None:
        return 'None'
    if _ref_valid(o, v):
        return 'valid'
    o2 = dict(o, lower=None, upper=None, extra=None)
    if not _ref_valid(o2, v):
        return 'wrong_type' if o['kind'] in _TYPES else 'not_in_values'
    o3 = dict(o, extra=None)
    if not _ref_valid(o3, v):
        return 'out_of_bounds'
    return 'check_valid'


def step(ref, impl, op):
    """Apply op to implementation and reference, compare.  Returns (violations, label, nontrivial).
    violations: list of (what, cls, msg)."""
    k = op[0]
    vio = []
    before = dict(ref.vals)
    admissible = None          # name -> list of admissible values (only for loose set/update)
    nontrivial = 0
    expect_raise = False
    label = k
    opcls = k

    if k in ('assign', 'set', 'update'):
        items = [(op[1], op[2])] if k == 'assign' else [tuple(x) for x in op[1]]
        oks = [ref.ok(n, v) for n, v in items]
        opcls = k + ('' if len(items) == 1 else str(len(items)))
        vcls = '+'.join(_vclass(ref, n, v) for n, v in items)
        if all(oks):
            for n, v in items:
                ref.store(n, v)
            label = k + ':accepted'
        else:
            expect_raise = True
            nontrivial = 1
            label = k + ':rejected:' + vcls
            if len(items) > 1:
                # valid members may or may not have been applied (atomicity is not stated)
                admissible = {}
                for (n, v), okv in zip(items, oks):
                    if okv:
                        t = ref.target(n)
                        admissible[t] = [before[t], _norm(ref.meta[t], v)]
        opcls += ':' + vcls
    elif k == 'enter':
        items = [tuple(x) for x in op[1]]
        oks = [ref.ok(n, v) for n, v in items]
        cc = _ctx_class(ref, [n for n, _ in items])
        vcls = '+'.join(_vclass(ref, n, v) for n, v in items)
        opcls = 'enter:' + cc + ':' + vcls
        if all(oks):
            for n, v in items:
                ref.store(n, v)
            # what has to come back at exit: the pre-entry value of every option named in the call
            saved = {ref.target(n): before[ref.target(n)] for n, _ in items}
            ref.stack.append(([n for n, _ in items], saved, cc))
            label = 'enter:ok:' + cc
        else:
            expect_raise = True
            nontrivial = 1
            label = 'enter:rejected:' + cc + ':' + vcls
            opcls = 'failed_entry:' + cc
            ref.after = '+after_unwound_context'
    elif k in ('exit', 'exit_exc'):
        keys, saved, cc = ref.stack.pop()
        changed = any(not _same(saved[t], ref.vals[t]) for t in saved)
        nontrivial = int(changed)
        for t in saved:
            ref.vals[t] = saved[t]
        opcls = k + ref.after + ':' + cc
        label = k + ':' + cc + (':restores' if changed else ':noop')
        if k == 'exit_exc':
            ref.after = '+after_unwound_context'
    elif k == 'undeclare':
        ref.vals.pop(op[1], None)
        label = 'undeclare'
    elif k in ('get_undeclared', 'set_undeclared'):
        expect_raise = True
        nontrivial = 1
        label = k

    res = impl.apply(op)

    def V(what, msg):
        vio.append((what, opcls, msg))

    if expect_raise:
        if res[0] != 'raised':
            V('accepts_invalid', 'operation %r was accepted but the declaration rejects it' % (op,))
        else:
            label += ':' + res[1]
    else:
        if res[0] == 'raised':
            if k in ('exit', 'exit_exc'):
                V('exit_raises', 'context exit raised %s' % res[1])
            else:
                V('rejects_valid', 'operation %r raised %s but the declaration admits it' % (
                    op, res[1]))
        elif k == 'exit_exc' and res[1]:
            V('exception_swallowed', 'the exception raised inside the with block did not propagate')

    # ---- observables (only when the accept/reject decision was right: otherwise everything
    # after it is a consequence of the reported violation)
    if not vio:
        for name in list(ref.meta):
            t = ref.target(name)
            got = impl.get(name)
            if t not in ref.vals:          # undeclared
                if got[0] != 'raises':
                    V('undeclared_readable', 'opts[%r] returned %r after undeclare' % (name, got[1]))
                if name in impl.od and name == t:
                    V('undeclared_contained', '%r in opts after undeclare' % name)
                continue
            want = ref.vals[t]
            if admissible and t in admissible:
                if got[0] == 'val' and any(_same(got[1], w) for w in admissible[t]):
                    ref.vals[t] = got[1]
                    continue
                if got[0] == 'raises' and any(w is _UNSET for w in admissible[t]):
                    continue
                V('value_after_failed_multi_set', 'opts[%r] = %r, admissible %r' % (
                    name, got, admissible[t]))
                continue
            if want is _UNSET:
                if got[0] != 'raises':
                    V('unset_readable', 'opts[%r] returned %r for a required option that was never '
                      'set' % (name, got[1]))
                continue
            if got[0] != 'val' or not _same(got[1], want):
                shown = got[1] if got[0] == 'val' else 'raises ' + got[1]
                if k in ('exit', 'exit_exc'):
                    what = 'not_restored'
                elif k == 'enter' and expect_raise:
                    what = 'not_restored'
                    vio.append((what, opcls, 'after failed temporary(%s) opts[%r] = %r, before the '
                                'call it was %r' % (', '.join('%s=%r' % tuple(x) for x in op[1]),
                                                    name, shown, want)))
                    continue
                elif expect_raise:
                    what = 'value_changed_by_rejected_op'
                else:
                    what = 'wrong_value'
                V(what, 'after %r opts[%r] = %r, expected %r' % (op, name, shown, want))
        # items() must agree with __getitem__ for set, non-deprecated-alias options
        try:
            its = dict(impl.od.items())
            for t, want in ref.vals.items():
                if want is _UNSET:
                    continue
                if t not in its or not _same(its[t], want):
                    if not any(v[0] in ('not_restored', 'wrong_value', 'value_changed_by_rejected_op',
                                        'value_after_failed_multi_set') for v in vio):
                        V('items_differ', 'items()[%r] = %r, expected %r' % (t, its.get(t), want))
        except Exception as exc:
            V('items_raises', '%s' % type(exc).__name__)
    if not ref.stack and impl.od._context_cache and not vio:
        label += ':stale_private_cache'
    return vio, label, nontrivial


def _canon(ref, impl):
    """Canonical state.  Public part: values (repr incl. type) of every option, open contexts with
    their keys and saved values.  Private part kept to be over-fine: has_been_set flags,
    _context_cache, deprecation-warned flags (cannot hide anything, only costs states)."""
    od = impl.od
    pub = tuple((n, _r(v)) for n, v in sorted(ref.vals.items()))
    stk = tuple((tuple(keys), tuple((t, _r(v)) for t, v in sorted(saved.items())))
                for keys, saved, _ in ref.stack)
    priv = tuple((n, repr(m['val']) if m['has_been_set'] else _UNSET, m['has_been_set'],
                  None if m['deprecation'] is None else m['deprecation'][2])
                 for n, m in sorted(od._dict.items()))
    cache = repr(sorted(od._context_cache.items()))
    return (pub, stk, priv, cache, ref.after)


def _ops(ref, pal):
    """Operation alphabet enabled in the reference state."""
    out = []
    names = [n for n in ref.meta if ref.declared(n)]
    real = [n for n in names if n not in ref.alias]
    pals = {n: _palette(ref.meta[ref.target(n)], pal) for n in names}
    valid = {n: [v for v in pals[n] if _ref_valid(ref.meta[ref.target(n)], v)] for n in names}
    invalid = {n: [v for v in pals[n] if not _ref_valid(ref.meta[ref.target(n)], v)]
               for n in names}
    isset = {n: ref.vals[ref.target(n)] is not _UNSET for n in names}
    for n in names:
        for v in pals[n]:
            out.append(['assign', n, v])
    for n in names:
        for v in (valid[n][1:2] + invalid[n][:1]):
            out.append(['set', [[n, v]]])
            out.append(['update', [[n, v]]])
    # temporary contexts (only on options that have a value: temporary() of a never-set option is
    # outside the statement)
    for n in names:
        if not isset[n]:
            continue
        for v in valid[n][:3] + invalid[n][:2]:
            out.append(['enter', [[n, v]]])
    if len(names) == 2:
        a, b = names
        if isset[a] and isset[b] and valid[a] and valid[b]:
            va, vb = valid[a][min(1, len(valid[a]) - 1)], valid[b][min(1, len(valid[b]) - 1)]
            vb2 = valid[b][0]
            out.append(['enter', [[a, va], [b, vb]]])
            out.append(['enter', [[b, vb2], [a, va]]])
            if invalid[b]:
                out.append(['enter', [[a, va], [b, invalid[b][0]]]])     # invalid second option
            if invalid[a]:
                out.append(['enter', [[a, invalid[a][0]], [b, vb]]])     # invalid first option
                out.append(['enter', [[b, vb], [a, invalid[a][-1]]]])
        if valid[a] and valid[b]:
            va, vb = valid[a][-1], valid[b][-1]
            out.append(['set', [[a, va], [b, vb]]])
            out.append(['update', [[b, vb], [a, va]]])
            if invalid[b]:
                out.append(['set', [[a, va], [b, invalid[b][-1]]]])
                out.append(['update', [[a, va], [b, invalid[b][-1]]]])
            if invalid[a]:
                out.append(['set', [[a, invalid[a][0]], [b, vb]]])
    if ref.stack:
        out.append(['exit'])
        out.append(['exit_exc'])
    elif not ref.alias:
        for n in real:
            out.append(['undeclare', n])
    out.append(['get_undeclared'])
    out.append(['set_undeclared'])
    return out


def replay(opts, read_only, pal, history):
    """Fresh objects, replay history in lock-step.  Returns (ref, impl, violations_of_last_step,
    label, nontrivial, index of first violating step or None)."""
    ref = Ref(opts, read_only, pal)
    impl = Impl(opts, read_only, pal)
    vio, label, nt = [], 'declare', 0
    for i, op in enumerate(history):
        vio, label, nt = step(ref, impl, op)
        if vio:
            return ref, impl, vio, label, nt, i
    return ref, impl, vio, label, nt, None


def _decl_class(opts, read_only):
    parts = []
    for o in opts:
        s = o['kind']
        if o['alias']:
            s += '>alias'
        if o['extra']:
            s += '+' + o['extra']
        parts.append(s)
    return ('ro:' if read_only else '') + ','.join(parts)


def _mk_violation(case, history, what, opcls, msg):
    c = {'kind': 'history', 'opts': case['opts'], 'read_only': case['read_only'],
         'pal': case['pal'], 'history': history}
    return {'sig': 'C27:%s:%s' % (what, opcls),
            'msg': '[%s] history %r: %s' % (_decl_class(case['opts'], case['read_only']),
                                            history, msg),
            'case': c}


def _check_history(case):
    with warnings.catch_warnings():
        warnings.simplefilter('ignore')
        opts, ro, pal, hist = case['opts'], case['read_only'], case['pal'], case['history']
        ref = Ref(opts, ro, pal)
        impl = Impl(opts, ro, pal)
        vios = []
        if ref.decl_ok != (impl.decl_exc is None):
            what = 'declare_rejects_valid' if ref.decl_ok else 'declare_accepts_invalid'
            return {'evals': 1, 'outcome': 'violation', 'violations': [
                _mk_violation(case, [], what, _decl_class(opts, ro), 'declare raised %r' % (
                    impl.decl_exc,))]}
        if not ref.decl_ok:
            return {'evals': 1, 'outcome': 'declare:rejected', 'violations': []}
        _, _, vio, label, nt, at = replay(opts, ro, pal, hist)
        for what, opcls, msg in vio:
            vios.append(_mk_violation(case, hist[:at + 1], what, opcls, msg))
        return {'evals': 1, 'nontrivial': nt, 'outcome': 'violation' if vios else label,
                'violations': vios}


def check_case(case):
    # import first: openmdao installs its own warning filters on import, which would otherwise land
    # inside (and win over) the catch_warnings block below
    import openmdao.utils.options_dictionary  # noqa: F401
    if case['kind'] == 'history':
        return _check_history(case)
    with warnings.catch_warnings():
        warnings.simplefilter('ignore')
        return _bfs(case)


def _bfs(case):
    opts, ro, pal, depth = case['opts'], case['read_only'], case['pal'], case['depth']
    outcomes = collections.Counter()
    vios = []
    persig = collections.Counter()
    evals = 1
    nontriv = 0

    def addv(history, what, opcls, msg):
        v = _mk_violation(case, history, what, opcls, msg)
        persig[v['sig']] += 1
        if persig[v['sig']] <= _MAXV_PER_SIG:
            vios.append(v)
        outcomes['VIOLATION:' + what] += 1

    ref = Ref(opts, ro, pal)
    impl = Impl(opts, ro, pal)
    dcls = _decl_class(opts, ro)
    sample = {'decl': dcls, 'opts': [{k: v for k, v in o.items() if v not in (None, False)}
                                     for o in opts], 'depth': depth}
    if ref.decl_ok != (impl.decl_exc is None):
        what = 'declare_rejects_valid' if ref.decl_ok else 'declare_accepts_invalid'
        addv([], what, dcls, 'declare raised %r' % (impl.decl_exc,))
        return {'evals': 1, 'outcome': dict(outcomes), 'violations': vios, 'sample': sample,
                'counters': {'states': 1, 'transitions': 0, 'traces': 0}}
    if not ref.decl_ok:
        return {'evals': 1, 'nontrivial': 1, 'outcome': 'declare:rejected:' + type(
            impl.decl_exc).__name__, 'violations': [], 'sample': sample,
            'counters': {'states': 1, 'transitions': 0, 'traces': 1}}
    # initial observables: defaults readable, unset options raise
    for name in ref.meta:
        t = ref.target(name)
        got = impl.get(name)
        want = ref.vals[t]
        if (want is _UNSET) != (got[0] == 'raises') or (want is not _UNSET and
                                                         not _same(got[1], want)):
            addv([], 'initial_value', dcls, 'opts[%r] -> %r, expected %r' % (name, got, want))
    seen = {_canon(ref, impl)}
    frontier = [[]]
    transitions = traces = 0
    maxdepth = 0
    for d in range(depth):
        nxt = []
        for hist in frontier:
            r0, i0, _, _, _, _ = replay(opts, ro, pal, hist)
            ops = _ops(r0, pal)
            expanded = False
            for op in ops:
                h2 = hist + [op]
                r, i, vio, label, nt, at = replay(opts, ro, pal, h2)
                evals += 1
                transitions += 1
                if vio:
                    for what, opcls, msg in vio:
                        addv(h2, what, opcls, msg)
                    continue
                outcomes[label] += 1
                nontriv += nt
                c = _canon(r, i)
                if c in seen:
                    traces += 1          # leaf: continuation covered by the representative state
                    continue
                seen.add(c)
                maxdepth = d + 1
                if d + 1 < depth:
                    nxt.append(h2)
                else:
                    # leaf at the depth bound: drain the open contexts (all normally / innermost by
                    # exception) so that every entered context is also seen exiting
                    ok = True
                    for drain in ('exit', 'exit_exc'):
                        n_open = len(r.stack)
                        if not n_open:
                            break
                        h3 = h2 + [[drain]] + [['exit']] * (n_open - 1)
                        r3, i3, vio3, label3, nt3, at3 = replay(opts, ro, pal, h3)
                        evals += 1
                        transitions += n_open
                        if vio3:
                            ok = False
                            for what, opcls, msg in vio3:
                                addv(h3[:at3 + 1], what, opcls, msg)
                        else:
                            outcomes['drain:' + drain] += 1
                            nontriv += nt3
                    if ok:
                        traces += 1
        frontier = nxt
        if not frontier:
            break
    sample['states'] = len(seen)
    sample['max_depth'] = maxdepth
    return {'evals': evals, 'nontrivial': nontriv, 'outcome': dict(outcomes), 'violations': vios,
            'sample': sample,
            'counters': {'states': len(seen), 'transitions': transitions, 'traces': traces}}
